/* wire_h: in-process harness for the wire layer (C16, C01, C02, C11, C12).
 * Reads one command per line on stdin, prints one canonical result per line. */
#include "common.h"
#include <unistd.h>
#include <dbus/dbus-marshal-validate.h>
#include <dbus/dbus-signature.h>
#include <dbus/dbus-syntax.h>

typedef dbus_bool_t (*ValidateFn) (const DBusString *, int, int);
typedef dbus_bool_t (*PublicFn) (const char *, DBusError *);

/* <internal on exact buffer> <internal embedded at offset 3 in a larger string> <public or -> */
static void do_name (const char *hex, ValidateFn f, PublicFn pub)
{
  int n; unsigned char *b = unhex (hex, &n);
  DBusString s, s2; int v1, v2; char v3 = '-';
  _dbus_string_init_const_len (&s, (const char *) b, n);
  v1 = f (&s, 0, n) ? 1 : 0;
  if (!_dbus_string_init (&s2)) abort ();
  if (!_dbus_string_append (&s2, "xy.") || !_dbus_string_append_len (&s2, (const char *) b, n) || !_dbus_string_append (&s2, "/z:")) abort ();
  v2 = f (&s2, 3, n) ? 1 : 0;
  _dbus_string_free (&s2);
  if (pub != NULL && !has_nul (b, n))
    {
      /* the public functions additionally require valid UTF-8; only call with that */
      DBusString t; _dbus_string_init_const (&t, (const char *) b);
      if (_dbus_string_validate_utf8 (&t, 0, n))
        v3 = pub ((const char *) b, NULL) ? '1' : '0';
    }
  printf ("%d %d %c\n", v1, v2, v3);
  free (b);
}

static void do_utf8 (const char *hex)
{
  int n; unsigned char *b = unhex (hex, &n);
  DBusString s; int v1; char v3 = '-';
  _dbus_string_init_const_len (&s, (const char *) b, n);
  v1 = _dbus_string_validate_utf8 (&s, 0, n) ? 1 : 0;
  if (!has_nul (b, n)) v3 = dbus_validate_utf8 ((const char *) b, NULL) ? '1' : '0';
  printf ("%d %c\n", v1, v3);
  free (b);
}

static void do_sig (const char *hex)
{
  int n; unsigned char *b = unhex (hex, &n);
  DBusString s; int r; char p1 = '-', p2 = '-';
  _dbus_string_init_const_len (&s, (const char *) b, n);
  r = (int) _dbus_validate_signature_with_reason (&s, 0, n);
  if (!has_nul (b, n))
    {
      p1 = dbus_signature_validate ((const char *) b, NULL) ? '1' : '0';
      p2 = dbus_signature_validate_single ((const char *) b, NULL) ? '1' : '0';
    }
  printf ("%d %c %c\n", r, p1, p2);
  free (b);
}

#include <dbus/dbus-message-internal.h>
#include <dbus/dbus-message-private.h>

/* canonical dump of a message through the PUBLIC accessor / iterator API */
static void dump_iter (DBusMessageIter *it)
{
  int t; int first = 1;
  while ((t = dbus_message_iter_get_arg_type (it)) != DBUS_TYPE_INVALID)
    {
      if (!first) putchar (' ');
      first = 0;
      switch (t)
        {
        case DBUS_TYPE_BYTE: { unsigned char v; dbus_message_iter_get_basic (it, &v); printf ("y%u", v); break; }
        case DBUS_TYPE_BOOLEAN: { dbus_bool_t v; dbus_message_iter_get_basic (it, &v); printf ("b%u", (unsigned) v); break; }
        case DBUS_TYPE_INT16: case DBUS_TYPE_UINT16: { dbus_uint16_t v; dbus_message_iter_get_basic (it, &v); printf ("%c%u", t, (unsigned) v); break; }
        case DBUS_TYPE_INT32: case DBUS_TYPE_UINT32: { dbus_uint32_t v; dbus_message_iter_get_basic (it, &v); printf ("%c%u", t, (unsigned) v); break; }
        case DBUS_TYPE_UNIX_FD: { int v = -1; dbus_message_iter_get_basic (it, &v); if (v >= 0) close (v); printf ("h_"); break; }   /* descriptors are C15's business */
        case DBUS_TYPE_INT64: case DBUS_TYPE_UINT64: case DBUS_TYPE_DOUBLE: { dbus_uint64_t v; dbus_message_iter_get_basic (it, &v); printf ("%c%llu", t, (unsigned long long) v); break; }
        case DBUS_TYPE_STRING: case DBUS_TYPE_OBJECT_PATH: case DBUS_TYPE_SIGNATURE:
          { const char *v; dbus_message_iter_get_basic (it, &v); printf ("%c", t); puthex ((const unsigned char *) v, (int) strlen (v)); break; }
        case DBUS_TYPE_ARRAY:
          { DBusMessageIter sub; char *sg; dbus_message_iter_recurse (it, &sub);
            printf ("a["); dump_iter (&sub); printf ("]"); break; }
        case DBUS_TYPE_STRUCT: { DBusMessageIter sub; dbus_message_iter_recurse (it, &sub); printf ("("); dump_iter (&sub); printf (")"); break; }
        case DBUS_TYPE_DICT_ENTRY: { DBusMessageIter sub; dbus_message_iter_recurse (it, &sub); printf ("{"); dump_iter (&sub); printf ("}"); break; }
        case DBUS_TYPE_VARIANT:
          { DBusMessageIter sub; char *sg; dbus_message_iter_recurse (it, &sub); sg = dbus_message_iter_get_signature (&sub);
            printf ("v<%s>", sg ? sg : "OOM"); dbus_free (sg); dump_iter (&sub); printf ("</v>"); break; }
        default: printf ("?%d", t);
        }
      dbus_message_iter_next (it);
    }
}

static void puts_or_dash (const char *k, const char *v)
{
  printf (" %s=", k);
  if (v == NULL) printf ("~"); else puthex ((const unsigned char *) v, (int) strlen (v));
}

static void dump_getters (DBusMessage *m)
{
  const char *v[7]; int i;
  v[0] = dbus_message_get_path (m); v[1] = dbus_message_get_interface (m); v[2] = dbus_message_get_member (m);
  v[3] = dbus_message_get_error_name (m); v[4] = dbus_message_get_destination (m); v[5] = dbus_message_get_sender (m);
  v[6] = dbus_message_get_container_instance (m);
  printf ("rs%u", dbus_message_get_reply_serial (m));
  for (i = 0; i < 7; i++) { putchar (','); if (v[i] == NULL) putchar ('~'); else puthex ((const unsigned char *) v[i], (int) strlen (v[i])); }
}

static void dump_message (DBusMessage *m)
{
  DBusMessageIter it;
  printf ("type=%d flags=%d%d%d serial=%u rs=%u", dbus_message_get_type (m), dbus_message_get_no_reply (m) ? 1 : 0,
          dbus_message_get_auto_start (m) ? 0 : 1, dbus_message_get_allow_interactive_authorization (m) ? 1 : 0,
          dbus_message_get_serial (m), dbus_message_get_reply_serial (m));
  puts_or_dash ("path", dbus_message_get_path (m));
  puts_or_dash ("iface", dbus_message_get_interface (m));
  puts_or_dash ("member", dbus_message_get_member (m));
  puts_or_dash ("err", dbus_message_get_error_name (m));
  puts_or_dash ("dest", dbus_message_get_destination (m));
  puts_or_dash ("sender", dbus_message_get_sender (m));
  puts_or_dash ("sig", dbus_message_get_signature (m));
  printf (" body=[");
  if (dbus_message_iter_init (m, &it)) dump_iter (&it);
  printf ("]");
}

static void put_marshalled (DBusMessage *m)
{
  char *buf = NULL; int len = 0;
  if (!dbus_message_marshal (m, &buf, &len)) { printf ("OOM"); return; }
  puthex ((const unsigned char *) buf, len);
  dbus_free (buf);
}

/* load <mode> <chunk> [<chunk> ...] : feed a loader chunk by chunk (queue_messages after each, as the transport does).
 * mode: m = print marshalled messages, d = print accessor dumps */
static long g_load_max = -1;      /* loadmax: the loader's max_message_size for the next do_load */
static void do_load (char *mode)
{
  DBusMessageLoader *l = _dbus_message_loader_new ();
  char *tok; int produced_after_corrupt = 0;
  if (l == NULL) abort ();
  if (g_load_max >= 0) _dbus_message_loader_set_max_message_size (l, g_load_max);
  while ((tok = strtok (NULL, " ")) != NULL)
    {
      int n; unsigned char *b = unhex (tok, &n); DBusString *buf; int off = 0;
      /* honour max_to_read like the socket transport does */
      while (off < n || n == 0)
        {
          int max_to_read = n; int take; dbus_bool_t may_fds = FALSE;
          _dbus_message_loader_get_buffer (l, &buf, &max_to_read, &may_fds);
          take = n - off; if (take > max_to_read) take = max_to_read;
          if (!_dbus_string_append_len (buf, (const char *) b + off, take)) abort ();
          _dbus_message_loader_return_buffer (l, buf);
          if (!_dbus_message_loader_queue_messages (l)) abort ();
          off += take;
          if (n == 0) break;
        }
      free (b);
    }
  {
    DBusMessage *m; int cnt = 0; DBusValidity reason = DBUS_VALID;
    dbus_bool_t corrupted = _dbus_message_loader_get_is_corrupted (l);
    if (corrupted) reason = _dbus_message_loader_get_corruption_reason (l);
    printf ("corrupted=%d reason=%d msgs=", corrupted ? 1 : 0, (int) reason);
    while ((m = _dbus_message_loader_pop_message (l)) != NULL)
      {
        if (cnt++) putchar ('|');
        if (mode[0] == 'd') dump_message (m); else put_marshalled (m);
        dbus_message_unref (m);
      }
    if (cnt == 0) putchar ('-');
    printf ("\n");
  }
  _dbus_message_loader_unref (l);
}

/* loadf <nfds> <chunk> [<chunk> ...] : the socket transport's reading loop with descriptors: <nfds> descriptors are
 * handed to the loader with the first read, every read honours the limit given by _dbus_message_loader_get_buffer and
 * reading stops at corruption (the transport disconnects); prints the limits asked for and whether a limit of 0 stalled it */
#include <fcntl.h>
static void do_loadf (char *nfds_s)
{
  DBusMessageLoader *l = _dbus_message_loader_new ();
  char *tok; int nfds = atoi (nfds_s); int first = 1, stalled = 0, stop = 0, nreads = 0;
  char *reads = NULL; size_t rp = 0; FILE *rf = open_memstream (&reads, &rp);
  if (l == NULL) abort ();
  if (rf == NULL) abort ();
  while (!stop && (tok = strtok (NULL, " ")) != NULL)
    {
      int n; unsigned char *b = unhex (tok, &n); DBusString *buf; int off = 0;
      while (off < n)
        {
          int max_to_read = n; int take; dbus_bool_t may_fds = FALSE;
          if (_dbus_message_loader_get_is_corrupted (l)) { stop = 1; break; }
          _dbus_message_loader_get_buffer (l, &buf, &max_to_read, &may_fds);
          fprintf (rf, "%s%d:%d", nreads ? "," : "", max_to_read, may_fds ? 1 : 0);
          nreads++;
          take = n - off; if (take > max_to_read) take = max_to_read;
          if (first && nfds > 0 && may_fds)
            {
              /* as do_reading: descriptors are collected between get_buffer and return_buffer */
              int *fds; unsigned max_fds; int i;
              if (!_dbus_message_loader_get_unix_fds (l, &fds, &max_fds)) abort ();
              for (i = 0; i < nfds && (unsigned) i < max_fds; i++) fds[i] = open ("/dev/null", O_RDONLY | O_CLOEXEC);
              _dbus_message_loader_return_unix_fds (l, fds, i);
            }
          if (take > 0 && !_dbus_string_append_len (buf, (const char *) b + off, take)) abort ();
          _dbus_message_loader_return_buffer (l, buf);
          if (take <= 0) { stalled = 1; stop = 1; break; }
          first = 0;
          if (!_dbus_message_loader_queue_messages (l)) abort ();
          off += take;
        }
      free (b);
    }
  {
    DBusMessage *m; int cnt = 0;
    dbus_bool_t corrupted = _dbus_message_loader_get_is_corrupted (l);
    fclose (rf);
    printf ("corrupted=%d stalled=%d reads=%s msgs=", corrupted ? 1 : 0, stalled, nreads ? reads : "-");
    free (reads);
    while ((m = _dbus_message_loader_pop_message (l)) != NULL)
      {
        if (cnt++) putchar ('|');
        put_marshalled (m);
        dbus_message_unref (m);
      }
    if (cnt == 0) putchar ('-');
    printf ("\n");
  }
  _dbus_message_loader_unref (l);
}

static void do_demarshal (const char *hex)
{
  int n; unsigned char *b = unhex (hex, &n);
  DBusError e; DBusMessage *m; int need;
  dbus_error_init (&e);
  need = dbus_message_demarshal_bytes_needed ((const char *) b, n);
  m = dbus_message_demarshal ((const char *) b, n, &e);
  if (m != NULL) { printf ("needed=%d msg ", need); put_marshalled (m); printf ("\n"); dbus_message_unref (m); }
  else if (dbus_error_has_name (&e, DBUS_ERROR_NO_MEMORY)) printf ("needed=%d incomplete\n", need);
  else printf ("needed=%d corrupt\n", need);
  dbus_error_free (&e);
  free (b);
}

/* ---- C02: construction programs ------------------------------------------
 * build <type> <flags> <serial> <setters> <token>...
 *   setters: comma separated, applied in order: path=<hex>,iface=<hex>,member=<hex>,err=<hex>,dest=<hex>,sender=<hex>,rs=<n>,ci=<hex> ("-" for none)
 *   tokens : y5 b1 n7 q7 i7 u7 x7 t7 d7 h7 (unsigned decimal of the bit pattern) s<hex> o<hex> g<hex>
 *            A<elemsig> ... ]   ( ... )   { ... }   V<sig> <one value> ;
 */
static char **g_tok; static int g_ntok, g_pos;

static int fixed_size_of (int c)
{
  switch (c) { case 'y': return 1; case 'n': case 'q': return 2; case 'b': case 'i': case 'u': return 4; case 'x': case 't': case 'd': return 8; default: return 0; }
}

/* consume basic tokens of type et up to "]" into buf (native layout); returns the count or -1 */
static int collect_fixed (int et, int sz, unsigned char *buf)
{
  int n = 0;
  while (g_pos < g_ntok)
    {
      char *t = g_tok[g_pos++];
      if (!strcmp (t, "]")) return n;
      if (t[0] != et) return -1;
      if (sz == 1) { unsigned char v = (unsigned char) strtoul (t + 1, NULL, 10); memcpy (buf + n, &v, 1); }
      else if (sz == 2) { dbus_uint16_t v = (dbus_uint16_t) strtoul (t + 1, NULL, 10); memcpy (buf + 2 * n, &v, 2); }
      else if (sz == 4) { dbus_uint32_t v = (dbus_uint32_t) strtoul (t + 1, NULL, 10); memcpy (buf + 4 * n, &v, 4); }
      else { dbus_uint64_t v = (dbus_uint64_t) strtoull (t + 1, NULL, 10); memcpy (buf + 8 * n, &v, 8); }
      n++;
    }
  return -1;
}

/* buildargs: every top-level argument through dbus_message_append_args (the varargs entry point), one call per argument:
 * basic values, arrays of fixed-size elements (type, &ptr, n) and arrays of string-like elements (&strv, n) */
static dbus_bool_t append_args_tokens (DBusMessage *m)
{
  while (g_pos < g_ntok)
    {
      char *t = g_tok[g_pos++];
      switch (t[0])
        {
        case 'y': { unsigned char v = (unsigned char) strtoul (t + 1, NULL, 10); if (!dbus_message_append_args (m, DBUS_TYPE_BYTE, &v, DBUS_TYPE_INVALID)) return FALSE; break; }
        case 'b': { dbus_bool_t v = (dbus_bool_t) strtoul (t + 1, NULL, 10); if (!dbus_message_append_args (m, DBUS_TYPE_BOOLEAN, &v, DBUS_TYPE_INVALID)) return FALSE; break; }
        case 'n': case 'q': { dbus_uint16_t v = (dbus_uint16_t) strtoul (t + 1, NULL, 10); if (!dbus_message_append_args (m, (int) t[0], &v, DBUS_TYPE_INVALID)) return FALSE; break; }
        case 'i': case 'u': { dbus_uint32_t v = (dbus_uint32_t) strtoul (t + 1, NULL, 10); if (!dbus_message_append_args (m, (int) t[0], &v, DBUS_TYPE_INVALID)) return FALSE; break; }
        case 'x': case 't': case 'd': { dbus_uint64_t v = (dbus_uint64_t) strtoull (t + 1, NULL, 10); if (!dbus_message_append_args (m, (int) t[0], &v, DBUS_TYPE_INVALID)) return FALSE; break; }
        case 's': case 'o': case 'g': { int n; unsigned char *b = unhex (t + 1, &n); const char *p = (const char *) b; dbus_bool_t ok = dbus_message_append_args (m, (int) t[0], &p, DBUS_TYPE_INVALID); free (b); if (!ok) return FALSE; break; }
        case 'A':
          {
            int et = t[1]; int sz = fixed_size_of (et);
            if (t[2] != 0) return FALSE;
            if (sz > 0)
              {
                unsigned char *buf = malloc (8 * (size_t) (g_ntok + 1)); const void *ptr = buf; dbus_bool_t ok;
                int n = collect_fixed (et, sz, buf);
                if (n < 0) { free (buf); return FALSE; }
                ok = dbus_message_append_args (m, DBUS_TYPE_ARRAY, et, &ptr, n, DBUS_TYPE_INVALID);
                free (buf);
                if (!ok) return FALSE;
              }
            else if (et == 's' || et == 'o' || et == 'g')
              {
                char **strv = calloc ((size_t) g_ntok + 1, sizeof (char *)); const char **p = (const char **) strv; int n = 0, k, len; dbus_bool_t ok = TRUE;
                while (g_pos < g_ntok)
                  {
                    char *e = g_tok[g_pos++];
                    if (!strcmp (e, "]")) break;
                    if (e[0] != et) { ok = FALSE; break; }
                    strv[n++] = (char *) unhex (e + 1, &len);
                  }
                if (ok) ok = dbus_message_append_args (m, DBUS_TYPE_ARRAY, et, &p, n, DBUS_TYPE_INVALID);
                for (k = 0; k < n; k++) free (strv[k]);
                free (strv);
                if (!ok) return FALSE;
              }
            else return FALSE;
            break;
          }
        default: return FALSE;
        }
    }
  return TRUE;
}

static dbus_bool_t append_tokens (DBusMessageIter *it, const char *closer)
{
  while (g_pos < g_ntok)
    {
      char *t = g_tok[g_pos++];
      if (closer != NULL && strcmp (t, closer) == 0) return TRUE;
      switch (t[0])
        {
        case 'y': { unsigned char v = (unsigned char) strtoul (t + 1, NULL, 10); if (!dbus_message_iter_append_basic (it, DBUS_TYPE_BYTE, &v)) return FALSE; break; }
        case 'b': { dbus_bool_t v = (dbus_bool_t) strtoul (t + 1, NULL, 10); if (!dbus_message_iter_append_basic (it, DBUS_TYPE_BOOLEAN, &v)) return FALSE; break; }
        case 'n': case 'q': { dbus_uint16_t v = (dbus_uint16_t) strtoul (t + 1, NULL, 10); if (!dbus_message_iter_append_basic (it, t[0], &v)) return FALSE; break; }
        case 'i': case 'u': { dbus_uint32_t v = (dbus_uint32_t) strtoul (t + 1, NULL, 10); if (!dbus_message_iter_append_basic (it, t[0], &v)) return FALSE; break; }
        case 'x': case 't': case 'd': { dbus_uint64_t v = (dbus_uint64_t) strtoull (t + 1, NULL, 10); if (!dbus_message_iter_append_basic (it, t[0], &v)) return FALSE; break; }
        case 's': case 'o': case 'g': { int n; unsigned char *b = unhex (t + 1, &n); const char *p = (const char *) b; dbus_bool_t ok = dbus_message_iter_append_basic (it, t[0], &p); free (b); if (!ok) return FALSE; break; }
        case 'A': { DBusMessageIter sub; if (!dbus_message_iter_open_container (it, DBUS_TYPE_ARRAY, t + 1, &sub)) return FALSE;
                    if (!append_tokens (&sub, "]")) return FALSE; if (!dbus_message_iter_close_container (it, &sub)) return FALSE; break; }
        case 'F': { /* array of fixed-size elements through dbus_message_iter_append_fixed_array (all elements in one call) */
                    DBusMessageIter sub; int et = t[1], n = 0; int sz = fixed_size_of (et); unsigned char *buf; const void *ptr;
                    if (sz == 0) return FALSE;
                    buf = malloc (8 * (size_t) (g_ntok + 1));
                    n = collect_fixed (et, sz, buf);
                    if (n < 0) { free (buf); return FALSE; }
                    ptr = buf;
                    if (!dbus_message_iter_open_container (it, DBUS_TYPE_ARRAY, t + 1, &sub)) { free (buf); return FALSE; }
                    if (n > 0 && !dbus_message_iter_append_fixed_array (&sub, et, &ptr, n)) { free (buf); return FALSE; }
                    free (buf);
                    if (!dbus_message_iter_close_container (it, &sub)) return FALSE; break; }
        case '(': { DBusMessageIter sub; if (!dbus_message_iter_open_container (it, DBUS_TYPE_STRUCT, NULL, &sub)) return FALSE;
                    if (!append_tokens (&sub, ")")) return FALSE; if (!dbus_message_iter_close_container (it, &sub)) return FALSE; break; }
        case '{': { DBusMessageIter sub; if (!dbus_message_iter_open_container (it, DBUS_TYPE_DICT_ENTRY, NULL, &sub)) return FALSE;
                    if (!append_tokens (&sub, "}")) return FALSE; if (!dbus_message_iter_close_container (it, &sub)) return FALSE; break; }
        case 'V': { DBusMessageIter sub; if (!dbus_message_iter_open_container (it, DBUS_TYPE_VARIANT, t + 1, &sub)) return FALSE;
                    if (!append_tokens (&sub, ";")) return FALSE; if (!dbus_message_iter_close_container (it, &sub)) return FALSE; break; }
        default: return FALSE;
        }
    }
  return closer == NULL;
}

static char *hexstr (const char *h) { int n; if (!strcmp (h, "~")) return NULL; return (char *) unhex (h, &n); }

static dbus_bool_t apply_setter (DBusMessage *m, const char *kv)
{
  const char *eq = strchr (kv, '='); char *v; dbus_bool_t ok = TRUE;
  if (eq == NULL) return TRUE;
  if (!strncmp (kv, "rs=", 3)) return dbus_message_set_reply_serial (m, (dbus_uint32_t) strtoul (eq + 1, NULL, 10));
  v = hexstr (eq + 1);
  if (!strncmp (kv, "path=", 5)) ok = dbus_message_set_path (m, v);
  else if (!strncmp (kv, "iface=", 6)) ok = dbus_message_set_interface (m, v);
  else if (!strncmp (kv, "member=", 7)) ok = dbus_message_set_member (m, v);
  else if (!strncmp (kv, "err=", 4)) ok = dbus_message_set_error_name (m, v);
  else if (!strncmp (kv, "dest=", 5)) ok = dbus_message_set_destination (m, v);
  else if (!strncmp (kv, "sender=", 7)) ok = dbus_message_set_sender (m, v);
  else if (!strncmp (kv, "ci=", 3)) ok = dbus_message_set_container_instance (m, v);
  else if (!strncmp (kv, "strip=", 6)) ok = _dbus_message_remove_unknown_fields (m);
  free (v);
  return ok;
}

/* read the FIRST argument back through dbus_message_get_args (the varargs accessor); printed in dump_iter's format */
static void dump_first_via_get_args (DBusMessage *m, const char *tok)
{
  DBusError e; dbus_error_init (&e);
  printf (" getargs=");
  switch (tok[0])
    {
    case 'y': { unsigned char v = 0; if (dbus_message_get_args (m, &e, DBUS_TYPE_BYTE, &v, DBUS_TYPE_INVALID)) printf ("y%u", v); else printf ("ERR"); break; }
    case 'b': { dbus_bool_t v = 0; if (dbus_message_get_args (m, &e, DBUS_TYPE_BOOLEAN, &v, DBUS_TYPE_INVALID)) printf ("b%u", (unsigned) v); else printf ("ERR"); break; }
    case 'n': case 'q': { dbus_uint16_t v = 0; if (dbus_message_get_args (m, &e, (int) tok[0], &v, DBUS_TYPE_INVALID)) printf ("%c%u", tok[0], (unsigned) v); else printf ("ERR"); break; }
    case 'i': case 'u': { dbus_uint32_t v = 0; if (dbus_message_get_args (m, &e, (int) tok[0], &v, DBUS_TYPE_INVALID)) printf ("%c%u", tok[0], (unsigned) v); else printf ("ERR"); break; }
    case 'x': case 't': case 'd': { dbus_uint64_t v = 0; if (dbus_message_get_args (m, &e, (int) tok[0], &v, DBUS_TYPE_INVALID)) printf ("%c%llu", tok[0], (unsigned long long) v); else printf ("ERR"); break; }
    case 's': case 'o': case 'g': { const char *v = NULL; if (dbus_message_get_args (m, &e, (int) tok[0], &v, DBUS_TYPE_INVALID)) { printf ("%c", tok[0]); puthex ((const unsigned char *) v, (int) strlen (v)); } else printf ("ERR"); break; }
    case 'A':
      {
        int et = tok[1]; int sz = fixed_size_of (et); int n = 0, k;
        if (sz > 0)
          {
            const unsigned char *p = NULL;
            if (!dbus_message_get_args (m, &e, DBUS_TYPE_ARRAY, et, &p, &n, DBUS_TYPE_INVALID)) { printf ("ERR"); break; }
            printf ("a[");
            for (k = 0; k < n; k++)
              {
                unsigned long long v = 0;
                if (sz == 1) v = p[k]; else if (sz == 2) { dbus_uint16_t x; memcpy (&x, p + 2 * k, 2); v = x; }
                else if (sz == 4) { dbus_uint32_t x; memcpy (&x, p + 4 * k, 4); v = x; } else { dbus_uint64_t x; memcpy (&x, p + 8 * k, 8); v = x; }
                printf ("%s%c%llu", k ? " " : "", et, v);
              }
            printf ("]");
          }
        else
          {
            char **strv = NULL;
            if (!dbus_message_get_args (m, &e, DBUS_TYPE_ARRAY, et, &strv, &n, DBUS_TYPE_INVALID)) { printf ("ERR"); break; }
            printf ("a[");
            for (k = 0; k < n; k++) { printf ("%s%c", k ? " " : "", et); puthex ((const unsigned char *) strv[k], (int) strlen (strv[k])); }
            printf ("]");
            dbus_free_string_array (strv);
          }
        break;
      }
    default: printf ("-");
    }
  dbus_error_free (&e);
}

static void do_build (int args_mode)
{
  char *toks[4096]; int n = 0; char *t; DBusMessage *m, *copy; DBusMessageIter it; int type, flags; unsigned long serial; char *setters, *sp, *kv;
  while (n < 4096 && (t = strtok (NULL, " ")) != NULL) toks[n++] = t;
  if (n < 4) { printf ("?bad-args\n"); return; }
  type = atoi (toks[0]); flags = atoi (toks[1]); serial = strtoul (toks[2], NULL, 10); setters = toks[3];
  m = dbus_message_new (type);
  if (m == NULL) { printf ("refused-new\n"); return; }
  if (flags & 1) dbus_message_set_no_reply (m, TRUE);
  if (flags & 2) dbus_message_set_auto_start (m, FALSE);
  if (flags & 4) dbus_message_set_allow_interactive_authorization (m, TRUE);
  for (kv = strtok_r (setters, ",", &sp); kv != NULL; kv = strtok_r (NULL, ",", &sp))
    if (!apply_setter (m, kv)) { printf ("refused-setter %s\n", kv); dbus_message_unref (m); return; }
  g_tok = toks + 4; g_ntok = n - 4; g_pos = 0;
  if (args_mode)
    {
      if (!append_args_tokens (m)) { printf ("refused-append at token %d\n", g_pos); dbus_message_unref (m); return; }
    }
  else
    {
      dbus_message_iter_init_append (m, &it);
      if (!append_tokens (&it, NULL)) { printf ("refused-append at token %d\n", g_pos); dbus_message_unref (m); return; }
    }
  dbus_message_set_serial (m, (dbus_uint32_t) serial);
  /* read the header through the getters BEFORE anything serialises the message (stale caches must show) */
  printf ("getters="); dump_getters (m);
  printf (" bytes="); put_marshalled (m);
  printf (" dump="); dump_message (m);
  if (args_mode && n > 4) dump_first_via_get_args (m, toks[4]);
  /* copy: equal message with serial 0 */
  copy = dbus_message_copy (m);
  if (copy == NULL) printf (" copy=OOM");
  else
    {
      printf (" copyserial=%u copy=", dbus_message_get_serial (copy));
      dbus_message_set_serial (copy, (dbus_uint32_t) serial);
      put_marshalled (copy);
      dbus_message_unref (copy);
    }
  printf ("\n");
  dbus_message_unref (m);
}

/* swap <hex> : load one message (any byte order), read it through the iterator API (which converts it to
 * the native byte order), dump and re-marshal */
static void do_swap (const char *hex)
{
  int n; unsigned char *b = unhex (hex, &n); DBusError e; DBusMessage *m;
  dbus_error_init (&e);
  m = dbus_message_demarshal ((const char *) b, n, &e);
  if (m == NULL) { printf ("corrupt\n"); dbus_error_free (&e); free (b); return; }
  printf ("dump="); dump_message (m);
  printf (" bytes="); put_marshalled (m);
  printf ("\n");
  dbus_message_unref (m); free (b);
}

/* arr1 <hex> : dbus_message_iter_get_element_count and, for fixed-size element types, dbus_message_iter_get_fixed_array on the
 * first argument of the message (which must be an array): prints `count=<n> fixed=<n> <hex>` (or fixed=-) */
static void do_arr1 (const char *hex)
{
  int n; unsigned char *b = unhex (hex, &n); DBusError e; DBusMessage *m; DBusMessageIter it, sub;
  dbus_error_init (&e);
  m = dbus_message_demarshal ((const char *) b, n, &e);
  free (b);
  if (m == NULL) { printf ("corrupt\n"); dbus_error_free (&e); return; }
  if (!dbus_message_iter_init (m, &it) || dbus_message_iter_get_arg_type (&it) != DBUS_TYPE_ARRAY) { printf ("noarray\n"); dbus_message_unref (m); return; }
  printf ("count=%d", dbus_message_iter_get_element_count (&it));
  {
    int et = dbus_message_iter_get_element_type (&it);
    if (dbus_type_is_fixed (et) && et != DBUS_TYPE_UNIX_FD)
      {
        const unsigned char *data = NULL; int cnt = 0; int sz;
        dbus_message_iter_recurse (&it, &sub);
        dbus_message_iter_get_fixed_array (&sub, &data, &cnt);
        sz = (et == DBUS_TYPE_BYTE) ? 1 : (et == DBUS_TYPE_INT16 || et == DBUS_TYPE_UINT16) ? 2 :
             (et == DBUS_TYPE_INT64 || et == DBUS_TYPE_UINT64 || et == DBUS_TYPE_DOUBLE) ? 8 : 4;
        printf (" fixed=%d ", cnt);
        if (cnt > 0) puthex (data, cnt * sz); else putchar ('-');
      }
    else printf (" fixed=-");
  }
  printf ("\n");
  dbus_message_unref (m);
}

/* edit <hex> <op>... : load one message, apply header edits in order, print the marshalled form after each */
static void do_edit (const char *hex)
{
  int n; unsigned char *b = unhex (hex, &n); DBusError e; DBusMessage *m; char *op; int k = 0;
  dbus_error_init (&e);
  m = dbus_message_demarshal ((const char *) b, n, &e);
  free (b);
  if (m == NULL) { printf ("corrupt\n"); dbus_error_free (&e); return; }
  while ((op = strtok (NULL, " ")) != NULL)
    {
      if (k++) putchar ('|');
      if (!apply_setter (m, op)) printf ("refused");
      else { dump_getters (m); putchar ('@'); put_marshalled (m); }
    }
  if (k == 0) put_marshalled (m);
  printf ("\n");
  dbus_message_unref (m);
}

int main (void)
{
  char *line = NULL; size_t cap = 0; ssize_t got;
  setvbuf (stdout, NULL, _IOLBF, 0);   /* so that the crashing input can be identified */
  while ((got = getline (&line, &cap, stdin)) > 0)
    {
      char *cmd, *a1;
      if (line[got - 1] == '\n') line[got - 1] = 0;
      cmd = strtok (line, " ");
      if (cmd == NULL) { printf ("\n"); continue; }
      if (!strcmp (cmd, "build")) { do_build (0); continue; }
      if (!strcmp (cmd, "buildargs")) { do_build (1); continue; }
      a1 = strtok (NULL, " ");
      if (a1 == NULL) a1 = "-";
      if (!strcmp (cmd, "iface")) do_name (a1, _dbus_validate_interface, dbus_validate_interface);
      else if (!strcmp (cmd, "errname")) do_name (a1, _dbus_validate_error_name, dbus_validate_error_name);
      else if (!strcmp (cmd, "member")) do_name (a1, _dbus_validate_member, dbus_validate_member);
      else if (!strcmp (cmd, "path")) do_name (a1, _dbus_validate_path, dbus_validate_path);
      else if (!strcmp (cmd, "busname")) do_name (a1, _dbus_validate_bus_name, dbus_validate_bus_name);
      else if (!strcmp (cmd, "utf8")) do_utf8 (a1);
      else if (!strcmp (cmd, "sig")) do_sig (a1);
      else if (!strcmp (cmd, "load")) { g_load_max = -1; do_load (a1); }
      else if (!strcmp (cmd, "loadmax")) { g_load_max = atol (a1); do_load (strtok (NULL, " ")); g_load_max = -1; }
      else if (!strcmp (cmd, "loadf")) do_loadf (a1);
      else if (!strcmp (cmd, "demarshal")) do_demarshal (a1);
      else if (!strcmp (cmd, "swap")) do_swap (a1);
      else if (!strcmp (cmd, "arr1")) do_arr1 (a1);
      else if (!strcmp (cmd, "edit")) do_edit (a1);
      else printf ("?unknown-command\n");
    }
  free (line);
  fflush (stdout);
  return 0;
}
