/* wire_h: in-process harness for the wire layer (C16, C01, C02, C11, C12).
 * Reads one command per line on stdin, prints one canonical result per line. */
#include "common.h"
#include <dbus/dbus-marshal-validate.h>
#include <dbus/dbus-signature.h>
#include <dbus/dbus-syntax.h>

typedef dbus_bool_t (*ValidateFn) (const DBusString *, int, int);
typedef dbus_bool_t (*PublicFn) (const char *, DBusError *);

/* <internal on exact buffer> <internal embedded at offset 3 in a larger string> <public or -> */
static void do_name (const char *hex, ValidateFn f, PublicFn pub)
{
  int n; unsigned char *b = unhex (hex, &n);
  DBusString s, s2; int v1, v2; char v3 = '-';
  _dbus_string_init_const_len (&s, (const char *) b, n);
  v1 = f (&s, 0, n) ? 1 : 0;
  if (!_dbus_string_init (&s2)) abort ();
  if (!_dbus_string_append (&s2, "xy.") || !_dbus_string_append_len (&s2, (const char *) b, n) || !_dbus_string_append (&s2, "/z:")) abort ();
  v2 = f (&s2, 3, n) ? 1 : 0;
  _dbus_string_free (&s2);
  if (pub != NULL && !has_nul (b, n))
    {
      /* the public functions additionally require valid UTF-8; only call with that */
      DBusString t; _dbus_string_init_const (&t, (const char *) b);
      if (_dbus_string_validate_utf8 (&t, 0, n))
        v3 = pub ((const char *) b, NULL) ? '1' : '0';
    }
  printf ("%d %d %c\n", v1, v2, v3);
  free (b);
}

static void do_utf8 (const char *hex)
{
  int n; unsigned char *b = unhex (hex, &n);
  DBusString s; int v1; char v3 = '-';
  _dbus_string_init_const_len (&s, (const char *) b, n);
  v1 = _dbus_string_validate_utf8 (&s, 0, n) ? 1 : 0;
  if (!has_nul (b, n)) v3 = dbus_validate_utf8 ((const char *) b, NULL) ? '1' : '0';
  printf ("%d %c\n", v1, v3);
  free (b);
}

static void do_sig (const char *hex)
{
  int n; unsigned char *b = unhex (hex, &n);
  DBusString s; int r; char p1 = '-', p2 = '-';
  _dbus_string_init_const_len (&s, (const char *) b, n);
  r = (int) _dbus_validate_signature_with_reason (&s, 0, n);
  if (!has_nul (b, n))
    {
      p1 = dbus_signature_validate ((const char *) b, NULL) ? '1' : '0';
      p2 = dbus_signature_validate_single ((const char *) b, NULL) ? '1' : '0';
    }
  printf ("%d %c %c\n", r, p1, p2);
  free (b);
}

int main (void)
{
  char *line = NULL; size_t cap = 0; ssize_t got;
  while ((got = getline (&line, &cap, stdin)) > 0)
    {
      char *cmd, *a1;
      if (line[got - 1] == '\n') line[got - 1] = 0;
      cmd = strtok (line, " ");
      if (cmd == NULL) { printf ("\n"); continue; }
      a1 = strtok (NULL, " ");
      if (a1 == NULL) a1 = "-";
      if (!strcmp (cmd, "iface")) do_name (a1, _dbus_validate_interface, dbus_validate_interface);
      else if (!strcmp (cmd, "errname")) do_name (a1, _dbus_validate_error_name, dbus_validate_error_name);
      else if (!strcmp (cmd, "member")) do_name (a1, _dbus_validate_member, dbus_validate_member);
      else if (!strcmp (cmd, "path")) do_name (a1, _dbus_validate_path, dbus_validate_path);
      else if (!strcmp (cmd, "busname")) do_name (a1, _dbus_validate_bus_name, dbus_validate_bus_name);
      else if (!strcmp (cmd, "utf8")) do_utf8 (a1);
      else if (!strcmp (cmd, "sig")) do_sig (a1);
      else printf ("?unknown-command\n");
    }
  free (line);
  fflush (stdout);
  return 0;
}
