/* C10 harness for the watch/poll part of the main loop (dbus/dbus-mainloop.c: refresh_watches_for_fd,
 * _dbus_loop_iterate; dbus-pollable-set-*.c), run against coq/Robust/Watch.v.
 *
 * in : watch <ready> <w>...        ready: 2 = idle socket (writable), 3 = a byte to read, 11 = peer has closed
 *                                  w = e<0|1>o<0|1>f<flags>   enabled, oom-last-time, DBUS_WATCH_READABLE(1)|WRITABLE(2)
 * out: woke=<a>,<b> handled=<x>,<y>   for two consecutive blocking iterations: did the descriptor end it early, how many handlers ran
 */
#include "common.h"
#include <dbus/dbus-mainloop.h>
#include <dbus/dbus-watch.h>
#include <dbus/dbus-timeout.h>
#include <dbus/dbus-sysdeps.h>
#include <sys/socket.h>
#include <time.h>
#include <unistd.h>

static int n_handled;
static dbus_bool_t on_watch (DBusWatch *w, unsigned int cond, void *data) { (void) w; (void) cond; (void) data; n_handled++; return TRUE; }
static dbus_bool_t on_timeout (void *data) { (void) data; return TRUE; }

static double now_ms (void) { struct timespec ts; clock_gettime (CLOCK_MONOTONIC, &ts); return ts.tv_sec * 1000.0 + ts.tv_nsec / 1e6; }

#define WAIT_MS 120

static void do_watch (char *args)
{
  int sv[2], ready, nw = 0, i;
  DBusLoop *loop;
  DBusWatch *ws[8];
  DBusTimeout *t;
  DBusSocket s;
  char *tok = strtok (args, " ");
  double t0, dt;

  ready = atoi (tok);
  if (socketpair (AF_UNIX, SOCK_STREAM, 0, sv) != 0) { puts ("?socketpair"); return; }
  loop = _dbus_loop_new ();
  s.fd = sv[0];
  while ((tok = strtok (NULL, " ")) != NULL && nw < 8)
    {
      int e = tok[1] - '0', o = tok[3] - '0', f = atoi (tok + 5);
      ws[nw] = _dbus_watch_new (_dbus_socket_get_pollable (s), (unsigned int) f, e, on_watch, NULL, NULL);
      if (o) _dbus_watch_set_oom_last_time (ws[nw], TRUE);
      _dbus_loop_add_watch (loop, ws[nw]);        /* runs refresh_watches_for_fd */
      nw++;
    }
  t = _dbus_timeout_new (WAIT_MS, on_timeout, NULL, NULL);
  _dbus_loop_add_timeout (loop, t);
  if (ready & 1) { if (write (sv[1], "x", 1) != 1) puts ("?write"); }
  if (ready & 8) close (sv[1]);
  {
    int woke[2], hd[2], k;
    for (k = 0; k < 2; k++)
      {
        n_handled = 0;
        t0 = now_ms ();
        _dbus_loop_iterate (loop, TRUE);
        dt = now_ms () - t0;
        woke[k] = dt < WAIT_MS / 2.0 ? 1 : 0;
        hd[k] = n_handled;
      }
    printf ("woke=%d,%d handled=%d,%d\n", woke[0], woke[1], hd[0], hd[1]);
  }
  _dbus_loop_remove_timeout (loop, t);
  _dbus_timeout_unref (t);
  for (i = 0; i < nw; i++) { _dbus_loop_remove_watch (loop, ws[i]); _dbus_watch_invalidate (ws[i]); _dbus_watch_unref (ws[i]); }
  _dbus_loop_unref (loop);
  close (sv[0]);
  if (!(ready & 8)) close (sv[1]);
}

int main (void)
{
  char line[4096];
  while (fgets (line, sizeof line, stdin))
    {
      line[strcspn (line, "\n")] = 0;
      if (strncmp (line, "watch ", 6) == 0) do_watch (line + 6);
      else puts ("?unknown-command");
      fflush (stdout);
    }
  return 0;
}
