/* Implementation side of the expiry-machinery correspondence (package routing, C09).
 *
 * bus/expirelist.c and dbus/dbus-mainloop.c of the tree under test are compiled INTO this translation unit (textual
 * include), with the clock they read (_dbus_get_monotonic_time) replaced by a scripted one, so that
 * do_expiration_with_monotonic_time, bus_expirelist_expire, bus_expire_timeout_set_interval, bus_expire_list_add/remove,
 * bus_expire_list_recheck_immediately, check_timeout and the two timeout passes of _dbus_loop_iterate run exactly as in the
 * daemon, on explicit times.
 *
 * stdin:  exp <expire_after ms> <op>*      ops:  A.<id>.<sec>.<usec>   add item, added = (sec, usec)
 *                                                R.<id>                remove
 *                                                K.<id>                added := (0,0) + recheck_immediately (callee left)
 *                                                I.<s1>.<u1>.<s2>.<u2>.<s3>.<u3>   one loop iteration; the clock reads t1
 *                                                                      (pass before poll), t2 (pass after poll), t3 (handler)
 * stdout: one token per op:  <expired ids, comma separated | ->/<enabled><needs_restart>/<interval>/<last sec>.<last usec>/<#items>
 */
#include "common.h"
#include <dbus/dbus-sysdeps.h>

static long fake_times[3][2];
static int fake_reads;

void fake_monotonic_time (long *tv_sec, long *tv_usec);
void
fake_monotonic_time (long *tv_sec, long *tv_usec)
{
  int i = fake_reads < 3 ? fake_reads : 2;
  *tv_sec = fake_times[i][0];
  *tv_usec = fake_times[i][1];
  fake_reads++;
}

#define _dbus_get_monotonic_time fake_monotonic_time
#include "dbus/dbus-mainloop.c"
#include "bus/expirelist.c"
#undef _dbus_get_monotonic_time

#define MAXI 256
typedef struct { BusExpireItem item; long id; int in_list; } It;
static It items[MAXI];
static int n_items;
static char exbuf[8192];

static dbus_bool_t
on_expire (BusExpireList *list, DBusList *link, void *data)
{
  It *t = (It *) link->data;
  char b[32];
  (void) data;
  snprintf (b, sizeof b, "%s%ld", exbuf[0] ? "," : "", t->id);
  strcat (exbuf, b);
  bus_expire_list_remove_link (list, link);        /* as bus_pending_reply_expired does */
  t->in_list = 0;
  return TRUE;
}

static It *find (long id) { int i; for (i = 0; i < n_items; i++) if (items[i].id == id && items[i].in_list) return &items[i]; return NULL; }

static void
report (DBusLoop *loop, BusExpireList *list)
{
  TimeoutCallback *tcb = loop->timeouts ? (TimeoutCallback *) loop->timeouts->data : NULL;
  printf ("%s/%d%d/%d/%ld.%ld/%d", exbuf[0] ? exbuf : "-", dbus_timeout_get_enabled (list->timeout) ? 1 : 0,
          _dbus_timeout_needs_restart (list->timeout) ? 1 : 0, dbus_timeout_get_interval (list->timeout),
          tcb ? tcb->last_tv_sec : -1L, tcb ? tcb->last_tv_usec : -1L, _dbus_list_get_length (&list->items));
}

int
main (void)
{
  static char line[1 << 16];
  while (fgets (line, sizeof line, stdin))
    {
      char *tok = strtok (line, " \n");
      DBusLoop *loop; BusExpireList *list; int first = 1, i;
      if (!tok) { puts (""); continue; }
      if (strcmp (tok, "exp") != 0) { puts ("?unknown-command"); fflush (stdout); continue; }
      tok = strtok (NULL, " \n");
      memset (fake_times, 0, sizeof fake_times); fake_reads = 0; n_items = 0;
      loop = _dbus_loop_new ();
      list = bus_expire_list_new (loop, atoi (tok), on_expire, NULL);
      if (!loop || !list) { puts ("?oom"); fflush (stdout); continue; }
      while ((tok = strtok (NULL, " \n")) != NULL)
        {
          long a[6] = {0, 0, 0, 0, 0, 0};
          exbuf[0] = 0;
          if (!first) putchar (' ');
          first = 0;
          if (tok[0] == 'A' && sscanf (tok, "A.%ld.%ld.%ld", &a[0], &a[1], &a[2]) == 3 && n_items < MAXI)
            {
              It *t = &items[n_items++];
              memset (t, 0, sizeof *t);
              t->id = a[0]; t->in_list = 1;
              if (!bus_expire_list_add (list, &t->item)) { fputs ("?oom", stdout); continue; }
              t->item.added_tv_sec = a[1];          /* bus_connections_expect_reply stamps the item after adding it */
              t->item.added_tv_usec = a[2];
            }
          else if (tok[0] == 'R' && sscanf (tok, "R.%ld", &a[0]) == 1)
            {
              It *t = find (a[0]);
              if (t) { bus_expire_list_remove (list, &t->item); t->in_list = 0; }
            }
          else if (tok[0] == 'K' && sscanf (tok, "K.%ld", &a[0]) == 1)
            {
              It *t = find (a[0]);
              if (t) { t->item.added_tv_sec = 0; t->item.added_tv_usec = 0; }
              bus_expire_list_recheck_immediately (list);
            }
          else if (tok[0] == 'I' && sscanf (tok, "I.%ld.%ld.%ld.%ld.%ld.%ld", &a[0], &a[1], &a[2], &a[3], &a[4], &a[5]) == 6)
            {
              for (i = 0; i < 3; i++) { fake_times[i][0] = a[2 * i]; fake_times[i][1] = a[2 * i + 1]; }
              fake_reads = 0;
              _dbus_loop_iterate (loop, FALSE);
            }
          else
            { fputs ("?bad-op", stdout); continue; }
          report (loop, list);
        }
      putchar ('\n');
      fflush (stdout);
      for (i = 0; i < n_items; i++)
        if (items[i].in_list) bus_expire_list_remove (list, &items[i].item);
      bus_expire_list_free (list);
      _dbus_loop_unref (loop);
    }
  return 0;
}
