/* C14 harness: an in-process bus (BusContext created from a generated
   configuration file, clients attached over "debug-pipe:" transports, exactly
   as bus/dispatch.c's embedded tests do) driven under the allocation-failure
   injector of dbus/dbus-memory.c, plus a library leg (message build / copy /
   header edit / match-rule parse / config load under injection).

   One case per input line, one result line per case.

   bus <mode> <maxnames>,<maxrules>,<maxreplies> <probe>[,<probe>...] <op> ... -- <op>
       history ops (injection off), then "--", then the operation under test.
       Every failing index k gets its own bus + history (a forked child per
       case streams the outcomes; if the bus dies - assertion, sanitizer report -
       that is the outcome of this k and the next child continues with k+1).
       mode: fresh          the k-th allocation fails (_dbus_set_fail_alloc_counter (k)), k = 0, 1, ...
                            until the request is handled without any failure
             pair:<g>,<g>.. two allocations fail: number k and number k+g, for every gap g given
                            (decided by the interposed _dbus_decrement_fail_alloc_counter below)
       probe: hex(member) of a signal v.P.<member> the control client c0 emits to
              observe the effect of the match rules ("-" for none)
       ops:   C                      connect a new client (index = order of C ops)
              H<i>                   Hello
              R<i>,<hexname>,<flags> RequestName
              L<i>,<hexname>         ReleaseName
              A<i>,<hexrule>         AddMatch        D<i>,<hexrule>  RemoveMatch
              M<i>,<dest>,<tag>      method call v.T.Call(uint32 tag) to <dest> = :<j> | <hexname>, NO_AUTO_START
              Y<i>,:<j>,<tag>        method return to client j for call <tag>
              E<i>,:<j>,<tag>        error reply (v.T.Err) likewise
              S<i>,<hexmember>       broadcast signal v.P.<member>
              X<i>                   close client i
   lib <what> <args>                 library leg, see lib_case ()

   Result of a bus case:
     base=<snapshot> ## <n>*<outcome> ## ... ## end k=<indices tried> crashes=<n> allocs=<allocations of the unfailed request>
   consecutive identical outcomes are merged (n = how many k).  An outcome is
     f<0|1>|A[<messages per client>]|S[<snapshot>]|R[<messages of the retry>]|S2[<snapshot>]|P[<pending-reply probes>]|leak=<blocks outstanding after teardown + dbus_shutdown>
     f1|CRASH[<exit/signal>:<summary line of the sanitizer / assertion>]
   (f = whether a failure was injected; the retry is made iff the requester got NoMemory).
   Unique names are printed as client indices (c<i>), "u?" if unknown. */
#include "common.h"
#include <stdarg.h>
#include <unistd.h>
#include <signal.h>
#include <limits.h>
#include <fcntl.h>
#include <sys/wait.h>
#include <sanitizer/lsan_interface.h>
#include <dbus/dbus-list.h>
#include <dbus/dbus-hash.h>
#include <dbus/dbus-mainloop.h>
#include <dbus/dbus-message-internal.h>
#define DBUS_CAN_USE_DBUS_STRING_PRIVATE 1   /* the DBusString leg reads real->len and real->allocated */
#include <dbus/dbus-string-private.h>
#include "bus.h"
#include "connection.h"
#include "services.h"
#include "signals.h"
#include "driver.h"
#include "test.h"
#include "config-parser.h"
#include "utils.h"

/* ---- the two private structures we peek at (bus/services.c).  Every use is
   cross-checked against the public accessors (see snap_names). ---- */
struct PeekService { int refcount; BusRegistry *registry; char *name; DBusList *owners; };
struct PeekOwner { int refcount; BusService *service; DBusConnection *conn; unsigned int allow_replacement : 1; unsigned int do_not_queue : 1; };

#define MAXC 12
#define MAXNAMES 16
#define MAXCALLS 64
#define BUFSZ (1 << 16)

typedef struct { char *b; size_t n, cap; } Buf;
static void bput (Buf *o, const char *fmt, ...)
{
  va_list ap; int n;
  if (o->cap - o->n < 2048)
    { o->cap = o->cap * 2 + 4096; o->b = realloc (o->b, o->cap); }
  va_start (ap, fmt);
  n = vsnprintf (o->b + o->n, o->cap - o->n, fmt, ap);
  va_end (ap);
  if (n > 0) { if ((size_t) n >= o->cap - o->n) n = (int) (o->cap - o->n - 1); o->n += (size_t) n; }
}
static void breset (Buf *o) { o->n = 0; if (o->b) o->b[0] = 0; else { o->cap = 4096; o->b = malloc (o->cap); o->b[0] = 0; } }

static char pipe_name[64];
static char cfg_path[128];

typedef struct
{
  DBusConnection *conn;      /* client side */
  DBusConnection *sconn;     /* server side, known once Hello succeeded */
  char uname[64];            /* unique name from the Hello reply */
  int open;
} Client;

static BusContext *ctx;
static Client cl[MAXC];
static int ncl;
static char *names[MAXNAMES];
static int nnames;
typedef struct { int tag; int caller; dbus_uint32_t serial; } Call;
static Call calls[MAXCALLS];
static int ncalls;
static char *probes[8];
static int nprobes;
static dbus_uint32_t cur_serial;  /* serial of the request under test (attempt or retry) */

/* ---- the injector's decision function, interposed -------------------------------
   dbus_malloc & co. (and the memory pools) ask _dbus_decrement_fail_alloc_counter ()
   whether this allocation is to fail.  The definition below preempts the one in
   libdbus-1.so; by default it just counts and delegates to the original, so the
   single-failure runs go through _dbus_set_fail_alloc_counter () exactly as the
   embedded tests do.  In "pair" mode it decides itself: allocations number
   fail_a and fail_b (counted from the moment of arming) fail. */
#include <dlfcn.h>
static dbus_bool_t (*orig_decrement) (void);
static long alloc_seen;          /* allocations since arming */
static int own_mode;             /* 1: decide here */
static long fail_a = -1, fail_b = -1;
static int own_failed;
dbus_bool_t _dbus_decrement_fail_alloc_counter (void)
{
  long i = alloc_seen++;
  if (own_mode)
    {
      if (i == fail_a || i == fail_b) { own_failed++; return TRUE; }
      return FALSE;
    }
  if (!orig_decrement)
    {
      orig_decrement = (dbus_bool_t (*) (void)) dlsym (RTLD_NEXT, "_dbus_decrement_fail_alloc_counter");
      if (!orig_decrement) { fprintf (stderr, "oom_h: cannot find the injector\n"); _exit (3); }
    }
  return orig_decrement ();
}

static void die (const char *m) { fprintf (stderr, "oom_h: %s\n", m); fflush (stderr); _exit (3); }

static int max_conns_per_user = 256;
static void write_cfg (int maxnames, int maxrules, int maxreplies)
{
  FILE *f = fopen (cfg_path, "w");
  if (!f) die ("cannot write config");
  fprintf (f, "<!DOCTYPE busconfig PUBLIC \"-//freedesktop//DTD D-BUS Bus Configuration 1.0//EN\" \"http://www.freedesktop.org/standards/dbus/1.0/busconfig.dtd\">\n"
           "<busconfig>\n <listen>debug-pipe:name=%s</listen>\n"
           " <policy context=\"default\">\n  <allow send_destination=\"*\"/>\n  <allow receive_sender=\"*\"/>\n  <allow own=\"*\"/>\n  <allow user=\"*\"/>\n </policy>\n"
           " <limit name=\"max_names_per_connection\">%d</limit>\n"
           " <limit name=\"max_match_rules_per_connection\">%d</limit>\n"
           " <limit name=\"max_replies_per_connection\">%d</limit>\n"
           " <limit name=\"max_connections_per_user\">%d</limit>\n"
           "</busconfig>\n", pipe_name, maxnames, maxrules, maxreplies, max_conns_per_user);
  fclose (f);
}

static int n_listed;         /* clients still in bus/test.c's list (its client loop exists iff > 0) */
static void settle (void)
{
  /* bus_test_run_everything spins forever once the last debug client is gone */
  if (n_listed > 0) bus_test_run_everything (ctx);
  else while (_dbus_loop_iterate (bus_context_get_loop (ctx), FALSE)) ;
}

static void bus_up (void)
{
  DBusString s; DBusError e = DBUS_ERROR_INIT;
  _dbus_string_init_const (&s, cfg_path);
  ctx = bus_context_new (&s, BUS_CONTEXT_FLAG_NONE, NULL, NULL, NULL, &e);
  if (!ctx) { fprintf (stderr, "bus_context_new: %s\n", e.message ? e.message : "?"); die ("no context"); }
  ncl = 0; ncalls = 0;
  memset (cl, 0, sizeof cl);
}

static void client_close (int i)
{
  DBusConnection *c = cl[i].conn;
  if (!cl[i].open) return;
  cl[i].open = 0;
  dbus_connection_ref (c);
  dbus_connection_close (c);
  settle ();
  while (dbus_connection_dispatch (c) == DBUS_DISPATCH_DATA_REMAINS) ;   /* runs test.c's disconnect filter (drops its ref) */
  if (!bus_test_client_listed (c)) n_listed--; else die ("client still listed after close");
  dbus_connection_unref (c);
  settle ();
}

static void bus_down (void)
{
  int i;
  for (i = 0; i < ncl; i++) client_close (i);
  settle ();
  bus_context_shutdown (ctx);
  bus_context_unref (ctx);
  ctx = NULL;
}

static int client_of_sconn (DBusConnection *s)
{
  int i;
  for (i = 0; i < ncl; i++) if (cl[i].sconn == s && s != NULL) return i;
  return -1;
}

static int client_of_uname (const char *u)
{
  int i;
  for (i = 0; i < ncl; i++) if (cl[i].uname[0] && strcmp (cl[i].uname, u) == 0) return i;
  return -1;
}

/* print a string argument: unique names become c<i> / u?, the rest hex */
static void put_str (Buf *o, const char *s)
{
  if (s[0] == ':')
    { int i = client_of_uname (s); if (i >= 0) bput (o, "c%d", i); else bput (o, "u?"); }
  else if (s[0] == 0) bput (o, "-");
  else { const char *p; for (p = s; *p; p++) bput (o, "%02x", (unsigned char) *p); }
}

/* canonical form of a received message */
static void put_msg (Buf *o, DBusMessage *m, int receiver)
{
  int t = dbus_message_get_type (m);
  const char *snd = dbus_message_get_sender (m);
  DBusMessageIter it;
  dbus_uint32_t rs = dbus_message_get_reply_serial (m);
  bput (o, "%c", t == DBUS_MESSAGE_TYPE_METHOD_CALL ? 'C' : t == DBUS_MESSAGE_TYPE_METHOD_RETURN ? 'R' : t == DBUS_MESSAGE_TYPE_ERROR ? 'E' : 'S');
  bput (o, "<");
  if (snd == NULL) bput (o, "none"); else if (strcmp (snd, DBUS_SERVICE_DBUS) == 0) bput (o, "bus"); else put_str (o, snd);
  bput (o, ">");
  if (t == DBUS_MESSAGE_TYPE_ERROR) bput (o, "%s", dbus_message_get_error_name (m));
  else if (t != DBUS_MESSAGE_TYPE_METHOD_RETURN) bput (o, "%s.%s", dbus_message_get_interface (m) ? dbus_message_get_interface (m) : "", dbus_message_get_member (m));
  if (rs != 0)
    {
      int j, found = 0;
      if (rs == cur_serial && snd != NULL && strcmp (snd, DBUS_SERVICE_DBUS) == 0) { bput (o, "@req"); found = 1; }
      /* serials are per connection: a reply answers a call of the connection that receives it */
      for (j = ncalls - 1; j >= 0 && !found; j--) if (calls[j].serial == rs && calls[j].caller == receiver) { bput (o, "@t%d", calls[j].tag); found = 1; }
      if (!found) bput (o, "@?");
    }
  bput (o, "(");
  if (dbus_message_iter_init (m, &it))
    {
      int first = 1;
      do
        {
          int at = dbus_message_iter_get_arg_type (&it);
          if (!first) bput (o, ",");
          first = 0;
          if (at == DBUS_TYPE_STRING) { const char *s; dbus_message_iter_get_basic (&it, &s); if (t == DBUS_MESSAGE_TYPE_ERROR) bput (o, "_"); else put_str (o, s); }
          else if (at == DBUS_TYPE_UINT32) { dbus_uint32_t u; dbus_message_iter_get_basic (&it, &u); bput (o, "%u", u); }
          else bput (o, "?%c", at);
        }
      while (dbus_message_iter_next (&it));
    }
  bput (o, ")");
}

/* drain what every client has received: "c<i>:msg+msg;c<j>:..." */
static void drain (Buf *o)
{
  int i, any = 0;
  settle ();
  for (i = 0; i < ncl; i++)
    {
      DBusMessage *m; int first = 1;
      if (!cl[i].open) continue;
      while ((m = dbus_connection_pop_message (cl[i].conn)) != NULL)
        {
          if (dbus_message_is_signal (m, DBUS_INTERFACE_LOCAL, "Disconnected")) { bput (o, "%sc%d:DISCONNECTED", any ? ";" : "", i); any = 1; first = 0; dbus_message_unref (m); continue; }
          if (first) { bput (o, "%sc%d:", any ? ";" : "", i); any = 1; first = 0; } else bput (o, "+");
          put_msg (o, m, i);
          dbus_message_unref (m);
        }
    }
}

static void discard (void) { static Buf t; breset (&t); drain (&t); }

static dbus_uint32_t send_msg (int i, DBusMessage *m)
{
  dbus_uint32_t serial = 0;
  if (!dbus_connection_send (cl[i].conn, m, &serial)) die ("send: oom");
  dbus_message_unref (m);
  bus_test_run_clients_loop (FALSE);     /* push it onto the pipe; the bus has not looked at it yet */
  return serial;
}

static DBusMessage *driver_call (const char *member)
{
  DBusMessage *m = dbus_message_new_method_call (DBUS_SERVICE_DBUS, DBUS_PATH_DBUS, DBUS_INTERFACE_DBUS, member);
  if (!m) die ("oom building");
  return m;
}

static const char *dest_of (const char *d, char **tofree)
{
  *tofree = NULL;
  if (d[0] == ':') { int j = atoi (d + 1); if (j < 0 || j >= ncl) die ("bad dest"); return cl[j].uname[0] ? cl[j].uname : ":0.0"; }
  else { int n; *tofree = (char *) unhex (d, &n); return *tofree; }
}

static void remember_name (const char *hex)
{
  int i, n; char *s = (char *) unhex (hex, &n);
  for (i = 0; i < nnames; i++) if (strcmp (names[i], s) == 0) { free (s); return; }
  if (nnames < MAXNAMES) names[nnames++] = s; else free (s);
}

/* put one request on the wire (injection must be off); returns its serial.
   Does NOT let the bus run. */
static dbus_uint32_t issue (const char *op)
{
  char kind = op[0];
  char buf[4096];
  char *f[4] = { NULL, NULL, NULL, NULL };
  int nf = 0, i, n;
  char *p;
  DBusMessage *m = NULL;
  strncpy (buf, op + 1, sizeof buf - 1); buf[sizeof buf - 1] = 0;
  for (p = strtok (buf, ","); p && nf < 4; p = strtok (NULL, ",")) f[nf++] = p;
  if (kind == 'C')
    {
      DBusError e = DBUS_ERROR_INIT; char addr[96];
      if (ncl >= MAXC) die ("too many clients");
      snprintf (addr, sizeof addr, "debug-pipe:name=%s", pipe_name);
      cl[ncl].conn = dbus_connection_open_private (addr, &e);
      if (!cl[ncl].conn) die ("cannot open debug pipe");
      if (!bus_setup_debug_client (cl[ncl].conn)) die ("setup client");
      cl[ncl].open = 1; cl[ncl].uname[0] = 0; cl[ncl].sconn = NULL;
      ncl++; n_listed++;
      return 0;
    }
  if (nf < 1) die ("bad op");
  i = atoi (f[0]);
  if (i < 0 || i >= ncl) die ("bad client index");
  if (kind == 'X') { client_close (i); return 0; }
  if (!cl[i].open) return 0;
  switch (kind)
    {
    case 'H': m = driver_call ("Hello"); break;
    case 'R': { char *s = (char *) unhex (f[1], &n); dbus_uint32_t fl = (dbus_uint32_t) strtoul (f[2], NULL, 10);
        m = driver_call ("RequestName"); dbus_message_append_args (m, DBUS_TYPE_STRING, &s, DBUS_TYPE_UINT32, &fl, DBUS_TYPE_INVALID); free (s); break; }
    case 'L': { char *s = (char *) unhex (f[1], &n);
        m = driver_call ("ReleaseName"); dbus_message_append_args (m, DBUS_TYPE_STRING, &s, DBUS_TYPE_INVALID); free (s); break; }
    case 'A': case 'D': { char *s = (char *) unhex (f[1], &n);
        m = driver_call (kind == 'A' ? "AddMatch" : "RemoveMatch"); dbus_message_append_args (m, DBUS_TYPE_STRING, &s, DBUS_TYPE_INVALID); free (s); break; }
    case 'M': { char *tf; const char *d = dest_of (f[1], &tf); dbus_uint32_t tag = (dbus_uint32_t) atoi (f[2]);
        m = dbus_message_new_method_call (d, "/v", "v.T", "Call"); if (!m) die ("oom");
        dbus_message_set_auto_start (m, FALSE);
        dbus_message_append_args (m, DBUS_TYPE_UINT32, &tag, DBUS_TYPE_INVALID); free (tf); break; }
    case 'Y': case 'E': { char *tf; const char *d = dest_of (f[1], &tf); int tag = atoi (f[2]); int j; dbus_uint32_t rs = 0xfffffff0u;
        for (j = ncalls - 1; j >= 0; j--) if (calls[j].tag == tag) { rs = calls[j].serial; break; }
        m = dbus_message_new (kind == 'Y' ? DBUS_MESSAGE_TYPE_METHOD_RETURN : DBUS_MESSAGE_TYPE_ERROR); if (!m) die ("oom");
        dbus_message_set_destination (m, d); dbus_message_set_reply_serial (m, rs); dbus_message_set_no_reply (m, TRUE);
        if (kind == 'E') dbus_message_set_error_name (m, "v.T.Err");
        free (tf); break; }
    case 'S': { char *s = (char *) unhex (f[1], &n);
        m = dbus_message_new_signal ("/v", "v.P", s); if (!m) die ("oom"); free (s); break; }
    default: die ("unknown op");
    }
  {
    dbus_uint32_t serial = send_msg (i, m);
    if (kind == 'M' && ncalls < MAXCALLS) { calls[ncalls].tag = atoi (f[2]); calls[ncalls].caller = i; calls[ncalls].serial = serial; ncalls++; }
    return serial;
  }
}

/* after a Hello went through: learn the unique name and the server-side connection */
static void learn_hello (int i, DBusMessage *reply)
{
  const char *u; DBusString s; BusService *sv;
  if (dbus_message_get_type (reply) != DBUS_MESSAGE_TYPE_METHOD_RETURN) return;
  if (!dbus_message_get_args (reply, NULL, DBUS_TYPE_STRING, &u, DBUS_TYPE_INVALID)) return;
  strncpy (cl[i].uname, u, sizeof cl[i].uname - 1);
  _dbus_string_init_const (&s, cl[i].uname);
  sv = bus_registry_lookup (bus_context_get_registry (ctx), &s);
  if (sv) cl[i].sconn = bus_service_get_primary_owners_connection (sv);
}

/* a history step: issue, let everything run, learn from Hello replies, throw the output away */
static void history_op (const char *op)
{
  dbus_uint32_t serial;
  if (op[0] == 'R' || op[0] == 'L') { char b[1024]; char *q; strncpy (b, op, sizeof b - 1); b[sizeof b - 1] = 0; q = strchr (b, ','); if (q) { char *e = strchr (q + 1, ','); if (e) *e = 0; remember_name (q + 1); } }
  serial = issue (op);
  settle ();
  if (op[0] == 'H')
    {
      int i = atoi (op + 1); DBusMessage *m;
      /* the Hello reply is the first message the client gets */
      m = dbus_connection_borrow_message (cl[i].conn);
      if (m) { if (dbus_message_get_reply_serial (m) == serial) learn_hello (i, m); dbus_connection_return_message (cl[i].conn, m); }
    }
  discard ();
}

/* ---- snapshots ---------------------------------------------------------------- */
static int cmpstr (const void *a, const void *b) { return strcmp (*(char *const *) a, *(char *const *) b); }

static void snap_queue (Buf *o, const char *name)
{
  DBusString s; BusService *sv; struct PeekService *ps; DBusList *l; DBusList *acc = NULL, *al; int first = 1;
  _dbus_string_init_const (&s, name);
  sv = bus_registry_lookup (bus_context_get_registry (ctx), &s);
  if (!sv) { bput (o, "-"); return; }
  ps = (struct PeekService *) sv;
  if (ps->name != bus_service_get_name (sv)) die ("PeekService layout drifted");
  if (!bus_service_list_queued_owners (sv, &acc)) die ("oom listing owners");
  al = _dbus_list_get_first_link (&acc);
  bput (o, "[");
  for (l = _dbus_list_get_first_link (&ps->owners); l != NULL; l = _dbus_list_get_next_link (&ps->owners, l))
    {
      struct PeekOwner *po = l->data; int ci = client_of_sconn (po->conn);
      /* cross-check the peeked structure against the public accessors */
      if (al == NULL || strcmp ((const char *) al->data, bus_connection_get_name (po->conn)) != 0) die ("PeekOwner layout drifted (queue)");
      if (first && ((po->allow_replacement != 0) != (bus_service_get_allow_replacement (sv) != 0) || (BusOwner *) po != bus_service_get_primary_owner (sv))) die ("PeekOwner layout drifted (flags)");
      al = _dbus_list_get_next_link (&acc, al);
      if (!first) bput (o, ",");
      first = 0;
      if (ci >= 0) bput (o, "c%d", ci); else bput (o, "u?");
      bput (o, "%s%s", po->allow_replacement ? "a" : "", po->do_not_queue ? "d" : "");
    }
  if (al != NULL) die ("PeekService layout drifted (length)");
  _dbus_list_clear (&acc);
  bput (o, "]");
}

static void snapshot (Buf *o)
{
  int i, n = 0; char **all = NULL;
  /* 1. the queues of the names of the case and of every client's unique name */
  { int any = 0;
    for (i = 0; i < nnames; i++) { const char *q; bput (o, "%s", any ? ";" : ""); any = 1; if (!names[i][0]) bput (o, "-"); for (q = names[i]; *q; q++) bput (o, "%02x", (unsigned char) *q); bput (o, "="); snap_queue (o, names[i]); }
    for (i = 0; i < ncl; i++) if (cl[i].uname[0]) { bput (o, "%sc%d=", any ? ";" : "", i); any = 1; snap_queue (o, cl[i].uname); } }
  /* 2. ListNames as a sorted set (catches stray services) */
  if (!bus_registry_list_services (bus_context_get_registry (ctx), &all, &n)) die ("oom listing services");
  {
    Buf t = { NULL, 0, 0 }; char **canon = calloc ((size_t) n + 1, sizeof (char *));
    for (i = 0; i < n; i++) { breset (&t); put_str (&t, all[i]); canon[i] = strdup (t.b); }
    qsort (canon, (size_t) n, sizeof (char *), cmpstr);
    bput (o, "|N:");
    for (i = 0; i < n; i++) { bput (o, "%s%s", i ? "," : "", canon[i]); free (canon[i]); }
    free (canon); free (t.b);
  }
  dbus_free_string_array (all);
  /* 3. per connection counters */
  bput (o, "|K:");
  for (i = 0; i < ncl; i++)
    {
      if (!cl[i].open) { bput (o, "%sc%d:closed", i ? "," : "", i); continue; }
      if (!cl[i].sconn) { bput (o, "%sc%d:unreg", i ? "," : "", i); continue; }
      bput (o, "%sc%d:%d/%d/%d", i ? "," : "", i, bus_connection_is_active (cl[i].sconn) ? 1 : 0,
            bus_connection_get_n_services_owned (cl[i].sconn), bus_connection_get_n_match_rules (cl[i].sconn));
    }
  /* 4. the effect of the match rules: c0 emits each probe signal, who gets it? */
  if (nprobes > 0 && ncl > 0 && cl[0].open && cl[0].uname[0])
    {
      bput (o, "|M:");
      for (i = 0; i < nprobes; i++)
        {
          DBusMessage *m = dbus_message_new_signal ("/v", "v.P", probes[i]); int j, first = 1;
          if (!m) die ("oom");
          send_msg (0, m);
          settle ();
          bput (o, "%s", i ? ";" : "");
          for (j = 0; j < ncl; j++)
            {
              DBusMessage *r; int cnt = 0, other = 0;
              if (!cl[j].open) continue;
              while ((r = dbus_connection_pop_message (cl[j].conn)) != NULL)
                { if (dbus_message_is_signal (r, "v.P", probes[i])) cnt++; else other++; dbus_message_unref (r); }
              if (cnt || other) { bput (o, "%sc%d*%d", first ? "" : ",", j, cnt); if (other) bput (o, "!%d", other); first = 0; }
            }
        }
    }
}

/* destructive: for every remembered call, every other registered client tries to answer it */
static void probe_pending (Buf *o)
{
  int k, j, first = 1;
  for (k = 0; k < ncalls; k++)
    for (j = 0; j < ncl; j++)
      {
        DBusMessage *m, *r; int caller = calls[k].caller; int got = 0, denied = 0;
        if (j == caller || !cl[j].open || !cl[j].uname[0] || !cl[caller].open || !cl[caller].uname[0]) continue;
        m = dbus_message_new (DBUS_MESSAGE_TYPE_METHOD_RETURN); if (!m) die ("oom");
        dbus_message_set_destination (m, cl[caller].uname); dbus_message_set_reply_serial (m, calls[k].serial); dbus_message_set_no_reply (m, TRUE);
        send_msg (j, m);
        settle ();
        while ((r = dbus_connection_pop_message (cl[caller].conn)) != NULL) { if (dbus_message_get_reply_serial (r) == calls[k].serial) got++; dbus_message_unref (r); }
        while ((r = dbus_connection_pop_message (cl[j].conn)) != NULL) { if (dbus_message_get_type (r) == DBUS_MESSAGE_TYPE_ERROR) denied++; dbus_message_unref (r); }
        if (got) { bput (o, "%st%d#%d:c%d>c%d", first ? "" : ",", calls[k].tag, k, j, caller); first = 0; }
        (void) denied;
      }
}

/* ---- one attempt under injection -------------------------------------------------- */
/* returns 1 if an allocation was made to fail; *nalloc = allocations the bus made while handling the request */
static int attempt (const char *op, int k, int second, Buf *o, long *nalloc)
{
  int failed, c;
  cur_serial = issue (op);
  if (second > 0)
    {
      own_failed = 0; fail_a = k; fail_b = (long) k + second; alloc_seen = 0; own_mode = 1;
      bus_test_run_bus_loop (ctx, FALSE);
      own_mode = 0;
      failed = own_failed > 0;
      *nalloc = alloc_seen;
    }
  else
    {
      alloc_seen = 0;
      _dbus_set_fail_alloc_counter (k);
      bus_test_run_bus_loop (ctx, FALSE);
      c = _dbus_get_fail_alloc_counter ();
      failed = c > k;
      *nalloc = alloc_seen;
      _dbus_set_fail_alloc_counter (_DBUS_INT_MAX);
    }
  settle ();
  if (op[0] == 'H')
    {
      int i = atoi (op + 1); DBusMessage *m = dbus_connection_borrow_message (cl[i].conn);
      if (m) { if (dbus_message_get_reply_serial (m) == cur_serial) learn_hello (i, m); dbus_connection_return_message (cl[i].conn, m); }
    }
  drain (o);
  return failed;
}

static int requester_got_oom (const char *outs, const char *op)
{
  char pat[64];
  if (op[0] == 'C' || op[0] == 'X') return 0;
  snprintf (pat, sizeof pat, "E<bus>%s@req", DBUS_ERROR_NO_MEMORY);
  return strstr (outs, pat) != NULL;
}

static void run_history (char **ops, int nops)
{
  int i;
  bus_up ();
  for (i = 0; i < nops; i++) history_op (ops[i]);
}

/* the child: runs k = start_k, start_k+1, ... each on its own bus; one line "K <k> <failed> <outcome>" per k on [out] */
static int leaked_so_far;
static void child_run (char **ops, int nops, const char *testop, int start_k, int d, int want_base, FILE *out)
{
  Buf cur = { NULL, 0, 0 }, a = { NULL, 0, 0 }, tmp = { NULL, 0, 0 };
  int k;
  breset (&cur); breset (&a); breset (&tmp);
  for (k = start_k; k < 6000; k++)
    {
      int failed, oom, leak; long nalloc = 0;
      fprintf (out, "B %d\n", k); fflush (out);            /* so the parent knows which k was in progress */
      run_history (ops, nops);
      if (want_base) { breset (&tmp); snapshot (&tmp); fprintf (out, "S %s\n", tmp.b); want_base = 0; }
      breset (&cur); breset (&a);
      failed = attempt (testop, k, d, &a, &nalloc);
      oom = requester_got_oom (a.b, testop);
      bput (&cur, "A[%s]|S[", a.b);
      breset (&tmp); snapshot (&tmp); bput (&cur, "%s]", tmp.b);
      if (failed && oom)
        {
          breset (&a);
          cur_serial = issue (testop);
          settle ();
          if (testop[0] == 'H') { int ci = atoi (testop + 1); DBusMessage *m = dbus_connection_borrow_message (cl[ci].conn); if (m) { if (dbus_message_get_reply_serial (m) == cur_serial) learn_hello (ci, m); dbus_connection_return_message (cl[ci].conn, m); } }
          drain (&a);
          bput (&cur, "|R[%s]|S2[", a.b);
          breset (&tmp); snapshot (&tmp); bput (&cur, "%s]", tmp.b);
        }
      else bput (&cur, "|R[]|S2[]");
      bput (&cur, "|P[");
      probe_pending (&cur);
      bput (&cur, "]");
      bus_down ();
      dbus_shutdown ();
      /* blocks this k left behind (what earlier k of this child leaked is not charged again) */
      leak = _dbus_get_malloc_blocks_outstanding () - leaked_so_far;
      leaked_so_far += leak;
      bput (&cur, "|leak=%d", leak);
      fprintf (out, "K %d %d %s\n", k, failed, cur.b); fflush (out);
      if (!failed) { fprintf (out, "N %ld\n", nalloc); fflush (out); break; }
    }
  fprintf (out, "E\n"); fflush (out);
  free (cur.b); free (a.b); free (tmp.b);
}

static void crash_summary (const char *path, Buf *o)
{
  FILE *f = fopen (path, "r"); static char l[2048]; int got = 0;
  if (!f) { bput (o, "no-stderr"); return; }
  while (fgets (l, sizeof l, f))
    {
      char *p = NULL;
      if ((p = strstr (l, "SUMMARY: "))) p += 9;
      else if ((p = strstr (l, "runtime error:"))) ;
      else if ((p = strstr (l, "assertion failed"))) ;
      else if ((p = strstr (l, "not reached"))) ;
      else if ((p = strstr (l, "oom_h: "))) ;
      if (p && !got)
        { size_t n = strlen (p); while (n && (p[n - 1] == '\n' || p[n - 1] == ' ')) p[--n] = 0; { char *q; for (q = p; *q; q++) if (*q == ' ' || *q == '#' || *q == '|') *q = '_'; } bput (o, "%.300s", p); got = 1; }
    }
  fclose (f);
  if (!got) bput (o, "unknown");
}

static void bus_case (char **tok, int ntok, Buf *res)
{
  const char *mode = tok[1];
  int lim[3] = { 512, 512, 128 };
  char **ops; int nops = 0, i, sep = -1;
  const char *testop;
  Buf prev = { NULL, 0, 0 }, cur = { NULL, 0, 0 };
  int run = 0, pairmode = strncmp (mode, "pair", 4) == 0;
  int d, di, crashes = 0, total_k = 0;
  int gaps[8], ngaps = 0;
  long unfailed_allocs = -1;
  int lsan_hits = 0;
  char errpath[128];
  max_conns_per_user = 256;
  sscanf (tok[2], "%d,%d,%d,%d", &lim[0], &lim[1], &lim[2], &max_conns_per_user);
  write_cfg (lim[0], lim[1], lim[2]);
  nprobes = 0; nnames = 0;
  if (strcmp (tok[3], "-") != 0)
    { char *p; for (p = strtok (tok[3], ","); p && nprobes < 8; p = strtok (NULL, ",")) { int n; probes[nprobes++] = (char *) unhex (p, &n); } }
  for (i = 4; i < ntok; i++) if (strcmp (tok[i], "--") == 0) { sep = i; break; }
  if (sep < 0 || sep + 1 >= ntok) die ("no -- <op>");
  ops = tok + 4; nops = sep - 4; testop = tok[sep + 1];
  for (i = 4; i < ntok; i++) if (tok[i][0] == 'R' || tok[i][0] == 'L') { char b[1024]; char *q; strncpy (b, tok[i], sizeof b - 1); b[sizeof b - 1] = 0; q = strchr (b, ','); if (q) { char *e = strchr (q + 1, ','); if (e) *e = 0; remember_name (q + 1); } }
  snprintf (errpath, sizeof errpath, "/tmp/oom_h_%d.err", (int) getpid ());
  breset (&prev); breset (&cur);
  if (pairmode)
    {
      const char *g = strchr (mode, ':');
      if (g) { char gb[128]; char *q; strncpy (gb, g + 1, sizeof gb - 1); gb[sizeof gb - 1] = 0; for (q = strtok (gb, ","); q && ngaps < 8; q = strtok (NULL, ",")) gaps[ngaps++] = atoi (q); }
      if (ngaps == 0) { gaps[0] = 1; gaps[1] = 2; gaps[2] = 3; ngaps = 3; }
    }
  else { gaps[0] = 0; ngaps = 1; }
  for (di = 0; di < ngaps; di++)
    {
      int start_k = 0, done = 0, want_base = (di == 0);
      d = gaps[di];
      if (pairmode) { if (run > 0) bput (res, " ## %d*%s", run, prev.b); run = 0; breset (&prev); bput (res, " ## d=%d", d); }
      while (!done)
        {
          int pfd[2]; pid_t pid; FILE *in; static char l[1 << 16]; int in_progress = -1, status, ended = 0;
          if (pipe (pfd) != 0) die ("pipe");
          fflush (stdout);
          pid = fork ();
          if (pid < 0) die ("fork");
          if (pid == 0)
            {
              FILE *out; int efd;
              close (pfd[0]);
              efd = open (errpath, O_WRONLY | O_CREAT | O_TRUNC, 0600);
              if (efd >= 0) { dup2 (efd, 2); close (efd); }
              out = fdopen (pfd[1], "w");
              snprintf (pipe_name, sizeof pipe_name, "oomh-%d", (int) getpid ());
              write_cfg (lim[0], lim[1], lim[2]);
              child_run (ops, nops, testop, start_k, d, want_base, out);
              /* everything this child ever allocated for the buses is unreachable by now: let LeakSanitizer look */
              if (__lsan_do_recoverable_leak_check ()) { fprintf (out, "L\n"); if (getenv ("OOM_H_KEEP_LSAN")) { char cmd[300]; snprintf (cmd, sizeof cmd, "cp %s /tmp/oom_h_lsan.txt", errpath); if (system (cmd)) {} } }
              fflush (out);
              _exit (0);
            }
          close (pfd[1]);
          in = fdopen (pfd[0], "r");
          while (fgets (l, sizeof l, in))
            {
              size_t n = strlen (l); while (n && l[n - 1] == '\n') l[--n] = 0;
              if (l[0] == 'B') in_progress = atoi (l + 2);
              else if (l[0] == 'S') { bput (res, "base=%s", l + 2); want_base = 0; }
              else if (l[0] == 'E') { ended = 1; }
              else if (l[0] == 'L') { lsan_hits++; }
              else if (l[0] == 'N') { unfailed_allocs = atol (l + 2); }
              else if (l[0] == 'K')
                {
                  int k, f; char *o; 
                  k = atoi (l + 2); o = strchr (l + 2, ' '); f = o ? atoi (o + 1) : 0; o = o ? strchr (o + 1, ' ') : NULL;
                  breset (&cur); bput (&cur, "f%d|%s", f, o ? o + 1 : "?");
                  total_k++;
                  if (strcmp (cur.b, prev.b) == 0) run++;
                  else { if (run > 0) bput (res, " ## %d*%s", run, prev.b); breset (&prev); bput (&prev, "%s", cur.b); run = 1; }
                  in_progress = -1;
                  if (!f) done = 1;
                }
            }
          fclose (in);
          waitpid (pid, &status, 0);
          if (!done)
            {
              if (ended) { done = 1; }
              else
                {
                  /* the child died while working on k = in_progress */
                  breset (&cur); bput (&cur, "f1|CRASH[");
                  if (WIFSIGNALED (status)) bput (&cur, "sig%d:", WTERMSIG (status)); else bput (&cur, "exit%d:", WEXITSTATUS (status));
                  crash_summary (errpath, &cur); bput (&cur, "]");
                  total_k++;
                  if (strcmp (cur.b, prev.b) == 0) run++;
                  else { if (run > 0) bput (res, " ## %d*%s", run, prev.b); breset (&prev); bput (&prev, "%s", cur.b); run = 1; }
                  crashes++;
                  if (in_progress < 0 || crashes > 400) { bput (&prev, "<giving-up>"); done = 1; }
                  start_k = in_progress + 1;
                }
            }
        }
    }
  if (run > 0) bput (res, " ## %d*%s", run, prev.b);
  unlink (errpath);
  for (i = 0; i < nprobes; i++) free (probes[i]);
  for (i = 0; i < nnames; i++) free (names[i]);
  nprobes = nnames = 0;
  bput (res, " ## end k=%d crashes=%d allocs=%ld lsan=%d", total_k, crashes, unfailed_allocs, lsan_hits);
  free (cur.b); free (prev.b);
}


/* ---- library leg -------------------------------------------------------------------------------
   lib new <call|signal|ret|err> <hexdest|-> <hexpath> <hexiface> <hexmember>
   lib append <arg> ...      arg: s<hex> | u<n> | y<n> | t<n> | a<hex>:<hex>:... (array of strings, dbus_message_append_args)
   lib copy <arg> ...        a message with these arguments is copied
   lib marshal <arg> ...     ... is serialised with dbus_message_marshal
   lib demarshal <arg> ...   ... its serialisation is parsed with dbus_message_demarshal
   (after every reported failure and its retry: ;probe=same|DIFF - set_member, set_sender, append, marshal on the
    message behave as on a twin that never saw the failure)
   lib set <field> <hexvalue> field: destination sender member interface path error_name | serial <n>
   lib rule <hexrule>        bus_match_rule_parse
   lib config <n>            bus_config_load of built-in configuration number n
   For k = 0, 1, ... the k-th allocation of the operation fails.  Result:
     <n>*<verdict> ## ... with verdict
       ok:<hex of result>          completed; (the last one, f0, is the unfailed reference)
       oom-unchanged               reported failure, the object it worked on is byte-identical, nothing leaked
       BAD:<what>                  anything else */
static char *msg_hex (DBusMessage *m)
{
  char *buf = NULL; int len = 0; char *out; int i;
  if (!dbus_message_marshal (m, &buf, &len)) die ("oom marshalling");
  out = malloc ((size_t) len * 2 + 2);
  for (i = 0; i < len; i++) sprintf (out + 2 * i, "%02x", (unsigned char) buf[i]);
  out[2 * len] = 0;
  dbus_free (buf);
  return out;
}

static DBusMessage *base_message (void)
{
  DBusMessage *m = dbus_message_new_method_call ("v.Dest", "/v/obj", "v.Iface", "Member");
  const char *s = "hello"; dbus_uint32_t u = 7;
  if (!m || !dbus_message_append_args (m, DBUS_TYPE_STRING, &s, DBUS_TYPE_UINT32, &u, DBUS_TYPE_INVALID)) die ("oom base message");
  dbus_message_set_serial (m, 5);
  return m;
}

/* append the arguments tok[0..n) to m; FALSE on allocation failure */
static dbus_bool_t append_args (DBusMessage *m, char **tok, int n)
{
  int i;
  for (i = 0; i < n; i++)
    {
      const char *a = tok[i];
      if (a[0] == 's') { int l; char *v = (char *) unhex (a + 1, &l); dbus_bool_t ok = dbus_message_append_args (m, DBUS_TYPE_STRING, &v, DBUS_TYPE_INVALID); free (v); if (!ok) return FALSE; }
      else if (a[0] == 'u') { dbus_uint32_t v = (dbus_uint32_t) strtoul (a + 1, NULL, 10); if (!dbus_message_append_args (m, DBUS_TYPE_UINT32, &v, DBUS_TYPE_INVALID)) return FALSE; }
      else if (a[0] == 'y') { unsigned char v = (unsigned char) atoi (a + 1); if (!dbus_message_append_args (m, DBUS_TYPE_BYTE, &v, DBUS_TYPE_INVALID)) return FALSE; }
      else if (a[0] == 't') { dbus_uint64_t v = strtoull (a + 1, NULL, 10); if (!dbus_message_append_args (m, DBUS_TYPE_UINT64, &v, DBUS_TYPE_INVALID)) return FALSE; }
      else if (a[0] == 'a')
        {
          char tmp[2048]; char *vals[32]; const char **pv = (const char **) vals; int nv = 0, l; char *q; dbus_bool_t ok; int j;
          strncpy (tmp, a + 1, sizeof tmp - 1); tmp[sizeof tmp - 1] = 0;
          for (q = strtok (tmp, ":"); q && nv < 32; q = strtok (NULL, ":")) vals[nv++] = (char *) unhex (q, &l);
          ok = dbus_message_append_args (m, DBUS_TYPE_ARRAY, DBUS_TYPE_STRING, &pv, nv, DBUS_TYPE_INVALID);
          for (j = 0; j < nv; j++) free (vals[j]);
          if (!ok) return FALSE;
        }
      else die ("bad lib arg");
    }
  return TRUE;
}

static const char *cfg_text (int n)
{
  switch (n)
    {
    case 0: return "<busconfig><listen>debug-pipe:name=x</listen></busconfig>";
    case 1: return "<busconfig><type>session</type><listen>debug-pipe:name=x</listen><policy context=\"default\"><allow send_destination=\"*\" eavesdrop=\"true\"/><allow eavesdrop=\"true\"/><allow own=\"*\"/></policy>"
                   "<limit name=\"max_incoming_bytes\">1000000</limit><limit name=\"max_names_per_connection\">50</limit></busconfig>";
    case 2: return "<busconfig><user>root</user><listen>unix:path=/tmp/x</listen><listen>debug-pipe:name=y</listen><auth>EXTERNAL</auth><servicedir>/tmp/none</servicedir>"
                   "<policy user=\"root\"><allow own=\"a.b\"/><deny send_interface=\"c.d\" send_member=\"E\"/></policy><policy context=\"mandatory\"><deny receive_type=\"signal\" receive_path=\"/x\"/></policy>"
                   "<policy at_console=\"true\"><allow own_prefix=\"q.r\"/></policy><selinux><associate own=\"a.b\" context=\"c\"/></selinux><apparmor mode=\"disabled\"/></busconfig>";
    default: return "<busconfig><listen>debug-pipe:name=x</listen><policy context=\"default\"><allow bogus=\"1\"/></policy></busconfig>";   /* invalid: a parse error, not OOM */
    }
}

static char *last_blob;                       /* hex of what dbus_message_marshal produced */
static unsigned char *demarshal_src; static int demarshal_len;

/* perform the operation once; the message operated on is m (may be NULL), results in *r / *obj */
static dbus_bool_t lib_do (char **tok, int ntok, DBusMessage *m, const char *setval, DBusMessage **r, void **obj, DBusError *err)
{
  const char *op = tok[1]; dbus_bool_t ok = FALSE; int l;
  *r = NULL; *obj = NULL;
  if (strcmp (op, "new") == 0)
    {
      int a; char *d = strcmp (tok[3], "-") ? (char *) unhex (tok[3], &a) : NULL, *pa = (char *) unhex (tok[4], &a), *i = (char *) unhex (tok[5], &a), *me = (char *) unhex (tok[6], &a);
      if (strcmp (tok[2], "call") == 0) *r = dbus_message_new_method_call (d, pa, i, me);
      else if (strcmp (tok[2], "signal") == 0) *r = dbus_message_new_signal (pa, i, me);
      else *r = strcmp (tok[2], "ret") == 0 ? dbus_message_new_method_return (m) : dbus_message_new_error (m, i, me);
      ok = *r != NULL;
      free (d); free (pa); free (i); free (me);
    }
  else if (strcmp (op, "append") == 0) ok = append_args (m, tok + 2, ntok - 2);
  else if (strcmp (op, "copy") == 0) { *r = dbus_message_copy (m); ok = *r != NULL; }
  else if (strcmp (op, "marshal") == 0)
    {
      char *buf = NULL; int len = 0, j;
      free (last_blob); last_blob = NULL;
      ok = dbus_message_marshal (m, &buf, &len);
      if (ok)
        {
          last_blob = malloc ((size_t) len * 2 + 2);
          for (j = 0; j < len; j++) sprintf (last_blob + 2 * j, "%02x", (unsigned char) buf[j]);
          last_blob[2 * len] = 0;
          dbus_free (buf);
        }
    }
  else if (strcmp (op, "demarshal") == 0)
    { *r = dbus_message_demarshal ((const char *) demarshal_src, demarshal_len, err); ok = *r != NULL; }
  else if (strcmp (op, "set") == 0)
    {
      const char *f = tok[2];
      if (strcmp (f, "destination") == 0) ok = dbus_message_set_destination (m, setval);
      else if (strcmp (f, "sender") == 0) ok = dbus_message_set_sender (m, setval);
      else if (strcmp (f, "member") == 0) ok = dbus_message_set_member (m, setval);
      else if (strcmp (f, "interface") == 0) ok = dbus_message_set_interface (m, setval);
      else if (strcmp (f, "path") == 0) ok = dbus_message_set_path (m, setval);
      else if (strcmp (f, "error_name") == 0) ok = dbus_message_set_error_name (m, setval);
      else if (strcmp (f, "serial") == 0) ok = dbus_message_set_reply_serial (m, (dbus_uint32_t) strtoul (tok[3], NULL, 10));
      else die ("bad field");
    }
  else if (strcmp (op, "rule") == 0)
    {
      char *t = (char *) unhex (tok[2], &l); DBusString str;
      _dbus_string_init_const (&str, t);
      *obj = bus_match_rule_parse (NULL, &str, err);
      ok = *obj != NULL;
      free (t);
    }
  else if (strcmp (op, "config") == 0)
    {
      DBusString str; _dbus_string_init_const (&str, cfg_path);
      *obj = bus_config_load (&str, TRUE, NULL, err);
      ok = *obj != NULL;
    }
  else die ("bad lib op");
  return ok;
}

/* what an operation produced, as text */
static void lib_result (const char *op, dbus_bool_t ok, DBusMessage *m, DBusMessage *r, void *obj, DBusError *err, Buf *o)
{
  int is_msg_op = strcmp (op, "append") == 0 || strcmp (op, "set") == 0 || strcmp (op, "copy") == 0;
  if (ok && strcmp (op, "marshal") == 0) { bput (o, "ok:%s", last_blob ? last_blob : "?"); return; }
  if (ok)
    {
      bput (o, "ok:");
      if (r) { char *h; if (dbus_message_get_serial (r) == 0) dbus_message_set_serial (r, 9); h = msg_hex (r); bput (o, "%s", h); free (h); }
      else if (is_msg_op) { char *h = msg_hex (m); bput (o, "%s", h); free (h); }
      else if (obj) bput (o, "parsed");
    }
  else if (dbus_error_is_set (err) && !dbus_error_has_name (err, DBUS_ERROR_NO_MEMORY)) bput (o, "err:%s", err->name);
  else bput (o, "oom");
}

/* Is the message still fully usable?  A setter on a field that exists, a setter that adds a field, an
   append of a basic value, a marshal: return values and the resulting bytes.  (Destructive: done last.) */
static void usability (DBusMessage *x, Buf *o)
{
  dbus_uint32_t v = 77; char *buf = NULL; int len = 0, j;
  int r1 = dbus_message_set_member (x, "Probe") ? 1 : 0;
  int r2 = dbus_message_set_sender (x, ":1.99") ? 1 : 0;
  int r3 = dbus_message_append_args (x, DBUS_TYPE_UINT32, &v, DBUS_TYPE_INVALID) ? 1 : 0;
  int r4 = dbus_message_marshal (x, &buf, &len) ? 1 : 0;
  bput (o, "%d%d%d%d:", r1, r2, r3, r4);
  if (r4) { for (j = 0; j < len; j++) bput (o, "%02x", (unsigned char) buf[j]); dbus_free (buf); }
}

/* one attempt with the k-th allocation failing; verdict into o; returns whether a failure was injected */
static int lib_attempt (char **tok, int ntok, int k, Buf *o)
{
  const char *op = tok[1];
  int failed;
  DBusMessage *m = NULL, *r = NULL; char *before = NULL, *after = NULL;
  dbus_bool_t ok = FALSE; DBusError err = DBUS_ERROR_INIT; void *obj = NULL;
  int is_msg_op = strcmp (op, "append") == 0 || strcmp (op, "set") == 0 || strcmp (op, "copy") == 0 ||
                  strcmp (op, "marshal") == 0 || strcmp (op, "demarshal") == 0;
  int has_preargs = strcmp (op, "copy") == 0 || strcmp (op, "marshal") == 0 || strcmp (op, "demarshal") == 0;
  char *setval = NULL; int l;
  /* warm up the library's global caches so that they do not show up as growth */
  { DBusMessage *w = base_message (); dbus_message_unref (w); }
  if (is_msg_op)
    {
      m = base_message ();
      if (has_preargs && !append_args (m, tok + 2, ntok - 2)) die ("oom");
      before = msg_hex (m);
      if (strcmp (op, "demarshal") == 0) { free (demarshal_src); demarshal_src = unhex (before, &demarshal_len); }
    }
  if (strcmp (op, "new") == 0 && (strcmp (tok[2], "ret") == 0 || strcmp (tok[2], "err") == 0)) m = base_message ();
  if (strcmp (op, "set") == 0 && strcmp (tok[2], "serial") != 0) setval = (char *) unhex (tok[3], &l);
  if (strcmp (op, "config") == 0)
    { FILE *f = fopen (cfg_path, "w"); if (!f) die ("cfg"); fputs (cfg_text (atoi (tok[2])), f); fclose (f); }
  alloc_seen = 0;
  _dbus_set_fail_alloc_counter (k);
  ok = lib_do (tok, ntok, m, setval, &r, &obj, &err);
  failed = _dbus_get_fail_alloc_counter () > k;
  _dbus_set_fail_alloc_counter (_DBUS_INT_MAX);
  /* verdict */
  if (is_msg_op) after = msg_hex (m);
  if (ok || (dbus_error_is_set (&err) && !dbus_error_has_name (&err, DBUS_ERROR_NO_MEMORY)))
    {
      lib_result (op, ok, m, r, obj, &err, o);
      if ((strcmp (op, "copy") == 0 || strcmp (op, "marshal") == 0 || strcmp (op, "demarshal") == 0) && strcmp (before, after) != 0) bput (o, "|BAD:source-changed");
    }
  else
    {
      DBusMessage *r2 = NULL; void *obj2 = NULL; DBusError err2 = DBUS_ERROR_INIT; dbus_bool_t ok2;
      if (is_msg_op && strcmp (before, after) != 0)
        {
          /* would a peer still accept the bytes? */
          int n; unsigned char *raw = unhex (after, &n); DBusError e2 = DBUS_ERROR_INIT;
          DBusMessage *re = dbus_message_demarshal ((const char *) raw, n, &e2);
          bput (o, "BAD:reported-failure-but-message-changed:reparse=%s:len%+d", re ? "ok" : "invalid", (int) (strlen (after) - strlen (before)) / 2);
          if (re) dbus_message_unref (re);
          dbus_error_free (&e2); free (raw);
        }
      else bput (o, "oom-unchanged");
      if (!failed) bput (o, "|BAD:oom-without-injection");
      /* "succeeds when retried with memory available" */
      ok2 = lib_do (tok, ntok, m, setval, &r2, &obj2, &err2);
      bput (o, ";retry=");
      lib_result (op, ok2, m, r2, obj2, &err2, o);
      if (obj2 && strcmp (op, "rule") == 0) bus_match_rule_unref (obj2);
      if (obj2 && strcmp (op, "config") == 0) bus_config_parser_unref (obj2);
      if (r2) dbus_message_unref (r2);
      dbus_error_free (&err2);
      /* after the failed operation and its retry the message must be as usable as a twin that never saw the failure */
      if (m != NULL)
        {
          DBusMessage *twin = base_message (), *r3 = NULL; void *obj3 = NULL; DBusError err3 = DBUS_ERROR_INIT;
          Buf pa = { NULL, 0, 0 }, pb = { NULL, 0, 0 };
          breset (&pa); breset (&pb);
          if (has_preargs && !append_args (twin, tok + 2, ntok - 2)) die ("oom");
          lib_do (tok, ntok, twin, setval, &r3, &obj3, &err3);
          if (r3) dbus_message_unref (r3);
          dbus_error_free (&err3);
          usability (m, &pa); usability (twin, &pb);
          if (strcmp (pa.b, pb.b) == 0) bput (o, ";probe=same");
          else bput (o, ";probe=DIFF:%.8s/%.8s", pa.b, pb.b);
          dbus_message_unref (twin);
          free (pa.b); free (pb.b);
        }
    }
  if (obj && strcmp (op, "rule") == 0) bus_match_rule_unref (obj);
  if (obj && strcmp (op, "config") == 0) bus_config_parser_unref (obj);
  dbus_error_free (&err);
  if (r) dbus_message_unref (r);
  if (m) dbus_message_unref (m);
  free (before); free (after); free (setval);
  free (last_blob); last_blob = NULL;
  dbus_shutdown ();
  if (_dbus_get_malloc_blocks_outstanding () != 0) bput (o, "|BAD:leak=%d", _dbus_get_malloc_blocks_outstanding ());
  return failed;
}

static void lib_case (char **tok, int ntok, Buf *res)
{
  Buf cur = { NULL, 0, 0 }, prev = { NULL, 0, 0 };
  int k, run = 0, first = 1;
  breset (&cur); breset (&prev);
  for (k = 0; k < 20000; k++)
    {
      int failed;
      breset (&cur);
      failed = lib_attempt (tok, ntok, k, &cur);
      { Buf t = { NULL, 0, 0 }; breset (&t); bput (&t, "f%d|%s", failed, cur.b); breset (&cur); bput (&cur, "%s", t.b); free (t.b); }
      if (strcmp (cur.b, prev.b) == 0) run++;
      else { if (run > 0) { bput (res, "%s%d*%s", first ? "" : " ## ", run, prev.b); first = 0; } breset (&prev); bput (&prev, "%s", cur.b); run = 1; }
      if (!failed) break;
    }
  if (run > 0) bput (res, "%s%d*%s", first ? "" : " ## ", run, prev.b);
  free (cur.b); free (prev.b);
  bput (res, " ## end k=%d lsan=%d", k + 1, __lsan_do_recoverable_leak_check () ? 1 : 0);
}


/* ---- DBusString leg ------------------------------------------------------------------------------
   str <cap> <op> ... -- <op>
     a string from _dbus_string_init_preallocated (cap), the history ops applied with injection
     off, then the operation under test with its k-th allocation failing, k = 0, 1, ... (fresh
     string + history for every k).  ops:
       L<n> lengthen   H<n> shorten   T<n> set_length   I<at>,<n>,<byte> insert_bytes   B<at>,<byte> insert_byte
       A<a> align_length   N<at>,<hex> insert_2/4/8_aligned   G<at>,<a> insert_alignment   S<n> alloc_space
       P<hex> append_len   Y<byte> append_byte   D<start>,<len> delete
       C<srchex>,<start>,<len>,<at> copy_len   R<srchex>,<start>,<len>,<at>,<rlen> replace_len
   result: base=<len>|<allocated>|<hex> ## <n>*f<failed>|<ok>|<len>|<allocated>|<hex of the contents> ## ... ## end allocs=<allocations of the unfailed op> */
static dbus_bool_t str_apply (DBusString *s, const char *op)
{
  char buf[8192]; char *f[6] = { 0 }; int nf = 0; char *p; int n; dbus_bool_t ok = TRUE;
  strncpy (buf, op + 1, sizeof buf - 1); buf[sizeof buf - 1] = 0;
  for (p = strtok (buf, ","); p && nf < 6; p = strtok (NULL, ",")) f[nf++] = p;
  switch (op[0])
    {
    case 'L': ok = _dbus_string_lengthen (s, atoi (f[0])); break;
    case 'H': _dbus_string_shorten (s, atoi (f[0])); break;
    case 'T': ok = _dbus_string_set_length (s, atoi (f[0])); break;
    case 'I': ok = _dbus_string_insert_bytes (s, atoi (f[0]), atoi (f[1]), (unsigned char) atoi (f[2])); break;
    case 'B': ok = _dbus_string_insert_byte (s, atoi (f[0]), (unsigned char) atoi (f[1])); break;
    case 'A': ok = _dbus_string_align_length (s, atoi (f[0])); break;
    case 'N': { unsigned char *o = unhex (f[1], &n);
        ok = n == 2 ? _dbus_string_insert_2_aligned (s, atoi (f[0]), o) : n == 4 ? _dbus_string_insert_4_aligned (s, atoi (f[0]), o) : _dbus_string_insert_8_aligned (s, atoi (f[0]), o);
        free (o); break; }
    case 'G': { int at = atoi (f[0]); ok = _dbus_string_insert_alignment (s, &at, atoi (f[1])); break; }
    case 'S': ok = _dbus_string_alloc_space (s, atoi (f[0])); break;
    case 'P': { unsigned char *o = unhex (f[0], &n); ok = _dbus_string_append_len (s, (const char *) o, n); free (o); break; }
    case 'Y': ok = _dbus_string_append_byte (s, (unsigned char) atoi (f[0])); break;
    case 'D': _dbus_string_delete (s, atoi (f[0]), atoi (f[1])); break;
    case 'C': case 'R':
      { unsigned char *o = unhex (f[0], &n); DBusString src; _dbus_string_init_const_len (&src, (const char *) o, n);
        if (op[0] == 'C') ok = _dbus_string_copy_len (&src, atoi (f[1]), atoi (f[2]), s, atoi (f[3]));
        else ok = _dbus_string_replace_len (&src, atoi (f[1]), atoi (f[2]), s, atoi (f[3]), atoi (f[4]));
        free (o); break; }
    default: die ("bad str op");
    }
  return ok;
}

static void str_case (char **tok, int ntok, Buf *res)
{
  int cap = atoi (tok[1]), sep = -1, i, k, run = 0, first = 1; long unfailed = -1;
  Buf cur = { NULL, 0, 0 }, prev = { NULL, 0, 0 };
  for (i = 2; i < ntok; i++) if (strcmp (tok[i], "--") == 0) { sep = i; break; }
  if (sep < 0 || sep + 1 >= ntok) die ("str: no -- <op>");
  breset (&cur); breset (&prev);
  for (k = 0; k < 64; k++)
    {
      DBusString s; DBusRealString *real = (DBusRealString *) &s; dbus_bool_t ok; int failed; const unsigned char *d; int j;
      if (!_dbus_string_init_preallocated (&s, cap)) die ("oom");
      for (i = 2; i < sep; i++) if (!str_apply (&s, tok[i])) die ("history op failed");
      if (k == 0)
        {
          d = (const unsigned char *) _dbus_string_get_const_data (&s);
          bput (res, "base=%d|%d|", real->len, real->allocated);
          if (real->len == 0) bput (res, "-");
          for (j = 0; j < real->len; j++) bput (res, "%02x", d[j]);
          first = 0;
        }
      alloc_seen = 0;
      _dbus_set_fail_alloc_counter (k);
      ok = str_apply (&s, tok[sep + 1]);
      failed = _dbus_get_fail_alloc_counter () > k;
      _dbus_set_fail_alloc_counter (_DBUS_INT_MAX);
      if (!failed) unfailed = alloc_seen;
      breset (&cur);
      bput (&cur, "f%d|%d|%d|%d|", failed, ok ? 1 : 0, real->len, real->allocated);
      d = (const unsigned char *) _dbus_string_get_const_data (&s);
      if (real->len == 0) bput (&cur, "-");
      for (j = 0; j < real->len; j++) bput (&cur, "%02x", d[j]);
      _dbus_string_free (&s);
      if (strcmp (cur.b, prev.b) == 0) run++;
      else { if (run > 0) { bput (res, "%s%d*%s", first ? "" : " ## ", run, prev.b); first = 0; } breset (&prev); bput (&prev, "%s", cur.b); run = 1; }
      if (!failed) break;
    }
  if (run > 0) bput (res, "%s%d*%s", first ? "" : " ## ", run, prev.b);
  dbus_shutdown ();
  bput (res, " ## end allocs=%ld leak=%d", unfailed, _dbus_get_malloc_blocks_outstanding ());
  free (cur.b); free (prev.b);
}

int main (void)
{
  static char line[1 << 16];
  Buf res = { NULL, 0, 0 };
  signal (SIGPIPE, SIG_IGN);
  snprintf (pipe_name, sizeof pipe_name, "oomh-%d", (int) getpid ());
  snprintf (cfg_path, sizeof cfg_path, "/tmp/oom_h_%d.conf", (int) getpid ());
  setenv ("DBUS_DISABLE_MEM_POOLS", "1", 1);     /* every pool element is its own malloc block: ASan sees stale uses */
  while (fgets (line, sizeof line, stdin))
    {
      char *tok[256]; int ntok = 0; char *p;
      size_t l = strlen (line);
      while (l && (line[l - 1] == '\n' || line[l - 1] == '\r')) line[--l] = 0;
      breset (&res);
      for (p = strtok (line, " "); p && ntok < 256; p = strtok (NULL, " ")) tok[ntok++] = p;
      if (ntok >= 6 && strcmp (tok[0], "bus") == 0) bus_case (tok, ntok, &res);
      else if (ntok >= 3 && strcmp (tok[0], "lib") == 0) lib_case (tok, ntok, &res);
      else if (ntok >= 4 && strcmp (tok[0], "str") == 0) str_case (tok, ntok, &res);
      else bput (&res, "?");
      puts (res.b);
      fflush (stdout);
    }
  unlink (cfg_path);
  fflush (stdout);
  _exit (0);
}
