/* C17 harness: a real DBusConnection (client) talking to an in-process
   DBusServer connection (the scripted peer) over a unix socket.  One case per
   input line ("run <event> <event> ..."), one result line per case.

   Events (all single-threaded, deterministic):
     base=<b>       (first token) behave like a connection whose serial counter stands at b: the harness keeps the counter
                    itself (same wrap rule) and gives every message it sends its serial with dbus_message_set_serial
                    before sending, so libdbus never draws from its own counter; everything else is the real library
     realbase=<b>   (first token) really advance the library's counter to b by calling the exported
                    _dbus_connection_get_next_client_serial b-1 times (seconds for b near 2^31)
     S,<ms>,<n>     dbus_connection_send_with_reply, timeout <ms> (inf = DBUS_TIMEOUT_INFINITE), set_notify iff n=1
     P              dbus_connection_send of a signal (consumes a serial)
     M,<k>,c<i>,<tag> / M,<k>,#<serial>,<tag>
                    peer writes a message of kind k (r=method return, e=error, s=signal) whose reply serial is
                    the serial of call i / the literal serial (0 = none, signals only); uint32 <tag> as body
     R              dbus_connection_read_write (client, 0)
     W              dbus_watch_handle (read watch, READABLE)         (what a main loop does)
     F,<i>          fire the timeout of call i by dbus_timeout_handle if it is currently registered
     C,<i>          dbus_pending_call_cancel
     B,<i>          dbus_pending_call_block
     D              dbus_connection_dispatch (one message)
     T,<i>          dbus_pending_call_steal_reply if get_completed
     BW,<i>,<k>:<target>:<tag>+...[/...]
                    dbus_pending_call_block (call i) while a helper thread writes the batches (separated by '/') to the
                    peer's socket, one every 15 ms, as raw pre-marshalled bytes (the helper makes no libdbus call)
     BT,<i>,<arg>,<s.us>/<s.us>/...,<batch>/<batch>/... ('-' = nothing arrives, poll times out; 'x' = no batches)
                    dbus_pending_call_block (call i) under a scripted clock: while it runs, clock_gettime (CLOCK_MONOTONIC)
                    (what _dbus_get_monotonic_time uses) returns the listed readings one after the other (a call of
                    gettimeofday during the wait is flagged "!walltime"), and poll()
                    on the client's socket never sleeps: if nothing is readable the next batch is written to the peer's
                    socket (or, for '-', poll returns 0 at once).  Every timeout handed to poll() is printed (q<ms>).
     TT,<a>,<b>,<k>:<target>:<tag>+...
                    two threads: thread A calls dbus_pending_call_block (call a); when A sleeps in poll() (it owns the I/O
                    path) thread B calls dbus_pending_call_block (call b) and ends up waiting for the I/O path
                    (pthread_cond_wait on io_path_cond, seen through an interposed pthread_cond_wait); then the peer writes
                    all the listed messages in ONE write and A's poll returns.  Gated with semaphores, no timing.  A thread
                    that goes to sleep in poll() once more with nothing left to arrive prints "!sleep" (and is woken by an
                    extra signal so that the run ends).  Output: A[<A's observations>]B[<B's observations>].
     X              peer closes its end (after draining what the client sent)
     L              dbus_connection_close (client)
   Result: per event "<observations>|<per-call state>", joined by ';'.
   Timeouts never run on their own: the harness owns the DBusTimeout objects. */
#include "common.h"
#include <stdarg.h>
#include <unistd.h>
#include <signal.h>
#include <pthread.h>
#include <poll.h>
#include <semaphore.h>
#include <dlfcn.h>
#include <errno.h>
#include <sys/time.h>
#include <time.h>
#include <sys/syscall.h>
#include <dbus/dbus-connection-internal.h>

#define MAXCALLS 16
#define OUTSZ 16384

static char out[OUTSZ];
static size_t outn;
#define TLSZ 2048
static __thread char *tl_out;       /* when set, observations made on this thread go here (two-thread schedules) */
static __thread size_t tl_n;
static void emit (const char *fmt, ...)
{
  va_list ap; int n;
  if (tl_out)
    {
      va_start (ap, fmt);
      n = vsnprintf (tl_out + tl_n, TLSZ - tl_n, fmt, ap);
      va_end (ap);
      if (n > 0) tl_n += (size_t) n;
      if (tl_n >= TLSZ) tl_n = TLSZ - 1;
      return;
    }
  va_start (ap, fmt);
  n = vsnprintf (out + outn, OUTSZ - outn, fmt, ap);
  va_end (ap);
  if (n > 0) outn += (size_t) n;
  if (outn >= OUTSZ) outn = OUTSZ - 1;
}

static DBusServer *server;
static DBusWatch *server_watch[8];
static DBusConnection *sconn;      /* peer side */
static DBusConnection *client;
static DBusWatch *read_watch;      /* client's read watch, NULL once removed */
static int cleanup;
static int peer_shut;               /* the peer's writing side was shut down inside a batch (item "x") */

struct call { DBusPendingCall *p; dbus_uint32_t serial; DBusTimeout *to; int registered; int ncount; int has_notify; };
static struct call calls[MAXCALLS];
static int ncalls;
static int cur_send = -1;          /* index of the call being created (for add_timeout) */

/* ---- server plumbing ---- */
static dbus_bool_t srv_add_watch (DBusWatch *w, void *d) { int i; for (i = 0; i < 8; i++) if (!server_watch[i]) { server_watch[i] = w; return TRUE; } return TRUE; }
static void srv_remove_watch (DBusWatch *w, void *d) { int i; for (i = 0; i < 8; i++) if (server_watch[i] == w) server_watch[i] = NULL; }
static void srv_toggle_watch (DBusWatch *w, void *d) { }
static void new_conn (DBusServer *s, DBusConnection *c, void *d)
{
  if (sconn == NULL) { sconn = c; dbus_connection_ref (c); }
}

static void pump_server (void)
{
  int i;
  for (i = 0; i < 8; i++)
    if (server_watch[i] && dbus_watch_get_enabled (server_watch[i]))
      dbus_watch_handle (server_watch[i], DBUS_WATCH_READABLE);
}

static void drain_peer (void)
{
  DBusMessage *m;
  int k;
  if (!sconn) return;
  for (k = 0; k < 4; k++)
    {
      if (!dbus_connection_get_is_connected (sconn)) break;
      dbus_connection_read_write (sconn, 0);
      while ((m = dbus_connection_pop_message (sconn)) != NULL) dbus_message_unref (m);
    }
}

/* ---- client callbacks ---- */
static dbus_bool_t add_timeout (DBusTimeout *t, void *d)
{
  if (cur_send >= 0) { calls[cur_send].to = t; calls[cur_send].registered = 1; }
  else
    {
      int i; for (i = 0; i < ncalls; i++) if (calls[i].to == t) calls[i].registered = 1;
    }
  return TRUE;
}
static void remove_timeout (DBusTimeout *t, void *d)
{
  int i; for (i = 0; i < ncalls; i++) if (calls[i].to == t) calls[i].registered = 0;
  if (cur_send >= 0 && calls[cur_send].to == t) calls[cur_send].registered = 0;
}
static void toggle_timeout (DBusTimeout *t, void *d) { }

static dbus_bool_t add_watch (DBusWatch *w, void *d)
{
  if (dbus_watch_get_flags (w) & DBUS_WATCH_READABLE) read_watch = w;
  return TRUE;
}
static void remove_watch (DBusWatch *w, void *d) { if (read_watch == w) read_watch = NULL; }
static void toggle_watch (DBusWatch *w, void *d) { }

static void fmt_msg (DBusMessage *m, int hide_local_serial)
{
  int t = dbus_message_get_type (m);
  dbus_uint32_t rs = dbus_message_get_reply_serial (m);
  dbus_uint32_t tag = 0; int has_tag = 0;
  DBusMessageIter it;
  if (dbus_message_iter_init (m, &it) && dbus_message_iter_get_arg_type (&it) == DBUS_TYPE_UINT32)
    { dbus_message_iter_get_basic (&it, &tag); has_tag = 1; }
  if (t == DBUS_MESSAGE_TYPE_METHOD_RETURN) emit ("r%u.%u", rs, tag);
  else if (t == DBUS_MESSAGE_TYPE_ERROR)
    {
      const char *en = dbus_message_get_error_name (m);
      if (!has_tag && en && strcmp (en, DBUS_ERROR_NO_REPLY) == 0)
        { if (hide_local_serial) emit ("N"); else emit ("N%u", rs); }
      else if (!has_tag && en && strcmp (en, DBUS_ERROR_DISCONNECTED) == 0) emit ("X%u", rs);
      else emit ("e%u.%u", rs, tag);
    }
  else if (t == DBUS_MESSAGE_TYPE_SIGNAL)
    {
      if (dbus_message_is_signal (m, DBUS_INTERFACE_LOCAL, "Disconnected")) emit ("Z");
      else emit ("s%u.%u", rs, tag);
    }
  else emit ("?%d", t);
}

static void notify (DBusPendingCall *p, void *d)
{
  int i = (int) (long) d;
  if (cleanup) return;
  calls[i].ncount++;
  emit ("n%d", i);
  if (!dbus_pending_call_get_completed (p)) emit ("!notcompleted");
}

static DBusHandlerResult filter (DBusConnection *c, DBusMessage *m, void *d)
{
  if (cleanup) return DBUS_HANDLER_RESULT_NOT_YET_HANDLED;
  emit ("f"); fmt_msg (m, 1);
  return DBUS_HANDLER_RESULT_NOT_YET_HANDLED;
}

static void state (void)
{
  int i;
  emit ("|");
  for (i = 0; i < ncalls; i++)
    emit ("%s%d%d%d", i ? "," : "", dbus_pending_call_get_completed (calls[i].p) ? 1 : 0, calls[i].registered, calls[i].ncount);
  emit ("%s", dbus_connection_get_is_connected (client) ? "" : "/d");
}

static int setup (void)
{
  DBusError err; int k; char *addr;
  dbus_error_init (&err);
  peer_shut = 0;
  sconn = NULL; client = NULL; read_watch = NULL; ncalls = 0; cur_send = -1; cleanup = 0;
  memset (calls, 0, sizeof calls);
  addr = dbus_server_get_address (server);
  client = dbus_connection_open_private (addr, &err);
  dbus_free (addr);
  if (!client) { emit ("!open:%s", err.message); dbus_error_free (&err); return 0; }
  dbus_connection_set_exit_on_disconnect (client, FALSE);
  for (k = 0; k < 200; k++)
    {
      pump_server ();
      dbus_connection_read_write (client, 0);
      if (sconn) dbus_connection_read_write (sconn, 0);
      if (sconn && dbus_connection_get_is_authenticated (client) && dbus_connection_get_is_authenticated (sconn)) break;
    }
  if (!sconn || !dbus_connection_get_is_authenticated (client)) { emit ("!auth"); return 0; }
  dbus_connection_set_timeout_functions (client, add_timeout, remove_timeout, toggle_timeout, NULL, NULL);
  dbus_connection_set_watch_functions (client, add_watch, remove_watch, toggle_watch, NULL, NULL);
  dbus_connection_add_filter (client, filter, NULL, NULL);
  return 1;
}

static void teardown (void)
{
  int i;
  cleanup = 1;
  for (i = 0; i < ncalls; i++) if (calls[i].p) dbus_pending_call_cancel (calls[i].p);
  if (client)
    {
      dbus_connection_close (client);
      while (dbus_connection_dispatch (client) == DBUS_DISPATCH_DATA_REMAINS) ;
    }
  for (i = 0; i < ncalls; i++) if (calls[i].p) { dbus_pending_call_unref (calls[i].p); calls[i].p = NULL; }
  if (client) { dbus_connection_remove_filter (client, filter, NULL); dbus_connection_unref (client); client = NULL; }
  if (sconn)
    {
      if (dbus_connection_get_is_connected (sconn)) dbus_connection_close (sconn);
      while (dbus_connection_dispatch (sconn) == DBUS_DISPATCH_DATA_REMAINS) ;
      dbus_connection_unref (sconn); sconn = NULL;
    }
}

static int use_shadow;
static dbus_uint32_t shadow;
static void shadow_advance (void) { shadow++; if (shadow == 0) shadow = 1; }

static DBusMessage *new_call_msg (void)
{
  return dbus_message_new_method_call ("org.x.Peer", "/org/x", "org.x.I", "M");
}

static void ev_send (const char *a1, const char *a2)
{
  DBusMessage *m; DBusPendingCall *p = NULL; int ms; int nf;
  if (ncalls >= MAXCALLS) { emit ("!toomany"); return; }
  ms = strcmp (a1, "inf") == 0 ? DBUS_TIMEOUT_INFINITE : atoi (a1);   /* -1 = DBUS_TIMEOUT_USE_DEFAULT */
  nf = atoi (a2);
  m = new_call_msg ();
  if (use_shadow) dbus_message_set_serial (m, shadow);
  cur_send = ncalls;
  calls[ncalls].to = NULL; calls[ncalls].registered = 0; calls[ncalls].ncount = 0; calls[ncalls].has_notify = nf;
  if (!dbus_connection_send_with_reply (client, m, &p, ms)) { emit ("!oom"); cur_send = -1; dbus_message_unref (m); return; }
  cur_send = -1;
  if (p == NULL) { emit ("s-"); dbus_message_unref (m); return; }
  if (use_shadow) shadow_advance ();
  calls[ncalls].p = p;
  calls[ncalls].serial = dbus_message_get_serial (m);
  emit ("s%u", calls[ncalls].serial);
  if (calls[ncalls].to) emit ("i%d", dbus_timeout_get_interval (calls[ncalls].to)); else emit ("i-");
  if (nf) dbus_pending_call_set_notify (p, notify, (void *) (long) ncalls, NULL);
  ncalls++;
  dbus_message_unref (m);
  drain_peer ();
}

static void ev_plain (void)
{
  DBusMessage *m = dbus_message_new_signal ("/org/x", "org.x.I", "Sig");
  dbus_uint32_t serial = 0;
  if (use_shadow) { dbus_message_set_serial (m, shadow); shadow_advance (); }
  dbus_connection_send (client, m, &serial);
  emit ("p%u", serial);
  dbus_message_unref (m);
  drain_peer ();
}

static void ev_peer (const char *kind, const char *target, const char *tagstr)
{
  DBusMessage *m = NULL; dbus_uint32_t rs; dbus_uint32_t tag = (dbus_uint32_t) strtoul (tagstr, NULL, 10);
  if (target[0] == 'c')
    {
      int i = atoi (target + 1);
      if (i < 0 || i >= ncalls) return;
      rs = calls[i].serial;
    }
  else rs = (dbus_uint32_t) strtoul (target + 1, NULL, 10);
  if (!sconn || peer_shut || !dbus_connection_get_is_connected (sconn)) return;
  if (kind[0] == 'r') m = dbus_message_new (DBUS_MESSAGE_TYPE_METHOD_RETURN);
  else if (kind[0] == 'e') { m = dbus_message_new (DBUS_MESSAGE_TYPE_ERROR); dbus_message_set_error_name (m, "org.x.Err"); }
  else { m = dbus_message_new_signal ("/org/x", "org.x.I", "Sig"); }
  if (rs != 0) dbus_message_set_reply_serial (m, rs);
  else if (kind[0] != 's') { dbus_message_unref (m); return; }
  dbus_message_append_args (m, DBUS_TYPE_UINT32, &tag, DBUS_TYPE_INVALID);
  dbus_connection_send (sconn, m, NULL);
  dbus_connection_flush (sconn);
  dbus_message_unref (m);
}

/* ---- block while the peer keeps writing ---- */
#define MAXBATCH 8
struct batch { unsigned char *buf; size_t len; int close_after; };
#include <sys/socket.h>
static void batch_write (int fd, struct batch *b)
{
  size_t off = 0;
  if (peer_shut) return;
  while (off < b->len) { ssize_t w = write (fd, b->buf + off, b->len - off); if (w <= 0) break; off += (size_t) w; }
  if (b->close_after) { shutdown (fd, SHUT_WR); peer_shut = 1; }
}
static struct batch bw[MAXBATCH];
static int nbw, bw_fd;
static void *bw_thread (void *arg)
{
  int i;
  for (i = 0; i < nbw; i++)
    {
      usleep (15000);
      batch_write (bw_fd, &bw[i]);
    }
  return NULL;
}

static void batch_add (struct batch *b, const char *item)
{
  char kind[8], target[32]; unsigned long tag; dbus_uint32_t rs; DBusMessage *m; char *raw = NULL; int len = 0;
  dbus_uint32_t t32;
  if (strcmp (item, "x") == 0) { b->close_after = 1; return; }
  if (b->close_after) return;
  if (sscanf (item, "%7[^:]:%31[^:]:%lu", kind, target, &tag) != 3) return;
  if (target[0] == 'c') { int i = atoi (target + 1); if (i < 0 || i >= ncalls) return; rs = calls[i].serial; }
  else rs = (dbus_uint32_t) strtoul (target + 1, NULL, 10);
  if (kind[0] == 'r') m = dbus_message_new (DBUS_MESSAGE_TYPE_METHOD_RETURN);
  else if (kind[0] == 'e') { m = dbus_message_new (DBUS_MESSAGE_TYPE_ERROR); dbus_message_set_error_name (m, "org.x.Err"); }
  else m = dbus_message_new_signal ("/org/x", "org.x.I", "Sig");
  if (rs != 0) dbus_message_set_reply_serial (m, rs);
  else if (kind[0] != 's') { dbus_message_unref (m); return; }
  t32 = (dbus_uint32_t) tag;
  dbus_message_append_args (m, DBUS_TYPE_UINT32, &t32, DBUS_TYPE_INVALID);
  dbus_message_set_serial (m, 0x40000000u + t32);
  if (dbus_message_marshal (m, &raw, &len))
    {
      b->buf = realloc (b->buf, b->len + (size_t) len);
      memcpy (b->buf + b->len, raw, (size_t) len);
      b->len += (size_t) len;
      dbus_free (raw);
    }
  dbus_message_unref (m);
}

static void ev_block_with (int i, char *spec)
{
  pthread_t th; char *bs, *save1 = NULL; int started = 0, k;
  nbw = 0;
  if (sconn && !peer_shut && dbus_connection_get_is_connected (sconn) && dbus_connection_get_unix_fd (sconn, &bw_fd))
    for (bs = strtok_r (spec, "/", &save1); bs && nbw < MAXBATCH; bs = strtok_r (NULL, "/", &save1))
      {
        char *it, *save2 = NULL;
        bw[nbw].buf = NULL; bw[nbw].len = 0; bw[nbw].close_after = 0;
        for (it = strtok_r (bs, "+", &save2); it; it = strtok_r (NULL, "+", &save2)) batch_add (&bw[nbw], it);
        nbw++;
      }
  if (nbw > 0 && pthread_create (&th, NULL, bw_thread, NULL) == 0) started = 1;
  if (i < ncalls) dbus_pending_call_block (calls[i].p);
  if (started) pthread_join (th, NULL);
  for (k = 0; k < nbw; k++) free (bw[k].buf);
  nbw = 0;
}

/* ---- two threads blocking on two calls of one connection ---- */
static int tt_active, tt_a_polled, tt_b_posted;
static pthread_t tt_thA, tt_thB;
static sem_t tt_a_inpoll, tt_a_go, tt_b_waiting;
static struct batch tt_wake;
static char tt_bufA[TLSZ], tt_bufB[TLSZ];
static int tt_ca, tt_cb;

int pthread_cond_wait (pthread_cond_t *c, pthread_mutex_t *m)
{
  static int (*real) (pthread_cond_t *, pthread_mutex_t *);
  if (!real) real = (int (*) (pthread_cond_t *, pthread_mutex_t *)) dlvsym (RTLD_NEXT, "pthread_cond_wait", "GLIBC_2.3.2");
  if (!real) real = (int (*) (pthread_cond_t *, pthread_mutex_t *)) dlsym (RTLD_NEXT, "pthread_cond_wait");
  if (tt_active && !tt_b_posted && pthread_equal (pthread_self (), tt_thB)) { tt_b_posted = 1; sem_post (&tt_b_waiting); }
  return real (c, m);
}

static void *tt_run (void *arg)
{
  int is_a = (arg == (void *) 0);
  tl_out = is_a ? tt_bufA : tt_bufB; tl_n = 0; tl_out[0] = 0;
  dbus_pending_call_block (calls[is_a ? tt_ca : tt_cb].p);
  tl_out = NULL;
  return NULL;
}

static int sem_wait_5s (sem_t *s)
{
  struct timespec ts; syscall (SYS_clock_gettime, CLOCK_REALTIME, &ts); ts.tv_sec += 5;
  while (sem_timedwait (s, &ts) != 0) { if (errno != EINTR) return 0; }
  return 1;
}

/* ---- block under a scripted clock ---- */
#define MAXCLK 16
static int bt_active, bt_cfd = -1, bt_pfd = -1;
static struct timeval bt_clk[MAXCLK]; static int bt_nclk, bt_ci;
static struct batch bt_arr[MAXBATCH]; static int bt_narr, bt_ai;

/* _dbus_get_monotonic_time must use CLOCK_MONOTONIC (repo commit 09f2f87): the script is served through clock_gettime */
int clock_gettime (clockid_t id, struct timespec *ts)
{
  if (bt_active && id == CLOCK_MONOTONIC && ts)
    {
      struct timeval tv;
      if (bt_ci < bt_nclk) tv = bt_clk[bt_ci++];
      else { tv = bt_clk[bt_nclk - 1]; tv.tv_sec += 1000000; emit ("!clock"); }   /* script too short: let the wait give up */
      ts->tv_sec = tv.tv_sec; ts->tv_nsec = tv.tv_usec * 1000L + 999;             /* any nanoseconds inside the microsecond */
      return 0;
    }
  return (int) syscall (SYS_clock_gettime, id, ts);
}

/* regression guard: a blocking wait must not consult the wall clock (F17.4b).  If it does, flag it and serve the script
   so that the run still terminates. */
int gettimeofday (struct timeval *tv, void *tz)
{
  if (bt_active && tv)
    {
      emit ("!walltime");
      if (bt_ci < bt_nclk) *tv = bt_clk[bt_ci++];
      else { *tv = bt_clk[bt_nclk - 1]; tv->tv_sec += 1000000; }
      return 0;
    }
  return (int) syscall (SYS_gettimeofday, tv, tz);
}

int poll (struct pollfd *fds, nfds_t n, int timeout)
{
  if (tt_active && n == 1 && fds[0].fd == bt_cfd)
    {
      int r;
      emit ("q%d", timeout);
      r = (int) syscall (SYS_poll, fds, n, 0);
      if (r != 0) return r;
      if (!tt_a_polled && pthread_equal (pthread_self (), tt_thA))
        {
          tt_a_polled = 1;
          sem_post (&tt_a_inpoll);
          sem_wait_5s (&tt_a_go);
          return (int) syscall (SYS_poll, fds, n, 2000);
        }
      /* nothing readable and nothing more will be written: this thread is about to sleep for good */
      emit ("!sleep");
      { size_t off = 0; while (off < tt_wake.len) { ssize_t w = write (bt_pfd, tt_wake.buf + off, tt_wake.len - off); if (w <= 0) break; off += (size_t) w; } }
      return (int) syscall (SYS_poll, fds, n, 2000);
    }
  if (bt_active && n == 1 && fds[0].fd == bt_cfd)
    {
      int r;
      emit ("q%d", timeout);
      r = (int) syscall (SYS_poll, fds, n, 0);
      if (r != 0) return r;
      if (bt_ai < bt_narr)
        {
          struct batch *b = &bt_arr[bt_ai++];
          if ((b->len == 0 && !b->close_after) || peer_shut) { if (timeout < 0) { emit ("!hang"); fflush (stdout); puts (out); _exit (97); } return 0; }
          batch_write (bt_pfd, b);
          return (int) syscall (SYS_poll, fds, n, 1000);
        }
      if (timeout < 0) { emit ("!hang"); puts (out); fflush (stdout); _exit (97); }
      return 0;
    }
  return (int) syscall (SYS_poll, fds, n, timeout);
}

static void ev_block_timed (int i, char *clocks, char *arrivals)
{
  char *c, *save = NULL; int k;
  bt_nclk = bt_ci = bt_narr = bt_ai = 0;
  for (c = strtok_r (clocks, "/", &save); c && bt_nclk < MAXCLK; c = strtok_r (NULL, "/", &save))
    {
      long a = 0, b = 0; sscanf (c, "%ld.%ld", &a, &b);
      bt_clk[bt_nclk].tv_sec = a; bt_clk[bt_nclk].tv_usec = b; bt_nclk++;
    }
  if (strcmp (arrivals, "x") != 0 && sconn && !peer_shut && dbus_connection_get_is_connected (sconn) && dbus_connection_get_unix_fd (sconn, &bt_pfd))
    {
      char *bs, *save1 = NULL;
      for (bs = strtok_r (arrivals, "/", &save1); bs && bt_narr < MAXBATCH; bs = strtok_r (NULL, "/", &save1))
        {
          bt_arr[bt_narr].buf = NULL; bt_arr[bt_narr].len = 0; bt_arr[bt_narr].close_after = 0;
          if (strcmp (bs, "-") != 0)
            {
              char *it, *save2 = NULL;
              for (it = strtok_r (bs, "+", &save2); it; it = strtok_r (NULL, "+", &save2)) batch_add (&bt_arr[bt_narr], it);
            }
          bt_narr++;
        }
    }
  if (!dbus_connection_get_unix_fd (client, &bt_cfd)) bt_cfd = -1;
  if (i < ncalls && bt_nclk > 0)
    {
      bt_active = 1;
      dbus_pending_call_block (calls[i].p);
      bt_active = 0;
    }
  /* whatever the peer had not written yet is written now */
  for (k = bt_ai; k < bt_narr; k++) batch_write (bt_pfd, &bt_arr[k]);
  for (k = 0; k < bt_narr; k++) free (bt_arr[k].buf);
  bt_narr = 0;
}

static void ev_two_threads (int a, int b, char *spec)
{
  struct batch wr; char *it, *save = NULL; size_t off = 0; struct timespec ts; int okA, okB;
  if (a >= ncalls || b >= ncalls || a == b) { emit ("TT-"); return; }
  if (!sconn || peer_shut || !dbus_connection_get_is_connected (sconn) || !dbus_connection_get_unix_fd (sconn, &bt_pfd)
      || !dbus_connection_get_unix_fd (client, &bt_cfd)) { emit ("TT-"); return; }
  wr.buf = NULL; wr.len = 0; wr.close_after = 0;
  for (it = strtok_r (spec, "+", &save); it; it = strtok_r (NULL, "+", &save)) batch_add (&wr, it);
  tt_wake.buf = NULL; tt_wake.len = 0; tt_wake.close_after = 0; batch_add (&tt_wake, "s:#0:999999");
  tt_ca = a; tt_cb = b; tt_a_polled = tt_b_posted = 0; tt_bufA[0] = tt_bufB[0] = 0;
  sem_init (&tt_a_inpoll, 0, 0); sem_init (&tt_a_go, 0, 0); sem_init (&tt_b_waiting, 0, 0);
  tt_active = 1;
  tt_thB = pthread_self ();
  pthread_create (&tt_thA, NULL, tt_run, (void *) 0);
  okA = sem_wait_5s (&tt_a_inpoll);
  pthread_create (&tt_thB, NULL, tt_run, (void *) 1);
  okB = sem_wait_5s (&tt_b_waiting);
  while (off < wr.len) { ssize_t w = write (bt_pfd, wr.buf + off, wr.len - off); if (w <= 0) break; off += (size_t) w; }
  sem_post (&tt_a_go);
  syscall (SYS_clock_gettime, CLOCK_REALTIME, &ts); ts.tv_sec += 20;
  if (pthread_timedjoin_np (tt_thA, NULL, &ts) != 0 || pthread_timedjoin_np (tt_thB, NULL, &ts) != 0)
    { emit ("!hang"); puts (out); fflush (stdout); _exit (96); }
  tt_active = 0;
  emit ("%s%sA[%s]B[%s]", okA ? "" : "!noApoll", okB ? "" : "!noBwait", tt_bufA, tt_bufB);
  free (wr.buf); free (tt_wake.buf);
}

static int argi (const char *s) { return atoi (s); }

static void run_event (char *ev)
{
  char *f[5]; int nf = 0; char *p = ev;
  f[nf++] = p;
  while ((p = strchr (p, ',')) != NULL && nf < 5) { *p++ = 0; f[nf++] = p; }
  switch (f[0][0])
    {
    case 'S': ev_send (nf > 1 ? f[1] : "inf", nf > 2 ? f[2] : "1"); break;
    case 'P': ev_plain (); break;
    case 'M': if (nf >= 4) ev_peer (f[1], f[2], f[3]); break;
    case 'R': dbus_connection_read_write (client, 0); break;
    case 'W': if (read_watch && dbus_watch_get_enabled (read_watch)) { dbus_watch_handle (read_watch, DBUS_WATCH_READABLE); emit ("w"); } else emit ("w-"); break;
    case 'F': { int i = argi (f[1]); if (i < ncalls && calls[i].registered && calls[i].to) { dbus_timeout_handle (calls[i].to); emit ("F"); } else emit ("F-"); break; }
    case 'C': { int i = argi (f[1]); if (i < ncalls) dbus_pending_call_cancel (calls[i].p); break; }
    case 'B':
      if (f[0][1] == 'W') { if (nf >= 3) ev_block_with (argi (f[1]), f[2]); break; }
      if (f[0][1] == 'T') { if (nf >= 5) ev_block_timed (argi (f[1]), f[3], f[4]); break; }
      { int i = argi (f[1]); if (i < ncalls) dbus_pending_call_block (calls[i].p); break; }
    case 'D': { DBusDispatchStatus s = dbus_connection_dispatch (client); emit ("d%d", (int) s); break; }
    case 'T':
      if (f[0][1] == 'T') { if (nf >= 4) ev_two_threads (argi (f[1]), argi (f[2]), f[3]); break; }
      {
        int i = argi (f[1]);
        if (i >= ncalls) { emit ("t-"); break; }
        if (!dbus_pending_call_get_completed (calls[i].p)) emit ("t-");
        else
          {
            DBusMessage *m = dbus_pending_call_steal_reply (calls[i].p);
            if (!m) emit ("t0"); else { emit ("t"); fmt_msg (m, 0); dbus_message_unref (m); }
          }
        break;
      }
    case 'X': if (!peer_shut) drain_peer (); if (sconn && dbus_connection_get_is_connected (sconn)) { dbus_connection_close (sconn); } break;
    case 'L': if (dbus_connection_get_is_connected (client)) dbus_connection_close (client); break;
    default: emit ("?"); break;
    }
}

int main (void)
{
  static char line[65536];
  DBusError err;
  signal (SIGPIPE, SIG_IGN);
  setvbuf (stdout, NULL, _IOLBF, 0);
  dbus_error_init (&err);
  dbus_threads_init_default ();
  server = dbus_server_listen ("unix:tmpdir=/tmp", &err);
  if (!server) { fprintf (stderr, "listen: %s\n", err.message); return 3; }
  dbus_server_set_watch_functions (server, srv_add_watch, srv_remove_watch, srv_toggle_watch, NULL, NULL);
  dbus_server_set_new_connection_function (server, new_conn, NULL, NULL);
  while (fgets (line, sizeof line, stdin))
    {
      char *tok, *save = NULL; int first = 1;
      size_t l = strlen (line);
      while (l && (line[l - 1] == '\n' || line[l - 1] == '\r')) line[--l] = 0;
      outn = 0; out[0] = 0;
      tok = strtok_r (line, " ", &save);
      if (!tok || strcmp (tok, "run") != 0) { puts ("?unknown-command"); continue; }
      alarm (30);
      if (setup ())
        {
          use_shadow = 0;
          while ((tok = strtok_r (NULL, " ", &save)) != NULL)
            {
              if (first && strncmp (tok, "base=", 5) == 0)
                { use_shadow = 1; shadow = (dbus_uint32_t) strtoul (tok + 5, NULL, 10); continue; }
              if (first && strncmp (tok, "realbase=", 9) == 0)
                {
                  dbus_uint32_t target = (dbus_uint32_t) strtoul (tok + 9, NULL, 10), k;
                  alarm (300);
                  for (k = 1; k < target; k++) _dbus_connection_get_next_client_serial (client);
                  continue;
                }
              if (!first) emit (";");
              first = 0;
              run_event (tok);
              state ();
            }
        }
      teardown ();
      alarm (0);
      puts (out);
    }
  dbus_server_disconnect (server);
  dbus_server_unref (server);
  return 0;
}
