/* In-process harness for C07 (package `match`).  Compiles the real
 * bus/signals.c of the tree under test INTO this translation unit (so that the
 * static functions match_rule_matches, match_rule_equal are reachable) and
 * links the rest of the daemon from libdbus-daemon-internal.a.
 *
 * One command per line on stdin, one result line on stdout:
 *   parse <hex>                 L | I | O <rule dump>       (bus_match_rule_parse)
 *   match <hex> <msg>           L | I | 0 | 1               (parse, then match_rule_matches with sender = NULL
 *                                                             (the bus driver), addressed_recipient = NULL, already_matched = 0)
 *   equal <hex> <hex>           X | 0 | 1                   (match_rule_equal on two parsed rules)
 *   uint <hex>                  - | <value> <end>           (_dbus_string_parse_uint at offset 0)
 * <msg> = type path iface member dest args ; "-" = absent ; args = "-" or comma separated s<hex> / o<hex> / x
 * Trusted glue. */
#include "common.h"
#include <dbus/dbus-sysdeps.h>
#include "signals.c"

static void hexs (const char *s, int n) { int i; for (i = 0; i < n; i++) printf ("%02x", (unsigned char) s[i]); }
static void opt (const char *tag, const char *s) { fputs (tag, stdout); if (s == NULL) fputs ("-", stdout); else { fputs ("=", stdout); hexs (s, (int) strlen (s)); } }

static BusMatchRule *parse_hex (const char *h, char *verdict)
{
  int n; unsigned char *b = unhex (h, &n);
  DBusString str; DBusError err; BusMatchRule *r;
  if (!_dbus_string_init (&str)) exit (3);
  if (!_dbus_string_append_len (&str, (const char *) b, n)) exit (3);
  dbus_error_init (&err);
  r = bus_match_rule_parse (NULL, &str, &err);
  if (r == NULL)
    {
      if (dbus_error_has_name (&err, DBUS_ERROR_LIMITS_EXCEEDED)) *verdict = 'L';
      else if (dbus_error_has_name (&err, DBUS_ERROR_MATCH_RULE_INVALID)) *verdict = 'I';
      else *verdict = '?';
      dbus_error_free (&err);
    }
  else *verdict = 'O';
  _dbus_string_free (&str);
  free (b);
  return r;
}

static void dump (BusMatchRule *r)
{
  int i;
  printf ("O fl=%u t=%d ", r->flags, r->message_type);
  opt ("i", r->interface); opt (" m", r->member); opt (" s", r->sender); opt (" d", r->destination); opt (" p", r->path);
  printf (" n=%d a=", r->args_len);
  for (i = 0; i < r->args_len; i++)
    if (r->args[i] != NULL)
      {
        unsigned int l = r->arg_lens[i];
        printf ("%d%s=", i, (l & BUS_MATCH_ARG_IS_PATH) ? "P" : (l & BUS_MATCH_ARG_NAMESPACE) ? "N" : "S");
        hexs (r->args[i], (int) (l & ~BUS_MATCH_ARG_FLAGS));
        fputs (";", stdout);
      }
}

static char *unhex_str (const char *h) { int n; return (char *) unhex (h, &n); }

static DBusMessage *build_msg (char **f)
{
  DBusMessage *m = dbus_message_new (atoi (f[0]));
  DBusMessageIter it;
  char *s;
  if (m == NULL) exit (3);
  if (strcmp (f[1], "-")) { s = unhex_str (f[1]); if (!dbus_message_set_path (m, s)) exit (4); free (s); }
  if (strcmp (f[2], "-")) { s = unhex_str (f[2]); if (!dbus_message_set_interface (m, s)) exit (4); free (s); }
  if (strcmp (f[3], "-")) { s = unhex_str (f[3]); if (!dbus_message_set_member (m, s)) exit (4); free (s); }
  if (strcmp (f[4], "-")) { s = unhex_str (f[4]); if (!dbus_message_set_destination (m, s)) exit (4); free (s); }
  if (strcmp (f[5], "-"))
    {
      char *a = f[5];
      dbus_message_iter_init_append (m, &it);
      while (a && *a)
        {
          char *comma = strchr (a, ',');
          if (comma) *comma = 0;
          if (a[0] == 'x') { dbus_uint32_t u = 7; if (!dbus_message_iter_append_basic (&it, DBUS_TYPE_UINT32, &u)) exit (3); }
          else
            {
              s = unhex_str (a + 1);
              if (!dbus_message_iter_append_basic (&it, a[0] == 'o' ? DBUS_TYPE_OBJECT_PATH : DBUS_TYPE_STRING, &s)) exit (4);
              free (s);
            }
          a = comma ? comma + 1 : NULL;
        }
    }
  return m;
}

int main (void)
{
  static char line[1 << 16];
  while (fgets (line, sizeof line, stdin))
    {
      char *f[16]; int nf = 0; char *tok; char v;
      line[strcspn (line, "\n")] = 0;
      for (tok = strtok (line, " "); tok && nf < 16; tok = strtok (NULL, " ")) f[nf++] = tok;
      if (nf == 0) { puts (""); continue; }
      if (!strcmp (f[0], "parse") && nf == 2)
        {
          BusMatchRule *r = parse_hex (f[1], &v);
          if (r) { dump (r); puts (""); bus_match_rule_unref (r); } else printf ("%c\n", v);
        }
      else if (!strcmp (f[0], "match") && nf == 8)
        {
          BusMatchRule *r = parse_hex (f[1], &v);
          if (!r) printf ("%c\n", v);
          else
            {
              DBusMessage *m = build_msg (f + 2);
              fflush (stdout);
              printf ("%d\n", match_rule_matches (r, NULL, NULL, m, 0) ? 1 : 0);
              dbus_message_unref (m);
              bus_match_rule_unref (r);
            }
        }
      else if (!strcmp (f[0], "equal") && nf == 3)
        {
          char v2; BusMatchRule *a = parse_hex (f[1], &v), *b = parse_hex (f[2], &v2);
          if (a && b) printf ("%d\n", match_rule_equal (a, b) ? 1 : 0); else puts ("X");
          if (a) bus_match_rule_unref (a);
          if (b) bus_match_rule_unref (b);
        }
      else if (!strcmp (f[0], "uint") && nf == 2)
        {
          int n, end = -1; unsigned long val = 0; unsigned char *b = unhex (f[1], &n);
          DBusString str;
          if (!_dbus_string_init (&str) || !_dbus_string_append_len (&str, (const char *) b, n)) exit (3);
          if (_dbus_string_parse_uint (&str, 0, &val, &end)) printf ("%lu %d\n", val, end); else puts ("-");
          _dbus_string_free (&str); free (b);
        }
      else puts ("?bad-command");
      fflush (stdout);
    }
  return 0;
}
