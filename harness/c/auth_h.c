/* auth_h: in-process harness for the server side of the SASL handshake (C08).
 * Drives a real DBusAuth server object the way dbus-transport-socket.c does
 * (get_buffer / return_buffer, do_work, get_bytes_to_send / bytes_sent) with
 * chosen credentials, mechanisms, keyring contents and input chunking.
 * One command per line on stdin, one result line on stdout.
 *
 *   auth uid=U pid=P gids=G mechs=M fdp=B ctx=C keys=K kdir=D steps=S
 *     U,P   decimal or -          G  g.g.g or -        M  * (NULL) or name.name or - (empty array)
 *     C     hex of the cookie context or - (leave the default)
 *     K     id:age_seconds:hexsecret/... or -  (contents of the keyring file before the handshake)
 *     D     ok (0700 dir) | bad (0755 dir, the keyring refuses it) | none (no directory)
 *     S     comma separated steps:
 *             F<hex>            bytes arrive
 *             S<n> | S*         n (all) bytes were written out
 *             R<sephex>:<cchex>:<mode>:<cookiehex|->   cookie response computed from the LAST challenge seen:
 *                               feeds  DATA hex(cc sep H)\r\n  with H = mode(sha1hex(chal ":" cc ":" cookie));
 *                               mode ok|flip|upper|trunc|empty|schal0; cookie - = the secret of the announced id
 *   result:  per step  <rc>:<outgoing hex>   (R steps are preceded by @<hex of the bytes fed>)
 *            then      end <rc> id=<uid>/<pid>/<gids> unused=<hex> fdneg=<b> keyfile=<id:age:secret/...>
 *   keyring ctx=C kdir=D lines=L ops=O     drives a DBusKeyring directly (dbus-keyring.c)
 *     L  items separated by '/':  R<hex> a verbatim line;  K<idhex>,<age>,<secrethex>,<sephex>,<timeprefixhex> writes
 *        id sep timeprefix decimal(now-age) sep secret      O  comma separated: B (_dbus_keyring_get_best_key), H<id> (_dbus_keyring_get_hex_key)
 *     result: now=<t> new=<1|0> then per op  B:<id|-1>  H:<hexkey|->  then keyfile=<id:age:secret/...>
 *   sha1 <hex>      -> _dbus_sha_compute
 *   hexdec <hex>    -> _dbus_string_hex_decode: <end> <decoded hex>
 *   uidstr <hex>    -> _dbus_credentials_add_from_user (FLAGS_NONE): uid or -
 */
#include "common.h"
#include <dbus/dbus-auth.h>
#include <dbus/dbus-credentials.h>
#include <dbus/dbus-sha.h>
#include <dbus/dbus-keyring.h>
#include <dbus/dbus-sysdeps.h>
#include <stdint.h>
#include <time.h>
#include <unistd.h>
#include <sys/stat.h>
#include <dirent.h>

/* ---- independent SHA-1 (FIPS 180-4), not libdbus's ---- */
static uint32_t rol (uint32_t x, int n) { return (x << n) | (x >> (32 - n)); }
static void my_sha1 (const unsigned char *msg, size_t len, char out_hex[41])
{
  uint32_t h[5] = { 0x67452301u, 0xEFCDAB89u, 0x98BADCFEu, 0x10325476u, 0xC3D2E1F0u };
  size_t padded = ((len + 8) / 64 + 1) * 64, off;
  unsigned char *m = calloc (padded, 1);
  uint64_t bits = (uint64_t) len * 8;
  int i;
  memcpy (m, msg, len);
  m[len] = 0x80;
  for (i = 0; i < 8; i++) m[padded - 1 - i] = (unsigned char) (bits >> (8 * i));
  for (off = 0; off < padded; off += 64)
    {
      uint32_t w[80], a = h[0], b = h[1], c = h[2], d = h[3], e = h[4];
      for (i = 0; i < 16; i++)
        w[i] = ((uint32_t) m[off + 4 * i] << 24) | ((uint32_t) m[off + 4 * i + 1] << 16) | ((uint32_t) m[off + 4 * i + 2] << 8) | m[off + 4 * i + 3];
      for (i = 16; i < 80; i++) w[i] = rol (w[i - 3] ^ w[i - 8] ^ w[i - 14] ^ w[i - 16], 1);
      for (i = 0; i < 80; i++)
        {
          uint32_t f, k, t;
          if (i < 20) { f = (b & c) | (~b & d); k = 0x5A827999u; }
          else if (i < 40) { f = b ^ c ^ d; k = 0x6ED9EBA1u; }
          else if (i < 60) { f = (b & c) | (b & d) | (c & d); k = 0x8F1BBCDCu; }
          else { f = b ^ c ^ d; k = 0xCA62C1D6u; }
          t = rol (a, 5) + f + e + k + w[i];
          e = d; d = c; c = rol (b, 30); b = a; a = t;
        }
      h[0] += a; h[1] += b; h[2] += c; h[3] += d; h[4] += e;
    }
  free (m);
  for (i = 0; i < 5; i++) sprintf (out_hex + 8 * i, "%08x", h[i]);
}

static char home[64];
static char last_ctx[512], last_chal[256];
static long last_id;
static int have_chal;

static void rm_rf_keyrings (void)
{
  char dir[128], p[700]; DIR *d; struct dirent *e;
  snprintf (dir, sizeof dir, "%s/.dbus-keyrings", home);
  d = opendir (dir);
  if (d == NULL) return;
  while ((e = readdir (d)) != NULL)
    {
      if (!strcmp (e->d_name, ".") || !strcmp (e->d_name, "..")) continue;
      snprintf (p, sizeof p, "%s/%s", dir, e->d_name);
      unlink (p);
    }
  closedir (d);
  rmdir (dir);
}

static const char *field (char **toks, int n, const char *key)
{
  int i; size_t l = strlen (key);
  for (i = 0; i < n; i++) if (!strncmp (toks[i], key, l) && toks[i][l] == '=') return toks[i] + l + 1;
  return "-";
}

static char rc_letter (DBusAuthState s)
{
  switch (s)
    {
    case DBUS_AUTH_STATE_WAITING_FOR_INPUT: return 'I';
    case DBUS_AUTH_STATE_WAITING_FOR_MEMORY: return 'M';
    case DBUS_AUTH_STATE_HAVE_BYTES_TO_SEND: return 'B';
    case DBUS_AUTH_STATE_NEED_DISCONNECT: return 'D';
    case DBUS_AUTH_STATE_AUTHENTICATED: return 'A';
    default: return '?';
    }
}

/* remember the last non-empty "DATA <hex>" line among the bytes appended to outgoing since old_len */
static void note_challenges (const DBusString *out, int old_len)
{
  const char *p = _dbus_string_get_const_data (out);
  int len = _dbus_string_get_length (out), i = old_len;
  while (i < len)
    {
      int j = i;
      while (j + 1 < len && !(p[j] == '\r' && p[j + 1] == '\n')) j++;
      if (j + 1 >= len) break;
      if (j - i > 5 && !strncmp (p + i, "DATA ", 5))
        {
          int n; char *hex = strndup (p + i + 5, (size_t) (j - i - 5));
          unsigned char *dec = unhex (hex, &n);
          char ctx[512], chal[256]; long id;
          if (n < 700 && !has_nul (dec, n) && sscanf ((char *) dec, "%500s %ld %250s", ctx, &id, chal) == 3)
            { strcpy (last_ctx, ctx); strcpy (last_chal, chal); last_id = id; have_chal = 1; }
          free (dec); free (hex);
        }
      i = j + 2;
    }
}

static DBusAuthState work_and_print (DBusAuth *auth, int old_out_len)
{
  DBusAuthState rc = _dbus_auth_do_work (auth);
  const DBusString *out = NULL;
  putchar (rc_letter (rc)); putchar (':');
  if (_dbus_auth_get_bytes_to_send (auth, &out))
    {
      puthex ((const unsigned char *) _dbus_string_get_const_data (out), _dbus_string_get_length (out));
      note_challenges (out, old_out_len);
    }
  else fputs ("-", stdout);
  putchar (' ');
  if (getenv ("VERIF_FLUSH") != NULL) fflush (stdout);
  return rc;
}

static int out_len (DBusAuth *auth)
{
  const DBusString *out = NULL;
  return _dbus_auth_get_bytes_to_send (auth, &out) ? _dbus_string_get_length (out) : 0;
}

static void feed (DBusAuth *auth, const unsigned char *b, int n)
{
  DBusString *buf;
  _dbus_auth_get_buffer (auth, &buf);
  if (!_dbus_string_append_len (buf, (const char *) b, n)) abort ();
  _dbus_auth_return_buffer (auth, buf);
}

/* secret (hex, as in the file) of key id in the keyring file of context ctx; "" if absent */
static void file_secret (const char *ctx, long id, char *out, size_t cap)
{
  char p[700], line[4096]; FILE *f;
  out[0] = 0;
  snprintf (p, sizeof p, "%s/.dbus-keyrings/%s", home, ctx);
  f = fopen (p, "r");
  if (f == NULL) return;
  while (fgets (line, sizeof line, f))
    {
      long kid, ts; char sec[4000];
      if (sscanf (line, "%ld %ld %3999s", &kid, &ts, sec) == 3 && kid == id) { snprintf (out, cap, "%s", sec); break; }
    }
  fclose (f);
}

static void print_keyfile (const char *ctx)
{
  char p[700], line[4096]; FILE *f; int first = 1; long now = (long) time (NULL);
  fputs (" keyfile=", stdout);
  if (strchr (ctx, '/') != NULL) { fputs ("-", stdout); return; }
  snprintf (p, sizeof p, "%s/.dbus-keyrings/%s", home, ctx);
  f = fopen (p, "r");
  if (f == NULL) { fputs ("-", stdout); return; }
  while (fgets (line, sizeof line, f))
    {
      long kid, ts; char sec[4000];
      if (sscanf (line, "%ld %ld %3999s", &kid, &ts, sec) == 3) { printf ("%s%ld:%ld:%s", first ? "" : "/", kid, now - ts, sec); first = 0; }
    }
  fclose (f);
  if (first) fputs ("-", stdout);
}

/* write the keyring file of context ctx from the line items; returns the time used as "now" */
static long write_key_items (const char *dir, const char *ctx, const char *items)
{
  char p[800]; FILE *f; char *ks = strdup (items), *sv, *k; long now = (long) time (NULL);
  snprintf (p, sizeof p, "%s/%s", dir, ctx);
  f = fopen (p, "w");
  if (f != NULL)
    {
      for (k = strtok_r (ks, "/", &sv); k != NULL; k = strtok_r (NULL, "/", &sv))
        {
          if (k[0] == 'R')
            { int n; unsigned char *b = unhex (k + 1, &n); fwrite (b, 1, (size_t) n, f); fputc ('\n', f); free (b); }
          else if (k[0] == 'K')
            {
              char *a = strdup (k + 1), *sv2, *f_id = strtok_r (a, ",", &sv2), *f_age = strtok_r (NULL, ",", &sv2), *f_sec = strtok_r (NULL, ",", &sv2),
                   *f_sep = strtok_r (NULL, ",", &sv2), *f_tp = strtok_r (NULL, ",", &sv2);
              if (f_id && f_age && f_sec && f_sep && f_tp)
                {
                  int n1, n2, n3, n4; unsigned char *b1 = unhex (f_id, &n1), *b2 = unhex (f_sec, &n2), *b3 = unhex (f_sep, &n3), *b4 = unhex (f_tp, &n4);
                  fwrite (b1, 1, (size_t) n1, f); fwrite (b3, 1, (size_t) n3, f); fwrite (b4, 1, (size_t) n4, f);
                  fprintf (f, "%ld", now - atol (f_age));
                  fwrite (b3, 1, (size_t) n3, f); fwrite (b2, 1, (size_t) n2, f); fputc ('\n', f);
                  free (b1); free (b2); free (b3); free (b4);
                }
              free (a);
            }
        }
      fclose (f);
      chmod (p, 0600);
    }
  free (ks);
  return now;
}

static void print_keyfile (const char *ctx);

static void do_keyring (char **toks, int ntok)
{
  const char *s_ctx = field (toks, ntok, "ctx"), *s_kdir = field (toks, ntok, "kdir"), *s_lines = field (toks, ntok, "lines");
  char *ops = strdup (field (toks, ntok, "ops")), *sv, *op;
  char ctx[600] = "org_freedesktop_general", dir[128];
  DBusString ctxs; DBusKeyring *kr; DBusError err = DBUS_ERROR_INIT; long now;
  rm_rf_keyrings ();
  snprintf (dir, sizeof dir, "%s/.dbus-keyrings", home);
  if (strcmp (s_kdir, "none") != 0) { mkdir (dir, 0700); chmod (dir, !strcmp (s_kdir, "bad") ? 0755 : 0700); }
  if (strcmp (s_ctx, "-") != 0)
    {
      int n; unsigned char *b = unhex (s_ctx, &n);
      if (n > 500 || has_nul (b, n)) { printf ("?bad-context\n"); free (b); free (ops); return; }
      memcpy (ctx, b, (size_t) n); ctx[n] = 0; free (b);
    }
  now = (long) time (NULL);
  if (strcmp (s_lines, "-") != 0 && strcmp (s_kdir, "none") != 0 && strchr (ctx, '/') == NULL && ctx[0] != 0)
    now = write_key_items (dir, ctx, s_lines);
  _dbus_string_init_const (&ctxs, ctx);
  kr = _dbus_keyring_new_for_credentials (NULL, &ctxs, &err);
  printf ("now=%ld new=%d", now, kr != NULL);
  if (kr == NULL) { dbus_error_free (&err); printf (" keyfile=-\n"); free (ops); return; }
  for (op = strtok_r (ops, ",", &sv); op != NULL; op = strtok_r (NULL, ",", &sv))
    {
      if (op[0] == 'B')
        {
          int id = _dbus_keyring_get_best_key (kr, &err);
          printf (" B:%d", id);
          if (id < 0) dbus_error_free (&err);
        }
      else if (op[0] == 'H')
        {
          DBusString hk;
          if (!_dbus_string_init (&hk) || !_dbus_keyring_get_hex_key (kr, atoi (op + 1), &hk)) abort ();
          printf (" H:%s", _dbus_string_get_length (&hk) ? _dbus_string_get_const_data (&hk) : "-");
          _dbus_string_free (&hk);
        }
    }
  _dbus_keyring_unref (kr);
  if (strchr (ctx, '/') == NULL && strchr (ctx, ' ') == NULL) print_keyfile (ctx); else fputs (" keyfile=-", stdout);
  putchar ('\n');
  free (ops);
}

static void do_auth (char **toks, int ntok)
{
  const char *s_uid = field (toks, ntok, "uid"), *s_pid = field (toks, ntok, "pid"), *s_gids = field (toks, ntok, "gids");
  const char *s_mechs = field (toks, ntok, "mechs"), *s_fdp = field (toks, ntok, "fdp"), *s_ctx = field (toks, ntok, "ctx");
  const char *s_keys = field (toks, ntok, "keys"), *s_kdir = field (toks, ntok, "kdir"), *s_items = field (toks, ntok, "keyitems");
  long t_now = (long) time (NULL);
  char *steps = strdup (field (toks, ntok, "steps"));
  char ctx[600] = "org_freedesktop_general";
  char dir[128];
  DBusString guid, ctxs;
  DBusAuth *auth;
  DBusCredentials *cred;
  DBusAuthState rc = DBUS_AUTH_STATE_WAITING_FOR_INPUT;
  char *mech_store = NULL; const char *mechv[16]; int nm = 0;
  char *ctx_to_set = NULL;
  char *save, *st;

  have_chal = 0; last_id = -1; last_ctx[0] = 0; last_chal[0] = 0;
  /* keyring directory */
  rm_rf_keyrings ();
  snprintf (dir, sizeof dir, "%s/.dbus-keyrings", home);
  if (strcmp (s_kdir, "none") != 0)
    {
      mkdir (dir, 0700);
      chmod (dir, !strcmp (s_kdir, "bad") ? 0755 : 0700);
    }
  if (strcmp (s_ctx, "-") != 0)
    {
      int n; unsigned char *b = unhex (s_ctx, &n);
      if (n > 23 || has_nul (b, n)) { printf ("?bad-context\n"); free (b); free (steps); return; }
      memcpy (ctx, b, (size_t) n); ctx[n] = 0; free (b);
      _dbus_string_init_const (&ctxs, ctx);
      ctx_to_set = strdup (ctx);
      /* _dbus_auth_set_context overwrites only the first strlen(new) bytes of the previous
       * (default) context; the keyring file the server will look at is named after the result */
      if (n < (int) strlen ("org_freedesktop_general")) strcat (ctx, "org_freedesktop_general" + n);
    }
  if (strcmp (s_keys, "-") != 0 && strcmp (s_kdir, "none") != 0 && strchr (ctx, '/') == NULL && ctx[0] != 0)
    {
      char p[800]; FILE *f; char *ks = strdup (s_keys), *sv, *k; long now = (long) time (NULL);
      snprintf (p, sizeof p, "%s/%s", dir, ctx);
      f = fopen (p, "w");
      if (f != NULL)
        {
          for (k = strtok_r (ks, "/", &sv); k != NULL; k = strtok_r (NULL, "/", &sv))
            {
              long id, age; char sec[4000];
              if (sscanf (k, "%ld:%ld:%3999s", &id, &age, sec) == 3) fprintf (f, "%ld %ld %s\n", id, now - age, sec);
            }
          fclose (f);
          chmod (p, 0600);
        }
      free (ks);
    }
  if (strcmp (s_items, "-") != 0 && strcmp (s_kdir, "none") != 0 && strchr (ctx, '/') == NULL && ctx[0] != 0)
    t_now = write_key_items (dir, ctx, s_items);
  _dbus_string_init_const (&guid, "feedfacefeedfacefeedfacefeedface");
  auth = _dbus_auth_server_new (&guid);
  if (auth == NULL) abort ();
  if (strcmp (s_mechs, "*") != 0)
    {
      char *sv, *k;
      mech_store = strdup (s_mechs);
      if (strcmp (s_mechs, "-") != 0)
        for (k = strtok_r (mech_store, ".", &sv); k != NULL && nm < 15; k = strtok_r (NULL, ".", &sv)) mechv[nm++] = k;
      mechv[nm] = NULL;
      if (!_dbus_auth_set_mechanisms (auth, mechv)) abort ();
    }
  cred = _dbus_credentials_new ();
  if (cred == NULL) abort ();
  if (strcmp (s_uid, "-") != 0 && !_dbus_credentials_add_unix_uid (cred, strtoul (s_uid, NULL, 10))) abort ();
  if (strcmp (s_pid, "-") != 0 && !_dbus_credentials_add_pid (cred, strtoul (s_pid, NULL, 10))) abort ();
  if (strcmp (s_gids, "-") != 0)
    {
      char *gs = strdup (s_gids), *sv, *k; dbus_gid_t *g = dbus_new (dbus_gid_t, 32); size_t ng = 0;
      for (k = strtok_r (gs, ".", &sv); k != NULL && ng < 32; k = strtok_r (NULL, ".", &sv)) g[ng++] = strtoul (k, NULL, 10);
      _dbus_credentials_take_unix_gids (cred, g, ng);
      free (gs);
    }
  if (!_dbus_auth_set_credentials (auth, cred)) abort ();
  _dbus_auth_set_unix_fd_possible (auth, !strcmp (s_fdp, "1"));
  if (ctx_to_set != NULL)
    {
      _dbus_string_init_const (&ctxs, ctx_to_set);
      if (!_dbus_auth_set_context (auth, &ctxs)) abort ();
    }

  for (st = strtok_r (steps, ",", &save); st != NULL; st = strtok_r (NULL, ",", &save))
    {
      if (st[0] == 'F')
        {
          int n, ol = out_len (auth); unsigned char *b = unhex (st + 1, &n);
          feed (auth, b, n); free (b);
          rc = work_and_print (auth, ol);
        }
      else if (st[0] == 'S')
        {
          int ol = out_len (auth), n = (st[1] == '*') ? ol : atoi (st + 1);
          if (n > ol) n = ol;
          if (n > 0) _dbus_auth_bytes_sent (auth, n);
          rc = work_and_print (auth, ol - n);
        }
      else if (st[0] == 'R')
        {
          /* R<sephex>:<cchex>:<mode>:<cookie|-> */
          char *a = strdup (st + 1), *sv, *f_sep = strtok_r (a, ":", &sv), *f_cc = strtok_r (NULL, ":", &sv), *f_mode = strtok_r (NULL, ":", &sv), *f_ck = strtok_r (NULL, ":", &sv);
          int nsep, ncc, i, ol; unsigned char *sep, *cc; char cookie[4000], hash[41], *pre; unsigned char *plain; size_t pl, hl;
          char *linebuf; size_t ll;
          if (f_sep == NULL || f_cc == NULL || f_mode == NULL || f_ck == NULL) { printf ("?bad-step "); free (a); continue; }
          sep = unhex (f_sep, &nsep); cc = unhex (f_cc, &ncc);
          if (strcmp (f_ck, "-") == 0) { if (have_chal) file_secret (last_ctx, last_id, cookie, sizeof cookie); else cookie[0] = 0; }
          else snprintf (cookie, sizeof cookie, "%s", f_ck);
          pl = strlen (last_chal) + 1 + (size_t) ncc + 1 + strlen (cookie);
          pre = malloc (pl + 1);
          if (!strcmp (f_mode, "schal0")) { memset (pre, '0', strlen (last_chal)); }
          else memcpy (pre, last_chal, strlen (last_chal));
          pre[strlen (last_chal)] = ':';
          memcpy (pre + strlen (last_chal) + 1, cc, (size_t) ncc);
          pre[strlen (last_chal) + 1 + (size_t) ncc] = ':';
          memcpy (pre + strlen (last_chal) + 2 + (size_t) ncc, cookie, strlen (cookie));
          my_sha1 ((unsigned char *) pre, pl, hash);
          free (pre);
          if (!strcmp (f_mode, "flip")) hash[39] = (hash[39] == '0') ? '1' : '0';
          else if (!strcmp (f_mode, "upper")) { for (i = 0; i < 40; i++) if (hash[i] >= 'a') hash[i] = (char) (hash[i] - 32); }
          else if (!strcmp (f_mode, "trunc")) hash[39] = 0;
          else if (!strcmp (f_mode, "empty")) hash[0] = 0;
          hl = strlen (hash);
          plain = malloc ((size_t) ncc + (size_t) nsep + hl + 1);
          memcpy (plain, cc, (size_t) ncc); memcpy (plain + ncc, sep, (size_t) nsep); memcpy (plain + ncc + nsep, hash, hl);
          pl = (size_t) ncc + (size_t) nsep + hl;
          ll = 5 + 2 * pl + 2;
          linebuf = malloc (ll + 1);
          memcpy (linebuf, "DATA ", 5);
          for (i = 0; i < (int) pl; i++) sprintf (linebuf + 5 + 2 * i, "%02x", plain[i]);
          memcpy (linebuf + 5 + 2 * pl, "\r\n", 2);
          putchar ('@'); puthex ((unsigned char *) linebuf, (int) ll); putchar (' ');
          if (getenv ("VERIF_FLUSH") != NULL) fflush (stdout);
          ol = out_len (auth);
          feed (auth, (unsigned char *) linebuf, (int) ll);
          rc = work_and_print (auth, ol);
          free (linebuf); free (plain); free (sep); free (cc); free (a);
        }
      else printf ("?bad-step ");
    }
  /* final: everything written out, one more do_work */
  {
    int ol = out_len (auth);
    if (ol > 0) _dbus_auth_bytes_sent (auth, ol);
    rc = _dbus_auth_do_work (auth);
    printf ("end %c", rc_letter (rc));
    if (rc == DBUS_AUTH_STATE_AUTHENTICATED)
      {
        DBusCredentials *id = _dbus_auth_get_identity (auth);
        const dbus_gid_t *g = NULL; size_t ng = 0, i;
        fputs (" id=", stdout);
        if (_dbus_credentials_include (id, DBUS_CREDENTIAL_UNIX_USER_ID)) printf ("%lu", (unsigned long) _dbus_credentials_get_unix_uid (id)); else putchar ('-');
        putchar ('/');
        if (_dbus_credentials_include (id, DBUS_CREDENTIAL_UNIX_PROCESS_ID)) printf ("%lu", (unsigned long) _dbus_credentials_get_pid (id)); else putchar ('-');
        putchar ('/');
        if (_dbus_credentials_get_unix_gids (id, &g, &ng) && ng > 0)
          for (i = 0; i < ng; i++) printf ("%s%lu", i ? "." : "", (unsigned long) g[i]);
        else putchar ('-');
      }
    else fputs (" id=N", stdout);
    if (rc == DBUS_AUTH_STATE_AUTHENTICATED || rc == DBUS_AUTH_STATE_NEED_DISCONNECT)
      {
        const DBusString *un = NULL;
        _dbus_auth_get_unused_bytes (auth, &un);
        fputs (" unused=", stdout);
        if (un != NULL) puthex ((const unsigned char *) _dbus_string_get_const_data (un), _dbus_string_get_length (un)); else putchar ('N');
      }
    else fputs (" unused=N", stdout);
    printf (" fdneg=%d now=%ld", _dbus_auth_get_unix_fd_negotiated (auth) ? 1 : 0, t_now);
    print_keyfile (ctx);
    putchar ('\n');
  }
  _dbus_credentials_unref (cred);
  _dbus_auth_unref (auth);
  free (mech_store);
  free (ctx_to_set);
  free (steps);
}

int main (void)
{
  char *line = NULL; size_t cap = 0; ssize_t got;
  snprintf (home, sizeof home, "/tmp/verif_c08_%ld_XXXXXX", (long) getpid ());
  if (mkdtemp (home) == NULL) { perror ("mkdtemp"); return 2; }
  setenv ("DBUS_TEST_HOMEDIR", home, 1);
  while ((got = getline (&line, &cap, stdin)) > 0)
    {
      char *toks[32]; int n = 0; char *sv, *t;
      if (line[got - 1] == '\n') line[got - 1] = 0;
      for (t = strtok_r (line, " ", &sv); t != NULL && n < 32; t = strtok_r (NULL, " ", &sv)) toks[n++] = t;
      if (n == 0) { printf ("\n"); continue; }
      if (!strcmp (toks[0], "auth")) do_auth (toks + 1, n - 1);
      else if (!strcmp (toks[0], "keyring")) do_keyring (toks + 1, n - 1);
      else if (!strcmp (toks[0], "sha1") && n >= 2)
        {
          int len; unsigned char *b = unhex (toks[1], &len); DBusString in, out; char mine[41];
          _dbus_string_init_const_len (&in, (const char *) b, len);
          if (!_dbus_string_init (&out) || !_dbus_sha_compute (&in, &out)) abort ();
          my_sha1 (b, (size_t) len, mine);
          printf ("%s %s\n", _dbus_string_get_const_data (&out), mine);
          _dbus_string_free (&out); free (b);
        }
      else if (!strcmp (toks[0], "hexdec") && n >= 2)
        {
          int len, end = -1; unsigned char *b = unhex (toks[1], &len); DBusString in, out;
          _dbus_string_init_const_len (&in, (const char *) b, len);
          if (!_dbus_string_init (&out) || !_dbus_string_hex_decode (&in, 0, &end, &out, 0)) abort ();
          printf ("%d ", end); puthex ((const unsigned char *) _dbus_string_get_const_data (&out), _dbus_string_get_length (&out)); putchar ('\n');
          _dbus_string_free (&out); free (b);
        }
      else if (!strcmp (toks[0], "uidstr") && n >= 2)
        {
          int len; unsigned char *b = unhex (toks[1], &len); DBusString in; DBusCredentials *c = _dbus_credentials_new (); DBusError err = DBUS_ERROR_INIT;
          _dbus_string_init_const_len (&in, (const char *) b, len);
          if (_dbus_credentials_add_from_user (c, &in, DBUS_CREDENTIALS_ADD_FLAGS_NONE, &err))
            {
              if (_dbus_credentials_include (c, DBUS_CREDENTIAL_UNIX_USER_ID)) printf ("%lu\n", (unsigned long) _dbus_credentials_get_unix_uid (c));
              else printf ("unset\n");
            }
          else { printf ("-\n"); dbus_error_free (&err); }
          _dbus_credentials_unref (c); free (b);
        }
      else printf ("?unknown-command\n");
    }
  free (line);
  rm_rf_keyrings ();
  rmdir (home);
  fflush (stdout);
  return 0;
}
