/* shared helpers for the in-process harnesses (trusted glue) */
#ifndef VERIF_COMMON_H
#define VERIF_COMMON_H
#include <config.h>
#include <stdio.h>
#include <stdlib.h>
#include <string.h>
#include <dbus/dbus.h>
#include <dbus/dbus-internals.h>
#include <dbus/dbus-string.h>

static int hexval (int c) { if (c >= '0' && c <= '9') return c - '0'; if (c >= 'a' && c <= 'f') return c - 'a' + 10; if (c >= 'A' && c <= 'F') return c - 'A' + 10; return -1; }

/* decode hex ("-" = empty) into a malloc'd buffer of exactly n bytes (+1 NUL) */
static unsigned char *unhex (const char *h, int *n)
{
  size_t l; unsigned char *b; size_t i;
  if (strcmp (h, "-") == 0) h = "";
  l = strlen (h) / 2;
  b = malloc (l + 1);
  for (i = 0; i < l; i++) b[i] = (unsigned char) (hexval (h[2 * i]) * 16 + hexval (h[2 * i + 1]));
  b[l] = 0;
  *n = (int) l;
  return b;
}

static void puthex (const unsigned char *b, int n)
{
  int i;
  if (n == 0) { fputs ("-", stdout); return; }
  for (i = 0; i < n; i++) printf ("%02x", b[i]);
}

static int has_nul (const unsigned char *b, int n) { return memchr (b, 0, (size_t) n) != NULL; }
#endif
