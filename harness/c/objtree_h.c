/* objtree_h: harness for the object-path tree and message dispatch (C20).
 * One history per line on stdin, one result line on stdout (see ml/objtree/driver.ml
 * for the op syntax).  First token selects the entry level:
 *   c  a real DBusConnection pair (private client connection = host of the tree + the
 *      connection a DBusServer in this process accepted for it = the peer, over a unix
 *      socket); handlers are registered on the host with dbus_connection_try_register_*,
 *      messages are sent from the peer and whatever comes back for them (method return
 *      from a callback / automatic error / default Introspect XML / Peer built-ins /
 *      nothing) is what gets reported;
 *   t  the internal _dbus_object_tree_* API on a tree without connection (volume);
 *      here the H/M/O letter is derived from the DBusHandlerResult and *found_object.
 *
 * All callbacks (object-path handlers and connection filters) are one scripted
 * function: it logs its id; if its id is in the current out-of-memory set and has not
 * yet said so for this message it returns NEED_MEMORY; otherwise it performs the
 * register/unregister actions scripted for its id and returns HANDLED (after sending a
 * method return when the message is a method call) or NOT_YET_HANDLED.
 */
#include "common.h"
#include <stdint.h>
#include <dbus/dbus-object-tree.h>
#include <dbus/dbus-syntax.h>

#define IFACE "com.example.Verif"
#define MAXLOG 512
#define MAXACT 64

static int inv_log[MAXLOG];
static int n_inv;
static int unreg_log[MAXLOG];
static int n_unreg;

static DBusConnection *host, *caller;   /* host: tree under test; caller: peer */
static DBusObjectTree *cur_tree;        /* mode t */

/* script of the message being dispatched */
static dbus_uint64_t cur_accept, cur_oom, oom_used;
static struct { int id; char kind; char path[160]; int hid; } acts[MAXACT];
static int n_acts;

static void unreg_cb (DBusConnection *c, void *data) { (void) c; if (n_unreg < MAXLOG) unreg_log[n_unreg++] = (int) (intptr_t) data; }
static DBusHandlerResult scripted_cb (DBusConnection *c, DBusMessage *m, void *data);
static const DBusObjectPathVTable vtable = { unreg_cb, scripted_cb, NULL, NULL, NULL, NULL };

static dbus_bool_t do_register (int fallback, const char *path, int id, DBusError *e)
{
  void *ud = (void *) (intptr_t) id;
  if (host != NULL)
    return fallback ? dbus_connection_try_register_fallback (host, path, &vtable, ud, e)
                    : dbus_connection_try_register_object_path (host, path, &vtable, ud, e);
  else
    {
      char **dec = NULL; dbus_bool_t ok;
      if (!_dbus_decompose_path (path, (int) strlen (path), &dec, NULL)) abort ();
      ok = _dbus_object_tree_register (cur_tree, fallback, (const char **) dec, &vtable, ud, e);
      dbus_free_string_array (dec);
      return ok;
    }
}

static void do_unregister (const char *path)
{
  if (host != NULL) { if (!dbus_connection_unregister_object_path (host, path)) abort (); }
  else
    {
      char **dec = NULL;
      if (!_dbus_decompose_path (path, (int) strlen (path), &dec, NULL)) abort ();
      _dbus_object_tree_unregister_and_unlock (cur_tree, (const char **) dec);
      dbus_free_string_array (dec);
    }
}

static DBusHandlerResult scripted_cb (DBusConnection *c, DBusMessage *m, void *data)
{
  int id = (int) (intptr_t) data, i;
  dbus_uint64_t bit = (id >= 0 && id < 64) ? ((dbus_uint64_t) 1) << id : 0;
  if (n_inv < MAXLOG) inv_log[n_inv++] = id;
  if ((cur_oom & bit) && !(oom_used & bit)) { oom_used |= bit; return DBUS_HANDLER_RESULT_NEED_MEMORY; }
  for (i = 0; i < n_acts; i++)
    if (acts[i].id == id)
      {
        if (acts[i].kind == 'u') do_unregister (acts[i].path);
        else { DBusError e = DBUS_ERROR_INIT; do_register (acts[i].kind == 'f', acts[i].path, acts[i].hid, &e); dbus_error_free (&e); }
      }
  if (cur_accept & bit)
    {
      if (c != NULL && dbus_message_get_type (m) == DBUS_MESSAGE_TYPE_METHOD_CALL)
        {
          dbus_uint32_t v = (dbus_uint32_t) id;
          DBusMessage *r = dbus_message_new_method_return (m);
          if (r == NULL || !dbus_message_append_args (r, DBUS_TYPE_UINT32, &v, DBUS_TYPE_INVALID) ||
              !dbus_connection_send (c, r, NULL)) abort ();
          dbus_message_unref (r);
        }
      return DBUS_HANDLER_RESULT_HANDLED;
    }
  return DBUS_HANDLER_RESULT_NOT_YET_HANDLED;
}

static void script_clear (void) { cur_accept = cur_oom = oom_used = 0; n_acts = 0; }

static dbus_uint64_t parse_mask (const char *s)
{
  dbus_uint64_t m = 0;
  if (s == NULL || !strcmp (s, "-")) return 0;
  while (*s)
    {
      int id = (int) strtol (s, (char **) &s, 10);
      if (id >= 0 && id < 64) m |= ((dbus_uint64_t) 1) << id;
      if (*s == ',') s++;
    }
  return m;
}

/* "<id>=<op>+<op>;<id>=<op>" with op  r~/path~hid | f~/path~hid | u~/path */
static void parse_actions (char *s)
{
  char *save1 = NULL, *grp;
  n_acts = 0;
  if (s == NULL || !strcmp (s, "-")) return;
  for (grp = strtok_r (s, ";", &save1); grp != NULL; grp = strtok_r (NULL, ";", &save1))
    {
      char *eq = strchr (grp, '='), *save2 = NULL, *o;
      int id;
      if (eq == NULL) continue;
      *eq++ = 0; id = atoi (grp);
      for (o = strtok_r (eq, "+", &save2); o != NULL; o = strtok_r (NULL, "+", &save2))
        {
          char *p1 = strchr (o, '~'), *p2;
          if (p1 == NULL || n_acts >= MAXACT) continue;
          *p1++ = 0; p2 = strchr (p1, '~');
          if (p2 != NULL) *p2++ = 0;
          acts[n_acts].id = id; acts[n_acts].kind = o[0];
          snprintf (acts[n_acts].path, sizeof acts[n_acts].path, "%s", p1);
          acts[n_acts].hid = p2 ? atoi (p2) : 0;
          n_acts++;
        }
    }
}

/* ---- connection pair ---------------------------------------------------- */
static DBusServer *server;
static DBusWatch *server_watches[8];
static int n_server_watches;
static DBusConnection *accepted;

static dbus_bool_t add_watch (DBusWatch *w, void *d) { (void) d; if (n_server_watches < 8) server_watches[n_server_watches++] = w; return TRUE; }
static void remove_watch (DBusWatch *w, void *d)
{
  int i; (void) d;
  for (i = 0; i < n_server_watches; i++)
    if (server_watches[i] == w) { server_watches[i] = server_watches[--n_server_watches]; break; }
}
static void toggle_watch (DBusWatch *w, void *d) { (void) w; (void) d; }
static void new_conn (DBusServer *s, DBusConnection *c, void *d) { (void) s; (void) d; accepted = dbus_connection_ref (c); }

static void server_init (void)
{
  DBusError e = DBUS_ERROR_INIT;
  server = dbus_server_listen ("unix:tmpdir=/tmp", &e);
  if (server == NULL) { fprintf (stderr, "listen: %s\n", e.message); abort (); }
  dbus_server_set_new_connection_function (server, new_conn, NULL, NULL);
  if (!dbus_server_set_watch_functions (server, add_watch, remove_watch, toggle_watch, NULL, NULL)) abort ();
}

/* peer side: remember what comes back for the message under test; answer Echo calls */
static dbus_uint32_t want_serial;
static DBusMessage *got_reply;

static DBusHandlerResult caller_filter (DBusConnection *c, DBusMessage *m, void *d)
{
  (void) d;
  if (want_serial != 0 && dbus_message_get_reply_serial (m) == want_serial && got_reply == NULL)
    {
      got_reply = dbus_message_ref (m);
      return DBUS_HANDLER_RESULT_HANDLED;
    }
  if (dbus_message_is_method_call (m, IFACE, "Echo"))
    {
      DBusMessage *r = dbus_message_new_method_return (m);
      if (r == NULL || !dbus_connection_send (c, r, NULL)) abort ();
      dbus_message_unref (r);
      return DBUS_HANDLER_RESULT_HANDLED;
    }
  return DBUS_HANDLER_RESULT_NOT_YET_HANDLED;
}

static void pump (void)
{
  dbus_connection_read_write_dispatch (host, 0);
  dbus_connection_read_write_dispatch (caller, 0);
}

static void pair_open (void)
{
  DBusError e = DBUS_ERROR_INIT;
  char *addr = dbus_server_get_address (server);
  int i, guard = 0;
  accepted = NULL;
  host = dbus_connection_open_private (addr, &e);
  dbus_free (addr);
  if (host == NULL) { fprintf (stderr, "open: %s\n", e.message); abort (); }
  dbus_connection_set_exit_on_disconnect (host, FALSE);
  while (accepted == NULL && guard++ < 1000)
    for (i = 0; i < n_server_watches; i++)
      if (dbus_watch_get_enabled (server_watches[i]))
        dbus_watch_handle (server_watches[i], DBUS_WATCH_READABLE);
  if (accepted == NULL) abort ();
  caller = accepted;
  dbus_connection_set_exit_on_disconnect (caller, FALSE);
  if (!dbus_connection_add_filter (caller, caller_filter, NULL, NULL)) abort ();
  guard = 0;
  while ((!dbus_connection_get_is_authenticated (host) || !dbus_connection_get_is_authenticated (caller)) && guard++ < 100000)
    pump ();
  if (!dbus_connection_get_is_authenticated (host) || !dbus_connection_get_is_authenticated (caller)) abort ();
}

static void pair_close (void)
{
  script_clear ();
  dbus_connection_close (host);
  dbus_connection_close (caller);
  { int guard = 0;
    while (dbus_connection_dispatch (host) == DBUS_DISPATCH_DATA_REMAINS && guard++ < 1000) ;
    guard = 0;
    while (dbus_connection_dispatch (caller) == DBUS_DISPATCH_DATA_REMAINS && guard++ < 1000) ; }
  dbus_connection_unref (host);      /* last reference: _dbus_object_tree_free_all_unlocked runs */
  dbus_connection_unref (caller);
  host = caller = NULL;
}

/* send a call from the peer, wait for its reply */
static DBusMessage *roundtrip (DBusMessage *m)
{
  DBusPendingCall *pc = NULL;
  DBusMessage *r;
  long guard = 0;
  if (!dbus_connection_send_with_reply (caller, m, &pc, 60000) || pc == NULL) abort ();
  while (!dbus_pending_call_get_completed (pc) && guard++ < 200000L)
    pump ();
  r = dbus_pending_call_steal_reply (pc);
  dbus_pending_call_unref (pc);
  if (r == NULL) abort ();
  return r;
}

/* send any message from the peer; a Peer.Ping round trip behind it is the barrier: messages are
 * dispatched in order, so when the Ping answer is here the message has been dealt with completely */
static DBusMessage *send_and_settle (DBusMessage *m)
{
  DBusMessage *ping, *pr, *r;
  got_reply = NULL; want_serial = 0;
  if (!dbus_connection_send (caller, m, &want_serial)) abort ();
  ping = dbus_message_new_method_call (NULL, "/", DBUS_INTERFACE_PEER, "Ping");
  if (ping == NULL) abort ();
  pr = roundtrip (ping);
  dbus_message_unref (ping);
  dbus_message_unref (pr);
  r = got_reply; got_reply = NULL; want_serial = 0;
  return r;
}

/* ---- output helpers ------------------------------------------------------ */
static int first_tok = 1;
static void sep (void) { if (!first_tok) putchar (' '); first_tok = 0; }

static void print_ids (const int *v, int n)
{
  int i;
  if (n == 0) putchar ('-');
  for (i = 0; i < n; i++) printf ("%s%d", i ? "," : "", v[i]);
}

static void print_names (char **v)
{
  int i;
  if (v == NULL || v[0] == NULL) { putchar ('-'); return; }
  for (i = 0; v[i] != NULL; i++) printf ("%s%s", i ? "," : "", v[i]);
}

/* child names out of the default Introspect XML */
static void print_xml_children (const char *xml)
{
  const char *p = xml; int n = 0;
  while ((p = strstr (p, "<node name=\"")) != NULL)
    {
      const char *q;
      p += strlen ("<node name=\"");
      q = strchr (p, '"');
      if (q == NULL) break;
      printf ("%s%.*s", n ? "," : "", (int) (q - p), p);
      n++;
      p = q;
    }
  if (n == 0) putchar ('-');
}

/* H return from a scripted callback, P empty return (Peer.Ping), G return with a string or an error
 * other than the two below (Peer.GetMachineId), I<children> Introspect XML, M / O errors, N nothing */
static void print_reply (DBusMessage *r, int expect_xml)
{
  const char *s = NULL; dbus_uint32_t u;
  if (r == NULL) { putchar ('N'); return; }
  if (dbus_message_get_type (r) == DBUS_MESSAGE_TYPE_METHOD_RETURN)
    {
      if (dbus_message_get_args (r, NULL, DBUS_TYPE_UINT32, &u, DBUS_TYPE_INVALID)) putchar ('H');
      else if (dbus_message_get_args (r, NULL, DBUS_TYPE_STRING, &s, DBUS_TYPE_INVALID))
        {
          if (expect_xml || strstr (s, "<node") != NULL) { putchar ('I'); print_xml_children (s); }
          else putchar ('G');
        }
      else putchar ('P');
    }
  else if (dbus_message_is_error (r, DBUS_ERROR_UNKNOWN_METHOD)) putchar ('M');
  else if (dbus_message_is_error (r, DBUS_ERROR_UNKNOWN_OBJECT)) putchar ('O');
  else if (dbus_message_get_type (r) == DBUS_MESSAGE_TYPE_ERROR) putchar ('G');
  else printf ("?type%d", dbus_message_get_type (r));
}

static DBusMessage *make_message (const char *kind, const char *path)
{
  DBusMessage *m;
  const char *iface = kind[1] == 'p' ? DBUS_INTERFACE_PEER : kind[1] == 'i' ? DBUS_INTERFACE_INTROSPECTABLE : kind[1] == 'o' ? IFACE : NULL;
  const char *member = kind[2] == 'p' ? "Ping" : kind[2] == 'g' ? "GetMachineId" : kind[2] == 'i' ? "Introspect" : kind[2] == 'x' ? "Act" : NULL;
  int type = kind[0] == 'c' ? DBUS_MESSAGE_TYPE_METHOD_CALL : kind[0] == 's' ? DBUS_MESSAGE_TYPE_SIGNAL :
             kind[0] == 'r' ? DBUS_MESSAGE_TYPE_METHOD_RETURN : DBUS_MESSAGE_TYPE_ERROR;
  m = dbus_message_new (type);
  if (m == NULL) abort ();
  if (strcmp (path, "-") != 0 && !dbus_message_set_path (m, path)) abort ();
  if (iface != NULL && !dbus_message_set_interface (m, iface)) abort ();
  if (member != NULL && !dbus_message_set_member (m, member)) abort ();
  if (type == DBUS_MESSAGE_TYPE_ERROR && !dbus_message_set_error_name (m, "com.example.Verif.Error")) abort ();
  if ((type == DBUS_MESSAGE_TYPE_ERROR || type == DBUS_MESSAGE_TYPE_METHOD_RETURN) &&
      !dbus_message_set_reply_serial (m, 0x7fff0001u)) abort ();      /* names no pending call */
  return m;
}

/* ---- one history ---------------------------------------------------------- */
static char *next_field (char **s)
{
  char *r = *s, *c;
  if (r == NULL) return NULL;
  c = strchr (r, ':');
  if (c != NULL) { *c = 0; *s = c + 1; } else *s = NULL;
  return r;
}

static void run_history (int conn_mode, char *rest)
{
  char *save = NULL, *tok;
  int closed = 0;
  first_tok = 1;
  n_unreg = 0;
  script_clear ();
  if (conn_mode) pair_open ();
  else { cur_tree = _dbus_object_tree_new (NULL); if (cur_tree == NULL) abort (); }

  for (tok = strtok_r (rest, " ", &save); tok != NULL; tok = strtok_r (NULL, " ", &save))
    {
      char kind = tok[0];
      char *fields = (tok[1] == ':') ? tok + 2 : NULL;
      char *path = next_field (&fields);
      char *arg = next_field (&fields);
      char **dec = NULL;
      sep ();
      if (closed || (path == NULL && kind != 'z' && kind != 'p')) { printf ("?bad-op"); continue; }
      if (!conn_mode && path != NULL && path[0] == '/' && !_dbus_decompose_path (path, (int) strlen (path), &dec, NULL)) abort ();
      script_clear ();
      switch (kind)
        {
        case 'r': case 'f':
          {
            DBusError e = DBUS_ERROR_INIT;
            dbus_bool_t ok = do_register (kind == 'f', path, atoi (arg ? arg : "0"), &e);
            if (ok) printf (dbus_error_is_set (&e) ? "1!error-set" : "1");
            else if (dbus_error_has_name (&e, DBUS_ERROR_OBJECT_PATH_IN_USE)) printf ("0");
            else printf ("0![%s]", dbus_error_is_set (&e) ? e.name : "no-error");
            dbus_error_free (&e);
            break;
          }
        case 'u':
          {
            int before = n_unreg;
            do_unregister (path);
            printf ("u%d", n_unreg - before);
            break;
          }
        case 'F': case 'G':      /* add / remove a connection filter */
          {
            void *ud = (void *) (intptr_t) atoi (path);
            if (!conn_mode) { printf ("?bad-op"); break; }
            if (kind == 'F') { if (!dbus_connection_add_filter (host, scripted_cb, ud, NULL)) abort (); }
            else dbus_connection_remove_filter (host, scripted_cb, ud);
            printf ("-");
            break;
          }
        case 'c': case 'i':
          {
            DBusMessage *m = kind == 'c' ? dbus_message_new_method_call (NULL, path, IFACE, "Act")
                                         : dbus_message_new_method_call (NULL, path, DBUS_INTERFACE_INTROSPECTABLE, "Introspect");
            if (m == NULL) abort ();
            cur_accept = kind == 'c' ? parse_mask (arg) : 0;
            n_inv = 0;
            if (conn_mode)
              {
                DBusMessage *r = roundtrip (m);
                printf ("%c=", kind); print_ids (inv_log, n_inv); putchar (':');
                if (kind == 'c')
                  {
                    if (dbus_message_get_type (r) == DBUS_MESSAGE_TYPE_METHOD_RETURN) putchar ('H');
                    else if (dbus_message_is_error (r, DBUS_ERROR_UNKNOWN_METHOD)) putchar ('M');
                    else if (dbus_message_is_error (r, DBUS_ERROR_UNKNOWN_OBJECT)) putchar ('O');
                    else printf ("E[%s]", dbus_message_get_error_name (r) ? dbus_message_get_error_name (r) : "?");
                  }
                else
                  {
                    const char *xml = NULL;
                    if (dbus_message_get_type (r) == DBUS_MESSAGE_TYPE_METHOD_RETURN &&
                        dbus_message_get_args (r, NULL, DBUS_TYPE_STRING, &xml, DBUS_TYPE_INVALID))
                      print_xml_children (xml);
                    else printf ("!err");
                  }
                dbus_message_unref (r);
              }
            else
              {
                dbus_bool_t found = 2;
                DBusHandlerResult res = _dbus_object_tree_dispatch_and_unlock (cur_tree, m, &found);
                printf ("%c=", kind); print_ids (inv_log, n_inv); putchar (':');
                if (kind == 'i') printf ("?bad-op");   /* no connection, no reply: the default Introspect cannot run */
                else if (res == DBUS_HANDLER_RESULT_HANDLED) putchar ('H');
                else if (res == DBUS_HANDLER_RESULT_NOT_YET_HANDLED)
                  {
                    if (found == TRUE) putchar ('M'); else if (found == FALSE) putchar ('O'); else printf ("!found%d", (int) found);
                  }
                else printf ("!res%d", (int) res);
              }
            dbus_message_unref (m);
            break;
          }
        case 'd':    /* d:<path|->:<accept>:<oom>:<kind>:<actions> — any message through the whole dispatch */
          {
            char *oom = next_field (&fields), *mk = next_field (&fields), *ac = next_field (&fields);
            DBusMessage *m, *r;
            if (!conn_mode || mk == NULL || strlen (mk) != 3) { printf ("?bad-op"); break; }
            cur_accept = parse_mask (arg); cur_oom = parse_mask (oom); oom_used = 0;
            parse_actions (ac);
            m = make_message (mk, path);
            n_inv = 0;
            r = send_and_settle (m);
            printf ("d="); print_ids (inv_log, n_inv); putchar (':');
            print_reply (r, mk[2] == 'i');
            if (r != NULL) dbus_message_unref (r);
            dbus_message_unref (m);
            break;
          }
        case 'p':    /* the host calls the peer; the reply must go to the pending call and to nobody else */
          {
            DBusMessage *m = dbus_message_new_method_call (NULL, "/peer", IFACE, "Echo"), *r;
            DBusPendingCall *pc = NULL; long guard = 0;
            if (!conn_mode || m == NULL) { printf ("?bad-op"); break; }
            cur_accept = parse_mask (path);
            n_inv = 0;
            if (!dbus_connection_send_with_reply (host, m, &pc, 60000) || pc == NULL) abort ();
            while (!dbus_pending_call_get_completed (pc) && guard++ < 200000L) pump ();
            r = dbus_pending_call_steal_reply (pc);
            printf ("p="); print_ids (inv_log, n_inv);
            printf (":%d", r != NULL && dbus_message_get_type (r) == DBUS_MESSAGE_TYPE_METHOD_RETURN);
            if (r != NULL) dbus_message_unref (r);
            dbus_pending_call_unref (pc);
            dbus_message_unref (m);
            break;
          }
        case 'g':
          {
            void *ud = NULL;
            if (conn_mode) { if (!dbus_connection_get_object_path_data (host, path, &ud)) abort (); }
            else ud = _dbus_object_tree_get_user_data_unlocked (cur_tree, (const char **) dec);
            if (ud == NULL) printf ("g=-"); else printf ("g=%d", (int) (intptr_t) ud);
            break;
          }
        case 'l':
          {
            char **v = NULL;
            if (conn_mode) { if (!dbus_connection_list_registered (host, path, &v)) abort (); }
            else if (!_dbus_object_tree_list_registered_and_unlock (cur_tree, (const char **) dec, &v)) abort ();
            printf ("l="); print_names (v);
            dbus_free_string_array (v);
            break;
          }
        case 'z':    /* end of life: which unregister callbacks run, in which order */
          {
            n_unreg = 0;
            if (conn_mode) pair_close (); else { _dbus_object_tree_unref (cur_tree); cur_tree = NULL; }
            closed = 1;
            printf ("z="); print_ids (unreg_log, n_unreg);
            break;
          }
        default:
          printf ("?bad-op");
        }
      dbus_free_string_array (dec);
    }
  if (!closed) { if (conn_mode) pair_close (); else { _dbus_object_tree_unref (cur_tree); cur_tree = NULL; } }
  putchar ('\n');
}

/* P <hex>: _dbus_decompose_path on the raw bytes (only called with strings on which it does not assert);
 * second field: what a message carrying this PATH decomposes to (dbus_message_get_path_decomposed), if it
 * is a valid object path */
static void run_decompose (const char *hex)
{
  int n, i, count = -1; unsigned char *b = unhex (hex, &n);
  char **dec = NULL;
  if (!_dbus_decompose_path ((const char *) b, n, &dec, &count)) abort ();
  printf ("%d:", count);
  if (count == 0) putchar ('-');
  for (i = 0; i < count; i++) { if (i) putchar (','); puthex ((const unsigned char *) dec[i], (int) strlen (dec[i])); }
  if (dec[count] != NULL) printf ("!unterminated");
  dbus_free_string_array (dec);
  if (!has_nul (b, n) && n > 0 && dbus_validate_path ((const char *) b, NULL))
    {
      DBusMessage *m = dbus_message_new_method_call (NULL, (const char *) b, NULL, "X");
      char **d2 = NULL;
      if (m == NULL || !dbus_message_get_path_decomposed (m, &d2)) abort ();
      printf (" msg=");
      for (i = 0; d2[i] != NULL; i++) { if (i) putchar (','); puthex ((const unsigned char *) d2[i], (int) strlen (d2[i])); }
      if (i == 0) putchar ('-');
      dbus_free_string_array (d2);
      dbus_message_unref (m);
    }
  putchar ('\n');
  free (b);
}

int main (void)
{
  char *line = NULL; size_t cap = 0; ssize_t got;
  int have_server = 0;
  static char obuf[1 << 16];
  setvbuf (stdout, obuf, _IOFBF, sizeof obuf);   /* one flush per result line: a crash never leaves a partial line */
  while ((got = getline (&line, &cap, stdin)) > 0)
    {
      char *rest;
      if (line[got - 1] == '\n') line[got - 1] = 0;
      rest = strchr (line, ' ');
      if (rest != NULL) *rest++ = 0; else rest = line + strlen (line);
      if (!strcmp (line, "c"))
        {
          if (!have_server) { server_init (); have_server = 1; }
          run_history (1, rest);
        }
      else if (!strcmp (line, "t")) run_history (0, rest);
      else if (!strcmp (line, "P")) run_decompose (rest[0] ? rest : "-");
      else if (line[0] == 0) printf ("\n");
      else printf ("?unknown-command\n");
      fflush (stdout);
    }
  free (line);
  fflush (stdout);
  if (have_server) { dbus_server_disconnect (server); dbus_server_unref (server); }
  return 0;
}
