/* objtree_h: harness for the object-path tree (C20).
 * One history per line on stdin, one result line on stdout (see ml/objtree/driver.ml
 * for the op syntax).  First token selects the entry level:
 *   c  a real DBusConnection pair (private client connection + the connection a
 *      DBusServer in this process accepted for it, over a unix socket); handlers are
 *      registered on the client connection with dbus_connection_try_register_*,
 *      method calls are sent from the server-side connection and the reply that
 *      comes back (method return from a handler / automatic error / default
 *      Introspect XML) is what gets reported;
 *   t  the internal _dbus_object_tree_* API on a tree without connection (volume);
 *      here the H/M/O letter is derived from the DBusHandlerResult and *found_object.
 */
#include "common.h"
#include <stdint.h>
#include <dbus/dbus-object-tree.h>

#define IFACE "com.example.Verif"
#define MAXLOG 256

static int inv_log[MAXLOG];
static int n_inv;
static int n_unreg;

static void unreg_cb (DBusConnection *c, void *data) { (void) c; (void) data; n_unreg++; }

static DBusHandlerResult handler_cb (DBusConnection *c, DBusMessage *m, void *data)
{
  int id = (int) (intptr_t) data;
  dbus_uint64_t mask = 0;
  if (n_inv < MAXLOG) inv_log[n_inv++] = id;
  if (!dbus_message_get_args (m, NULL, DBUS_TYPE_UINT64, &mask, DBUS_TYPE_INVALID))
    mask = 0;
  if (id >= 0 && id < 64 && (mask >> id) & 1)
    {
      if (c != NULL)
        {
          DBusMessage *r = dbus_message_new_method_return (m);
          if (r == NULL || !dbus_connection_send (c, r, NULL)) abort ();
          dbus_message_unref (r);
        }
      return DBUS_HANDLER_RESULT_HANDLED;
    }
  return DBUS_HANDLER_RESULT_NOT_YET_HANDLED;
}

static const DBusObjectPathVTable vtable = { unreg_cb, handler_cb, NULL, NULL, NULL, NULL };

/* ---- connection pair ---------------------------------------------------- */
static DBusServer *server;
static DBusWatch *server_watches[8];
static int n_server_watches;
static DBusConnection *accepted;

static dbus_bool_t add_watch (DBusWatch *w, void *d) { (void) d; if (n_server_watches < 8) server_watches[n_server_watches++] = w; return TRUE; }
static void remove_watch (DBusWatch *w, void *d)
{
  int i; (void) d;
  for (i = 0; i < n_server_watches; i++)
    if (server_watches[i] == w) { server_watches[i] = server_watches[--n_server_watches]; break; }
}
static void toggle_watch (DBusWatch *w, void *d) { (void) w; (void) d; }
static void new_conn (DBusServer *s, DBusConnection *c, void *d) { (void) s; (void) d; accepted = dbus_connection_ref (c); }

static void server_init (void)
{
  DBusError e = DBUS_ERROR_INIT;
  server = dbus_server_listen ("unix:tmpdir=/tmp", &e);
  if (server == NULL) { fprintf (stderr, "listen: %s\n", e.message); abort (); }
  dbus_server_set_new_connection_function (server, new_conn, NULL, NULL);
  if (!dbus_server_set_watch_functions (server, add_watch, remove_watch, toggle_watch, NULL, NULL)) abort ();
}

static DBusConnection *host, *caller;   /* host: tree under test; caller: peer */

static void pump (void)
{
  dbus_connection_read_write_dispatch (host, 0);
  dbus_connection_read_write_dispatch (caller, 0);
}

static void pair_open (void)
{
  DBusError e = DBUS_ERROR_INIT;
  char *addr = dbus_server_get_address (server);
  int i, guard = 0;
  accepted = NULL;
  host = dbus_connection_open_private (addr, &e);
  dbus_free (addr);
  if (host == NULL) { fprintf (stderr, "open: %s\n", e.message); abort (); }
  dbus_connection_set_exit_on_disconnect (host, FALSE);
  while (accepted == NULL && guard++ < 1000)
    for (i = 0; i < n_server_watches; i++)
      if (dbus_watch_get_enabled (server_watches[i]))
        dbus_watch_handle (server_watches[i], DBUS_WATCH_READABLE);
  if (accepted == NULL) abort ();
  caller = accepted;
  dbus_connection_set_exit_on_disconnect (caller, FALSE);
  guard = 0;
  while ((!dbus_connection_get_is_authenticated (host) || !dbus_connection_get_is_authenticated (caller)) && guard++ < 100000)
    pump ();
  if (!dbus_connection_get_is_authenticated (host) || !dbus_connection_get_is_authenticated (caller)) abort ();
}

static void pair_close (void)
{
  dbus_connection_close (host);
  dbus_connection_close (caller);
  while (dbus_connection_dispatch (host) == DBUS_DISPATCH_DATA_REMAINS) ;
  while (dbus_connection_dispatch (caller) == DBUS_DISPATCH_DATA_REMAINS) ;
  dbus_connection_unref (host);
  dbus_connection_unref (caller);
  host = caller = NULL;
}

/* send a call from the peer, wait for its reply */
static DBusMessage *roundtrip (DBusMessage *m)
{
  DBusPendingCall *pc = NULL;
  DBusMessage *r;
  long guard = 0;
  if (!dbus_connection_send_with_reply (caller, m, &pc, 60000) || pc == NULL) abort ();
  while (!dbus_pending_call_get_completed (pc) && guard++ < 10000000L)
    pump ();
  r = dbus_pending_call_steal_reply (pc);
  dbus_pending_call_unref (pc);
  if (r == NULL) abort ();
  return r;
}

/* ---- output helpers ------------------------------------------------------ */
static int first_tok = 1;
static void sep (void) { if (!first_tok) putchar (' '); first_tok = 0; }

static void print_invoked (void)
{
  int i;
  if (n_inv == 0) putchar ('-');
  for (i = 0; i < n_inv; i++) printf ("%s%d", i ? "," : "", inv_log[i]);
}

static void print_names (char **v)
{
  int i;
  if (v == NULL || v[0] == NULL) { putchar ('-'); return; }
  for (i = 0; v[i] != NULL; i++) printf ("%s%s", i ? "," : "", v[i]);
}

static dbus_uint64_t parse_mask (const char *s)
{
  dbus_uint64_t m = 0;
  if (s == NULL || !strcmp (s, "-")) return 0;
  while (*s)
    {
      int id = (int) strtol (s, (char **) &s, 10);
      if (id >= 0 && id < 64) m |= ((dbus_uint64_t) 1) << id;
      if (*s == ',') s++;
    }
  return m;
}

static void print_outcome_of_reply (DBusMessage *r)
{
  if (dbus_message_get_type (r) == DBUS_MESSAGE_TYPE_METHOD_RETURN) putchar ('H');
  else if (dbus_message_is_error (r, DBUS_ERROR_UNKNOWN_METHOD)) putchar ('M');
  else if (dbus_message_is_error (r, DBUS_ERROR_UNKNOWN_OBJECT)) putchar ('O');
  else printf ("E[%s]", dbus_message_get_error_name (r) ? dbus_message_get_error_name (r) : "?");
}

/* child names out of the default Introspect XML */
static void print_xml_children (const char *xml)
{
  const char *p = xml; int n = 0;
  while ((p = strstr (p, "<node name=\"")) != NULL)
    {
      const char *q;
      p += strlen ("<node name=\"");
      q = strchr (p, '"');
      if (q == NULL) break;
      printf ("%s%.*s", n ? "," : "", (int) (q - p), p);
      n++;
      p = q;
    }
  if (n == 0) putchar ('-');
}

/* ---- one history ---------------------------------------------------------- */
static void run_history (int conn_mode, char *rest)
{
  DBusObjectTree *tree = NULL;
  char *save = NULL, *tok;
  first_tok = 1;
  if (conn_mode) pair_open ();
  else { tree = _dbus_object_tree_new (NULL); if (tree == NULL) abort (); }

  for (tok = strtok_r (rest, " ", &save); tok != NULL; tok = strtok_r (NULL, " ", &save))
    {
      char kind = tok[0];
      char *path = tok[1] == ':' ? tok + 2 : NULL;
      char *arg = NULL;
      char **dec = NULL;
      if (path == NULL) { sep (); printf ("?bad-op"); continue; }
      arg = strchr (path, ':');
      if (arg != NULL) *arg++ = 0;
      sep ();
      if (!conn_mode && !_dbus_decompose_path (path, (int) strlen (path), &dec, NULL)) abort ();
      switch (kind)
        {
        case 'r': case 'f':
          {
            DBusError e = DBUS_ERROR_INIT;
            dbus_bool_t ok;
            void *ud = (void *) (intptr_t) atoi (arg ? arg : "0");
            if (conn_mode)
              ok = kind == 'f' ? dbus_connection_try_register_fallback (host, path, &vtable, ud, &e)
                               : dbus_connection_try_register_object_path (host, path, &vtable, ud, &e);
            else
              ok = _dbus_object_tree_register (tree, kind == 'f', (const char **) dec, &vtable, ud, &e);
            if (ok) printf (dbus_error_is_set (&e) ? "1!error-set" : "1");
            else if (dbus_error_has_name (&e, DBUS_ERROR_OBJECT_PATH_IN_USE)) printf ("0");
            else printf ("0![%s]", dbus_error_is_set (&e) ? e.name : "no-error");
            dbus_error_free (&e);
            break;
          }
        case 'u':
          {
            int before = n_unreg;
            if (conn_mode) { if (!dbus_connection_unregister_object_path (host, path)) abort (); }
            else _dbus_object_tree_unregister_and_unlock (tree, (const char **) dec);
            printf ("u%d", n_unreg - before);
            break;
          }
        case 'c': case 'i':
          {
            DBusMessage *m = kind == 'c' ? dbus_message_new_method_call (NULL, path, IFACE, "Act")
                                         : dbus_message_new_method_call (NULL, path, DBUS_INTERFACE_INTROSPECTABLE, "Introspect");
            dbus_uint64_t mask = parse_mask (arg);
            if (m == NULL) abort ();
            if (kind == 'c' && !dbus_message_append_args (m, DBUS_TYPE_UINT64, &mask, DBUS_TYPE_INVALID)) abort ();
            n_inv = 0;
            if (conn_mode)
              {
                DBusMessage *r = roundtrip (m);
                printf ("%c=", kind); print_invoked (); putchar (':');
                if (kind == 'c') print_outcome_of_reply (r);
                else
                  {
                    const char *xml = NULL;
                    if (dbus_message_get_type (r) == DBUS_MESSAGE_TYPE_METHOD_RETURN &&
                        dbus_message_get_args (r, NULL, DBUS_TYPE_STRING, &xml, DBUS_TYPE_INVALID))
                      print_xml_children (xml);
                    else { printf ("!"); print_outcome_of_reply (r); }
                  }
                dbus_message_unref (r);
              }
            else
              {
                dbus_bool_t found = 2;
                DBusHandlerResult res = _dbus_object_tree_dispatch_and_unlock (tree, m, &found);
                printf ("%c=", kind); print_invoked (); putchar (':');
                if (kind == 'i') printf ("?bad-op");   /* no connection, no reply: the default Introspect cannot run */
                else if (res == DBUS_HANDLER_RESULT_HANDLED) putchar ('H');
                else if (res == DBUS_HANDLER_RESULT_NOT_YET_HANDLED)
                  {
                    if (found == TRUE) putchar ('M'); else if (found == FALSE) putchar ('O'); else printf ("!found%d", (int) found);
                  }
                else printf ("!res%d", (int) res);
              }
            dbus_message_unref (m);
            break;
          }
        case 'l':
          {
            char **v = NULL;
            if (conn_mode) { if (!dbus_connection_list_registered (host, path, &v)) abort (); }
            else if (!_dbus_object_tree_list_registered_and_unlock (tree, (const char **) dec, &v)) abort ();
            printf ("l="); print_names (v);
            dbus_free_string_array (v);
            break;
          }
        default:
          printf ("?bad-op");
        }
      dbus_free_string_array (dec);
    }
  if (conn_mode) pair_close ();
  else _dbus_object_tree_unref (tree);
  putchar ('\n');
}

int main (void)
{
  char *line = NULL; size_t cap = 0; ssize_t got;
  int have_server = 0;
  static char obuf[1 << 16];
  setvbuf (stdout, obuf, _IOFBF, sizeof obuf);   /* one flush per result line: a crash never leaves a partial line */
  while ((got = getline (&line, &cap, stdin)) > 0)
    {
      char *rest;
      if (line[got - 1] == '\n') line[got - 1] = 0;
      rest = strchr (line, ' ');
      if (rest != NULL) *rest++ = 0; else rest = line + strlen (line);
      if (!strcmp (line, "c"))
        {
          if (!have_server) { server_init (); have_server = 1; }
          run_history (1, rest);
        }
      else if (!strcmp (line, "t")) run_history (0, rest);
      else if (line[0] == 0) printf ("\n");
      else printf ("?unknown-command\n");
      fflush (stdout);
    }
  free (line);
  fflush (stdout);
  if (have_server) { dbus_server_disconnect (server); dbus_server_unref (server); }
  return 0;
}
