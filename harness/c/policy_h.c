/* policy_h: decision-level harness for C06 (links libdbus-daemon-internal.a).
 * One command per line on stdin, one canonical result line on stdout.
 *
 *   dec <item> ; <item> ; ...
 *     r <s|r|o> <allow> <mtype> <path> <iface> <member> <error> <name> <maxfds> <minfds> <eav> <rr> <log> <bcast> <prefix>
 *     g ...                 (registry entries: ignored here, this harness only takes the receiver == NULL / sender == NULL paths)
 *     q <type> <path> <iface> <member> <error> <dest> <sender> <reply_serial> <nfds> <requested> <eavesdropping> <receiver> <sender conn> <own name>
 *   -> S <raw><opt> R <raw><opt> O <raw><opt> L <len raw> <len opt>
 *
 *   cfg <path of the top-level configuration file> ; u <uid> ; ... ; o <name hex> ; ...
 *   -> ERR <error name>   |   OK a=<bus_policy_allow_unix_user per uid> o=<bus_policy_check_can_own (default rules) per name>
 *      the file (with its <include>/<includedir> tree) is loaded by bus_config_load, the policy taken with
 *      bus_config_parser_steal_policy: the real parser, include_file/include_dir and bus_policy_merge
 *
 * The rules are built with bus_policy_rule_new and put into a BusClientPolicy
 * with bus_client_policy_append_rule; decisions are taken with
 * bus_client_policy_check_can_send / _can_receive / _can_own before and after
 * bus_client_policy_optimize.  Strings: hex, "-" empty, "~" NULL. */
#include "common.h"
#include <unistd.h>
#include <fcntl.h>
#include <dbus/dbus-message-internal.h>
#include <dbus/dbus-list.h>
#include "policy.h"
#include "config-parser.h"

#define MAXTOK 4096

static char *opt_str (const char *h)
{
  int n; unsigned char *b; char *r;
  if (strcmp (h, "~") == 0) return NULL;
  b = unhex (h, &n);
  r = _dbus_strdup ((const char *) b);
  free (b);
  if (r == NULL) abort ();
  return r;
}

static BusPolicyRule *make_rule (char **t)
{
  BusPolicyRuleType ty = t[1][0] == 's' ? BUS_POLICY_RULE_SEND : t[1][0] == 'r' ? BUS_POLICY_RULE_RECEIVE : BUS_POLICY_RULE_OWN;
  BusPolicyRule *r = bus_policy_rule_new (ty, atoi (t[2]));
  if (r == NULL) abort ();
  if (ty == BUS_POLICY_RULE_SEND)
    {
      r->d.send.message_type = atoi (t[3]);
      r->d.send.path = opt_str (t[4]); r->d.send.interface = opt_str (t[5]); r->d.send.member = opt_str (t[6]);
      r->d.send.error = opt_str (t[7]); r->d.send.destination = opt_str (t[8]);
      r->d.send.max_fds = (unsigned int) strtoul (t[9], NULL, 10); r->d.send.min_fds = (unsigned int) strtoul (t[10], NULL, 10);
      r->d.send.eavesdrop = atoi (t[11]); r->d.send.requested_reply = atoi (t[12]); r->d.send.log = atoi (t[13]);
      r->d.send.broadcast = atoi (t[14]); r->d.send.destination_is_prefix = atoi (t[15]);
    }
  else if (ty == BUS_POLICY_RULE_RECEIVE)
    {
      r->d.receive.message_type = atoi (t[3]);
      r->d.receive.path = opt_str (t[4]); r->d.receive.interface = opt_str (t[5]); r->d.receive.member = opt_str (t[6]);
      r->d.receive.error = opt_str (t[7]); r->d.receive.origin = opt_str (t[8]);
      r->d.receive.max_fds = (unsigned int) strtoul (t[9], NULL, 10); r->d.receive.min_fds = (unsigned int) strtoul (t[10], NULL, 10);
      r->d.receive.eavesdrop = atoi (t[11]); r->d.receive.requested_reply = atoi (t[12]);
    }
  else
    {
      r->d.own.service_name = opt_str (t[8]); r->d.own.prefix = atoi (t[15]);
    }
  return r;
}

/* length of the rule list: count decisions that use can_own's list?  BusClientPolicy is opaque, so count by probing is
 * impossible; the verbose log has it, but we simply re-derive it: a rule that was pruned has refcount 1 (ours) afterwards */
static int count_alive (BusPolicyRule **rules, int n)
{
  int i, c = 0;
  for (i = 0; i < n; i++) if (rules[i]->refcount > 1) c++;
  return c;
}

static DBusMessage *make_msg (char **q)
{
  DBusMessage *m = dbus_message_new (atoi (q[1]));
  char *s; int nfds, i;
  if (m == NULL) abort ();
  if ((s = opt_str (q[2])) != NULL) { if (!dbus_message_set_path (m, s)) abort (); dbus_free (s); }
  if ((s = opt_str (q[3])) != NULL) { if (!dbus_message_set_interface (m, s)) abort (); dbus_free (s); }
  if ((s = opt_str (q[4])) != NULL) { if (!dbus_message_set_member (m, s)) abort (); dbus_free (s); }
  if ((s = opt_str (q[5])) != NULL) { if (!dbus_message_set_error_name (m, s)) abort (); dbus_free (s); }
  if ((s = opt_str (q[6])) != NULL) { if (!dbus_message_set_destination (m, s)) abort (); dbus_free (s); }
  if ((s = opt_str (q[7])) != NULL) { if (!dbus_message_set_sender (m, s)) abort (); dbus_free (s); }
  if (atoi (q[8]) != 0 && !dbus_message_set_reply_serial (m, (dbus_uint32_t) strtoul (q[8], NULL, 10))) abort ();
  nfds = atoi (q[9]);
  for (i = 0; i < nfds; i++)
    {
      int fd = open ("/dev/null", O_RDONLY);
      if (fd < 0 || !dbus_message_append_args (m, DBUS_TYPE_UNIX_FD, &fd, DBUS_TYPE_INVALID)) abort ();
      close (fd);
    }
  return m;
}

static void do_dec (char **tok, int ntok)
{
  BusPolicyRule *rules[512]; int nrules = 0; char **q = NULL; int i, start = 1;
  BusClientPolicy *pol = bus_client_policy_new ();
  DBusMessage *m; DBusString own; unsigned char *ownb; int ownn;
  dbus_int32_t toggles; dbus_bool_t log; int requested, eav;
  DBusConnection *proposed = (DBusConnection *) 0x1000, *addressed;
  char s[3], r[3], o[3]; int lraw, lopt;
  if (pol == NULL) abort ();
  for (i = 1; i <= ntok; i++)
    if (i == ntok || strcmp (tok[i], ";") == 0)
      {
        if (i > start)
          {
            if (strcmp (tok[start], "r") == 0 && i - start == 16 && nrules < 512)
              {
                rules[nrules] = make_rule (tok + start);
                if (!bus_client_policy_append_rule (pol, rules[nrules])) abort ();
                nrules++;
              }
            else if (strcmp (tok[start], "q") == 0 && i - start == 15) q = tok + start;
            else if (strcmp (tok[start], "g") == 0) ;
            else { printf ("?bad-item %s\n", tok[start]); return; }
          }
        start = i + 1;
      }
  if (q == NULL) { printf ("?no-query\n"); return; }
  m = make_msg (q);
  requested = atoi (q[10]); eav = atoi (q[11]);
  addressed = eav ? (DBusConnection *) 0x2000 : proposed;
  ownb = unhex (q[14], &ownn);
  _dbus_string_init_const_len (&own, (const char *) ownb, ownn);
  if (strcmp (q[12], "~") != 0 || strcmp (q[13], "~") != 0) { printf ("?receiver/sender connections are not available in this harness\n"); return; }
  for (i = 0; i < 2; i++)
    {
      log = FALSE;
      s[i] = bus_client_policy_check_can_send (pol, NULL, requested, NULL, m, &toggles, &log) ? '1' : '0';
      r[i] = bus_client_policy_check_can_receive (pol, NULL, requested, NULL, addressed, proposed, m, &toggles) ? '1' : '0';
      o[i] = bus_client_policy_check_can_own (pol, &own) ? '1' : '0';
      if (i == 0) { lraw = count_alive (rules, nrules); bus_client_policy_optimize (pol); lopt = count_alive (rules, nrules); }
    }
  s[2] = r[2] = o[2] = 0;
  printf ("S %s R %s O %s L %d %d\n", s, r, o, lraw, lopt);
  dbus_message_unref (m);
  free (ownb);
  bus_client_policy_unref (pol);
  for (i = 0; i < nrules; i++) bus_policy_rule_unref (rules[i]);
}

static void do_cfg (char **tok, int ntok)
{
  DBusString path; DBusError err = DBUS_ERROR_INIT; BusConfigParser *parser; BusPolicy *pol; int i;
  char a[256], o[256]; int na = 0, no = 0;
  if (ntok < 2) { printf ("?bad-cfg\n"); return; }
  _dbus_string_init_const (&path, tok[1]);
  parser = bus_config_load (&path, TRUE, NULL, &err);
  if (parser == NULL) { printf ("ERR %s\n", err.name); dbus_error_free (&err); return; }
  pol = bus_config_parser_steal_policy (parser);
  for (i = 2; i + 1 < ntok; i++)
    {
      if (strcmp (tok[i], "u") == 0 && na < 255)
        a[na++] = bus_policy_allow_unix_user (pol, strtoul (tok[i + 1], NULL, 10)) ? '1' : '0';
      else if (strcmp (tok[i], "o") == 0 && no < 255)
        {
          int n; unsigned char *b = unhex (tok[i + 1], &n); DBusString s;
          _dbus_string_init_const_len (&s, (const char *) b, n);
          o[no++] = bus_policy_check_can_own (pol, &s) ? '1' : '0';
          free (b);
        }
    }
  a[na] = 0; o[no] = 0;
  printf ("OK a=%s o=%s\n", a, o);
  bus_policy_unref (pol);
  bus_config_parser_unref (parser);
}

int main (void)
{
  static char line[1 << 20];
  static char *tok[MAXTOK];
  while (fgets (line, sizeof line, stdin) != NULL)
    {
      int n = 0; char *p = strtok (line, " \n");
      while (p != NULL && n < MAXTOK) { tok[n++] = p; p = strtok (NULL, " \n"); }
      if (n == 0) { printf ("\n"); continue; }
      if (strcmp (tok[0], "dec") == 0) do_dec (tok, n);
      else if (strcmp (tok[0], "cfg") == 0) do_cfg (tok, n);
      else printf ("?unknown-command\n");
      fflush (stdout);
    }
  return 0;
}
