/* C15 harness, library side: a real libdbus client DBusConnection receiving
   descriptor-carrying messages from a scripted raw peer (this process plays the
   server end of the socket: SASL lines by hand, then arbitrary bytes with
   SCM_RIGHTS).  Everything the property is about on the library side runs for
   real: do_reading, _dbus_read_socket_with_unix_fds, the message loader, message
   finalisation, connection teardown.

   One case per input line, one result line per case:

     run <max_message_unix_fds> <max_message_size> <negotiate 0|1> <event>*
       W:<hex bytes>:<fd ids ','-joined or '-'>   the peer does ONE sendmsg (ids become fresh opens of the scratch
                                                  file positioned at OFFSET+id)
       D                                          the peer closes its end
   result: per event  <messages>/<x if the library disconnected in this step, else ->/<pending>   joined by ' ',
           then  end/<descriptors open after teardown minus baseline>
     messages joined by '+' ('-' = none): M.<serial>.<fd ids ','-joined or '-'>  ('?' = not one of ours)
     pending = _dbus_connection_get_pending_fds_count; it is cross-checked against /proc/self/fd
     ("!fdcount" is appended when the process holds a different number of descriptors than pending says). */
#include "common.h"
#include <stdarg.h>
#include <stddef.h>
#include <unistd.h>
#include <fcntl.h>
#include <errno.h>
#include <dirent.h>
#include <signal.h>
#include <sys/socket.h>
#include <sys/stat.h>
#include <sys/un.h>
#include <dbus/dbus-connection-internal.h>
#include <dbus/dbus-message-internal.h>

#define OFFSET 100000
#define OUTSZ 65536

static char out[OUTSZ];
static size_t outn;
static void emit (const char *fmt, ...)
{
  va_list ap; int n;
  va_start (ap, fmt);
  n = vsnprintf (out + outn, OUTSZ - outn, fmt, ap);
  va_end (ap);
  if (n > 0) outn += (size_t) n;
  if (outn >= OUTSZ) outn = OUTSZ - 1;
}

static char scratch[128];
static dev_t sdev; static ino_t sino;

static int count_fds (void)
{
  DIR *d = opendir ("/proc/self/fd"); struct dirent *e; int n = 0;
  if (!d) return -1;
  while ((e = readdir (d)) != NULL) if (e->d_name[0] != '.') n++;
  closedir (d);
  return n - 1;     /* the directory stream itself */
}

/* read a SASL line from the client (it is written in one piece) */
static int peer_readline (int fd, DBusConnection *c, char *buf, size_t sz)
{
  size_t n = 0; int spins = 0;
  buf[0] = 0;
  while (spins++ < 2000)
    {
      ssize_t r;
      dbus_connection_read_write (c, 0);
      r = recv (fd, buf + n, sz - 1 - n, MSG_DONTWAIT);
      if (r > 0) { n += (size_t) r; buf[n] = 0; if (n >= 2 && buf[n - 2] == '\r' && buf[n - 1] == '\n') return 1; }
      else if (r == 0) return 0;
    }
  return 0;
}

static void peer_write (int fd, const char *s) { if (write (fd, s, strlen (s)) < 0) { } }

static int id_of_fd (int fd)
{
  struct stat st; off_t o;
  if (fstat (fd, &st) != 0 || st.st_dev != sdev || st.st_ino != sino) return -1;
  o = lseek (fd, 0, SEEK_CUR);
  return (int) (o - OFFSET);
}

static void run_case (char *line)
{
  char *save = NULL, *tok;
  long maxfds, maxsize; int neg;
  int lsock, peer = -1, base, i;
  struct sockaddr_un sa; socklen_t salen;
  char addr[160], buf[1024];
  DBusConnection *c; DBusError err;
  static int seq;

  outn = 0; out[0] = 0;
  strtok_r (line, " ", &save);
  maxfds = atol (strtok_r (NULL, " ", &save));
  maxsize = atol (strtok_r (NULL, " ", &save));
  neg = atoi (strtok_r (NULL, " ", &save));

  base = count_fds ();
  /* listening socket on an abstract address */
  lsock = socket (AF_UNIX, SOCK_STREAM | SOCK_CLOEXEC, 0);
  memset (&sa, 0, sizeof sa);
  sa.sun_family = AF_UNIX;
  snprintf (sa.sun_path + 1, sizeof sa.sun_path - 1, "verif-fds-%d-%d", (int) getpid (), seq++);
  salen = (socklen_t) (offsetof (struct sockaddr_un, sun_path) + 1 + strlen (sa.sun_path + 1));
  if (bind (lsock, (struct sockaddr *) &sa, salen) != 0 || listen (lsock, 1) != 0) { printf ("?bind\n"); close (lsock); return; }
  snprintf (addr, sizeof addr, "unix:abstract=%s", sa.sun_path + 1);
  dbus_error_init (&err);
  c = dbus_connection_open_private (addr, &err);
  if (c == NULL) { printf ("?open %s\n", err.message); dbus_error_free (&err); close (lsock); return; }
  dbus_connection_set_exit_on_disconnect (c, FALSE);
  dbus_connection_set_max_message_unix_fds (c, maxfds);
  dbus_connection_set_max_message_size (c, maxsize);
  peer = accept4 (lsock, NULL, NULL, SOCK_CLOEXEC);
  close (lsock);
  /* SASL, server side by hand: \0AUTH EXTERNAL .. / OK; NEGOTIATE_UNIX_FD / AGREE_UNIX_FD or ERROR; BEGIN */
  if (!peer_readline (peer, c, buf, sizeof buf)) { printf ("?auth1\n"); goto done; }
  peer_write (peer, "OK 1234deadbeef1234deadbeef1234dead\r\n");
  if (!peer_readline (peer, c, buf, sizeof buf)) { printf ("?auth2\n"); goto done; }
  if (strncmp (buf, "NEGOTIATE_UNIX_FD", 17) == 0)
    {
      peer_write (peer, neg ? "AGREE_UNIX_FD\r\n" : "ERROR not here\r\n");
      if (!peer_readline (peer, c, buf, sizeof buf)) { printf ("?auth3\n"); goto done; }
    }
  if (strncmp (buf, "BEGIN", 5) != 0) { printf ("?auth4 %s\n", buf); goto done; }
  for (i = 0; i < 50 && !dbus_connection_get_is_authenticated (c); i++) dbus_connection_read_write (c, 0);
  if (!dbus_connection_get_is_authenticated (c)) { printf ("?auth5\n"); goto done; }
  if ((dbus_connection_can_send_type (c, DBUS_TYPE_UNIX_FD) ? 1 : 0) != neg) { printf ("?neg\n"); goto done; }
  /* the client's Hello etc. are not sent: nothing was queued.  Drain nothing. */
  {
    int after_setup = count_fds ();     /* baseline + peer + the connection's socket */
    while ((tok = strtok_r (NULL, " ", &save)) != NULL)
      {
        DBusMessage *m; int first = 1, pend, nopen;
        if (tok[0] == 'W')
          {
            char *s2 = NULL; char *hex, *ids; unsigned char *data; int n, nf = 0, fds[64];
            struct msghdr mh; struct iovec iov; char cbuf[CMSG_SPACE (64 * sizeof (int))];
            strtok_r (tok, ":", &s2);
            hex = strtok_r (NULL, ":", &s2); ids = strtok_r (NULL, ":", &s2);
            data = unhex (hex, &n);
            if (ids && strcmp (ids, "-") != 0)
              {
                char *s3 = NULL, *t;
                for (t = strtok_r (ids, ",", &s3); t && nf < 64; t = strtok_r (NULL, ",", &s3))
                  {
                    int f = open (scratch, O_RDONLY | O_CLOEXEC);
                    lseek (f, OFFSET + atoi (t), SEEK_SET);
                    fds[nf++] = f;
                  }
              }
            memset (&mh, 0, sizeof mh);
            iov.iov_base = data; iov.iov_len = (size_t) n;
            mh.msg_iov = &iov; mh.msg_iovlen = 1;
            if (nf)
              {
                struct cmsghdr *cm;
                memset (cbuf, 0, sizeof cbuf);
                mh.msg_control = cbuf; mh.msg_controllen = CMSG_SPACE (nf * sizeof (int));
                cm = CMSG_FIRSTHDR (&mh);
                cm->cmsg_level = SOL_SOCKET; cm->cmsg_type = SCM_RIGHTS; cm->cmsg_len = CMSG_LEN (nf * sizeof (int));
                memcpy (CMSG_DATA (cm), fds, nf * sizeof (int));
              }
            if (peer >= 0 && c != NULL && sendmsg (peer, &mh, MSG_NOSIGNAL) < 0) { }
            for (i = 0; i < nf; i++) close (fds[i]);
            free (data);
          }
        else if (tok[0] == 'D')
          {
            if (peer >= 0) { close (peer); peer = -1; }
          }
        if (c == NULL) { emit ("!/-/0 "); continue; }
        /* the library reads until nothing is left (each call is one do_reading) */
        for (i = 0; i < 16; i++)
          if (!dbus_connection_read_write (c, 0)) break;
        while ((m = dbus_connection_pop_message (c)) != NULL)
          {
            const int *mf; unsigned nmf, j;
            if (dbus_message_is_signal (m, DBUS_INTERFACE_LOCAL, "Disconnected")) { dbus_message_unref (m); continue; }
            dbus_message_lock (m);
            _dbus_message_get_unix_fds (m, &mf, &nmf);
            emit ("%sM.%u.", first ? "" : "+", dbus_message_get_serial (m));
            first = 0;
            if (nmf == 0) emit ("-");
            for (j = 0; j < nmf; j++)
              {
                int id = id_of_fd (mf[j]);
                if (id < 0) emit ("%s?", j ? "," : ""); else emit ("%s%d", j ? "," : "", id);
              }
            dbus_message_unref (m);       /* closes the message's descriptors */
          }
        if (first) emit ("-");
        if (!dbus_connection_get_is_connected (c))
          {
            /* the application drops a dead connection: last unref finalises the loader */
            emit ("/%s", tok[0] != 'D' ? "x" : "-");
            dbus_connection_close (c);
            dbus_connection_unref (c);
            c = NULL;
            nopen = count_fds ();
            emit ("/0%s ", (nopen - base - (peer >= 0 ? 1 : 0)) == 0 ? "" : "!fdcount");
          }
        else
          {
            pend = _dbus_connection_get_pending_fds_count (c);
            nopen = count_fds ();
            emit ("/-/%d%s ", pend, (nopen - after_setup + (peer < 0 ? 1 : 0)) == pend ? "" : "!fdcount");
          }
      }
  }
done:
  if (peer >= 0) close (peer);
  if (c != NULL)
    {
      dbus_connection_close (c);
      dbus_connection_unref (c);
    }
  emit ("end/%d", count_fds () - base);
  printf ("%s\n", out);
}


/* ------------------------------------------------------------------ the message API (model: coq/Fds/MsgApi.v)
   api <op>*   ops as in ml/fds/driver.ml (run_api).  After every op: <result>/<descriptors the library holds>
   where the second number is  open descriptors - baseline - descriptors the application owns and has not closed.
   A failing _dbus_dup is provoked for real: the descriptor table is filled up to RLIMIT_NOFILE with fillers,
   leaving exactly as many free slots as dups are to succeed. */
#include <sys/resource.h>
#define MAXMSG 64
#define MAXAPP 512
#define NOFILE_LIMIT 160

static int filler[NOFILE_LIMIT + 8]; static int nfiller;
static void exhaust (int leave)
{
  int f;
  nfiller = 0;
  while ((f = open ("/dev/null", O_RDONLY | O_CLOEXEC)) >= 0 && nfiller < NOFILE_LIMIT) filler[nfiller++] = f;
  while (leave-- > 0 && nfiller > 0) close (filler[--nfiller]);
}
static void release (void) { while (nfiller > 0) close (filler[--nfiller]); }

static int get_args_n (DBusMessage *m, int want, int mismatch, int *out)
{
  DBusError e; const char *s = NULL; dbus_bool_t ok;
  int i;
  for (i = 0; i < 4; i++) out[i] = -1;
  dbus_error_init (&e);
#define FD(i) DBUS_TYPE_UNIX_FD, &out[i]
  if (mismatch)
    switch (want)
      {
      case 0: ok = dbus_message_get_args (m, &e, DBUS_TYPE_STRING, &s, DBUS_TYPE_INVALID); break;
      case 1: ok = dbus_message_get_args (m, &e, FD (0), DBUS_TYPE_STRING, &s, DBUS_TYPE_INVALID); break;
      case 2: ok = dbus_message_get_args (m, &e, FD (0), FD (1), DBUS_TYPE_STRING, &s, DBUS_TYPE_INVALID); break;
      case 3: ok = dbus_message_get_args (m, &e, FD (0), FD (1), FD (2), DBUS_TYPE_STRING, &s, DBUS_TYPE_INVALID); break;
      default: ok = dbus_message_get_args (m, &e, FD (0), FD (1), FD (2), FD (3), DBUS_TYPE_STRING, &s, DBUS_TYPE_INVALID); break;
      }
  else
    switch (want)
      {
      case 0: ok = dbus_message_get_args (m, &e, DBUS_TYPE_INVALID); break;
      case 1: ok = dbus_message_get_args (m, &e, FD (0), DBUS_TYPE_INVALID); break;
      case 2: ok = dbus_message_get_args (m, &e, FD (0), FD (1), DBUS_TYPE_INVALID); break;
      case 3: ok = dbus_message_get_args (m, &e, FD (0), FD (1), FD (2), DBUS_TYPE_INVALID); break;
      default: ok = dbus_message_get_args (m, &e, FD (0), FD (1), FD (2), FD (3), DBUS_TYPE_INVALID); break;
      }
#undef FD
  dbus_error_free (&e);
  return ok ? 1 : 0;
}

static void emit_file (int fd, int first)
{
  int id = id_of_fd (fd);
  if (id < 0) emit ("%s?", first ? "" : ","); else emit ("%s%d", first ? "" : ",", id);
}

static void run_api (char *line)
{
  char *save = NULL, *tok;
  DBusMessage *msg[MAXMSG]; int app[MAXAPP]; int napp = 0, app_open = 0, nopen = 0, base, i;
  outn = 0; out[0] = 0;
  memset (msg, 0, sizeof msg);
  strtok_r (line, " ", &save);
  base = count_fds ();
  while ((tok = strtok_r (NULL, " ", &save)) != NULL)
    {
      char *s2 = NULL; char *op = strtok_r (tok, ".", &s2);
      char *a1 = strtok_r (NULL, ".", &s2), *a2 = strtok_r (NULL, ".", &s2), *a3 = strtok_r (NULL, ".", &s2), *a4 = strtok_r (NULL, ".", &s2);
      int h = a1 ? atoi (a1) : 0;
      if (strchr ("FUVACGR", op[0]) && (h < 0 || h >= MAXMSG || msg[h] == NULL))
        emit ("?");               /* the handle does not exist here although the script expects it: an earlier call went wrong */
      else if (op[0] == 'O')
        {
          int f = open (scratch, O_RDONLY | O_CLOEXEC);
          nopen++; lseek (f, OFFSET + nopen, SEEK_SET);
          app[napp++] = f; app_open++;
          emit ("f%d", nopen);
        }
      else if (op[0] == 'N') { msg[h] = dbus_message_new_method_call (NULL, "/x", "x.I", "M"); emit ("."); }
      else if (op[0] == 'F') { dbus_message_ref (msg[h]); emit ("."); }
      else if (op[0] == 'U')
        {
          /* the model prints the files of the message when this is the last reference; the refcount is not visible
             through the API, so the harness tracks it in the handle table: a handle is dropped when the model says so,
             which the generator encodes by the op letter: U = not last, V = last */
          dbus_message_unref (msg[h]); emit (".");
        }
      else if (op[0] == 'V')
        {
          const int *mf; unsigned nmf, j;
          dbus_message_lock (msg[h]);
          _dbus_message_get_unix_fds (msg[h], &mf, &nmf);
          if (nmf == 0) emit ("-");
          for (j = 0; j < nmf; j++) emit_file (mf[j], j == 0);
          dbus_message_unref (msg[h]); msg[h] = NULL;
        }
      else if (op[0] == 'A')
        {
          DBusMessageIter it; dbus_bool_t ok; int okdup = atoi (a3);
          dbus_message_iter_init_append (msg[h], &it);
          if (!okdup) exhaust (0);
          ok = dbus_message_iter_append_basic (&it, DBUS_TYPE_UNIX_FD, &app[atoi (a2)]);
          if (!okdup) release ();
          emit ("%d", ok ? 1 : 0);
        }
      else if (op[0] == 'C')
        {
          int h2 = atoi (a2); int fail = strcmp (a3, "-") != 0;
          if (fail) exhaust (atoi (a3));
          msg[h2] = dbus_message_copy (msg[h]);
          if (fail) release ();
          emit ("%d", msg[h2] ? 1 : 0);
        }
      else if (op[0] == 'G')
        {
          DBusMessageIter it; int k = atoi (a2), okdup = atoi (a3), fd = -1;
          dbus_message_iter_init (msg[h], &it);
          for (i = 0; i < k; i++) dbus_message_iter_next (&it);
          if (!okdup) exhaust (0);
          if (dbus_message_iter_get_arg_type (&it) == DBUS_TYPE_UNIX_FD) dbus_message_iter_get_basic (&it, &fd);
          if (!okdup) release ();
          if (fd >= 0) { app[napp++] = fd; app_open++; emit_file (fd, 1); } else emit ("-");
        }
      else if (op[0] == 'R')
        {
          int want = atoi (a2), fail = strcmp (a3, "-") != 0, mm = atoi (a4), o[4], ok;
          if (fail) exhaust (atoi (a3));
          ok = get_args_n (msg[h], want, mm, o);
          if (fail) release ();
          if (ok) { if (want == 0) emit ("."); for (i = 0; i < want; i++) { app[napp++] = o[i]; app_open++; emit_file (o[i], i == 0); } }
          else emit ("-");
        }
      else if (op[0] == 'X') { close (app[h]); app[h] = -1; app_open--; emit ("."); }
      else emit ("?");
      emit ("/%d ", count_fds () - base - app_open);
    }
  for (i = 0; i < MAXMSG; i++) if (msg[i]) dbus_message_unref (msg[i]);
  for (i = 0; i < napp; i++) if (app[i] >= 0) close (app[i]);
  emit ("end/%d", count_fds () - base);
  printf ("%s\n", out);
}

int main (void)
{
  char *line = NULL; size_t cap = 0; struct stat st; int f;
  signal (SIGPIPE, SIG_IGN);
  { struct rlimit rl; getrlimit (RLIMIT_NOFILE, &rl); rl.rlim_cur = NOFILE_LIMIT; setrlimit (RLIMIT_NOFILE, &rl); }
  snprintf (scratch, sizeof scratch, "/tmp/verif_fds_scratch_%d", (int) getpid ());
  f = open (scratch, O_CREAT | O_RDWR | O_CLOEXEC, 0600);
  fstat (f, &st); sdev = st.st_dev; sino = st.st_ino;
  close (f);
  /* warm up global state (locks, message cache) so that it does not count against a case */
  { DBusMessage *m = dbus_message_new_signal ("/x", "x.I", "M"); dbus_message_unref (m); }
  while (getline (&line, &cap, stdin) > 0)
    {
      size_t l = strlen (line);
      while (l && (line[l - 1] == '\n' || line[l - 1] == '\r')) line[--l] = 0;
      if (strncmp (line, "run ", 4) == 0) run_case (line);
      else if (strncmp (line, "api", 3) == 0) run_api (line);
      else printf ("?unknown-command\n");
      fflush (stdout);
    }
  unlink (scratch);
  free (line);
  return 0;
}
