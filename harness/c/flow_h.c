/* flow_h: libdbus' incoming flow control on the REAL code (C11 flow leg), run against coq/Wire/Flow.v.
 *
 * in : flow  <max_size> <max_fds> <event>...     a real DBusCounter with the transport's guards and real messages
 *      tflow <max_size> <max_fds> <event>...     a real server-side DBusTransport/DBusConnection over a socketpair,
 *                                                driven by its watches like a main loop would (watch-driven receiver)
 *      events  A<size>,<nfds>   a message of exactly <size> bytes on the wire carrying <nfds> descriptors arrives
 *              W<size>,<nfds>   (tflow only) its bytes are written to the socket, the main loop does not run yet
 *              R<k>             (flow only) the last reference to the k-th live message is dropped, and the releasing thread has
 *                               not yet reached the _dbus_counter_notify of free_counter (see DELAYED below)
 *              U<k>             the last reference to the k-th live message is dropped (dbus_message_unref), everything runs
 *              N                _dbus_counter_notify on the counter
 *              L<ms>,<mf>       the limits are changed (_dbus_counter_set_notify / dbus_connection_set_max_received_*)
 * out: one entry per event, separated by blanks:  value,fdvalue,pending,watch,mayqueue   (tflow: pending is '-', and
 *      ",<undelivered>" is appended: messages written to the socket and not yet queued by the transport);
 *      "F" and stop at an impossible event; "?..." for unusable input.
 *
 * flow mode.  The counter is set up as _dbus_transport_init_base does (dbus/dbus-transport.c:197-201: guards = the two
 * limits, a notify function).  Messages are real DBusMessage objects charged with _dbus_message_add_counter_link and
 * released with dbus_message_unref (-> free_counter -> _dbus_counter_adjust_* + _dbus_counter_notify).  `watch` and
 * `mayqueue` are computed by the harness with the expressions of the transport:
 *
 *   dbus/dbus-transport-socket.c:195-197 (check_read_watch, authenticated)
 *       need_read_watch =
 *         (_dbus_counter_get_size_value (transport->live_messages) < transport->max_live_messages_size) &&
 *         (_dbus_counter_get_unix_fd_value (transport->live_messages) < transport->max_live_messages_unix_fds);
 *   dbus/dbus-transport.c:1123-1125 (_dbus_transport_get_dispatch_status)
 *       if (_dbus_counter_get_size_value (transport->live_messages) >= transport->max_live_messages_size ||
 *           _dbus_counter_get_unix_fd_value (transport->live_messages) >= transport->max_live_messages_unix_fds)
 *         return DBUS_DISPATCH_COMPLETE;
 *
 * check_read_watch runs (a) directly after a message is charged (dbus-transport.c:1194-1195, live_messages_changed called
 * by _dbus_transport_queue_messages), (b) when the counter calls the notify function (live_messages_notify,
 * dbus-transport.c:61-86) and (c) in the limit setters, right after _dbus_counter_set_notify (dbus-transport.c:1279-1282,
 * 1302-1305: `if (transport->vtable->live_messages_changed) (* transport->vtable->live_messages_changed) (transport);`):
 * L<ms>,<mf> in flow mode does exactly that on the counter (set_notify, then the quoted need_read_watch expression);
 * in tflow mode it calls the real dbus_connection_set_max_received_size / _unix_fds.  DELAYED: free_counter (dbus-message.c:619-632) adjusts the counter and then calls
 * _dbus_counter_notify; without the connection lock, so other threads can run in between (and live_messages_notify itself
 * starts by taking the connection lock, dbus-transport.c:66).  dbus_message_unref cannot be stopped half-way, so R<k> calls
 * it with the harness' notify function switched to "suppressed" and, if the function was called, sets notify_pending again
 * afterwards: the counter is then in exactly the state it has between the two halves of free_counter (values adjusted,
 * notification owed).  `pending` is notify_pending, which is private to dbus-resources.c: it is read by asking the real
 * counter (_dbus_counter_notify with a recording function) and set again by a pair of opposite adjustments that cross
 * the guard (values unchanged).
 *
 * tflow mode.  Nothing is computed by the harness except the two comparisons of `mayqueue` (on the real transport's
 * fields): the value is the transport's live_messages counter, `watch` is dbus_watch_get_enabled of the transport's
 * DBUS_WATCH_READABLE watch as handed to dbus_connection_set_watch_functions.  The harness plays the client end of the
 * socketpair (EXTERNAL handshake with NEGOTIATE_UNIX_FD, then marshalled messages, descriptors by SCM_RIGHTS).  After
 * every event it runs the main loop to quiescence: handle every ENABLED watch whose descriptor is ready, pop messages
 * when the dispatch-status function announced DBUS_DISPATCH_DATA_REMAINS (popped messages stay referenced = live). */
#include "common.h"
#include <dbus/dbus-resources.h>
#include <dbus/dbus-list.h>
#include <dbus/dbus-message-internal.h>
#include <dbus/dbus-message-private.h>
#include <dbus/dbus-transport.h>
#include <dbus/dbus-transport-protected.h>
#include <dbus/dbus-transport-socket.h>
#include <dbus/dbus-connection-internal.h>
#include <dbus/dbus-watch.h>
#include <sys/socket.h>
#include <sys/uio.h>
#include <poll.h>
#include <fcntl.h>
#include <unistd.h>
#include <errno.h>

#define MAXLIVE 4096

static DBusMessage *live[MAXLIVE];
static int n_live;
static int devnull = -1;

static void live_remove (int k)
{
  memmove (&live[k], &live[k + 1], (size_t) (n_live - k - 1) * sizeof live[0]);
  n_live--;
}

/* a signal whose marshalled length is exactly `size` and which carries `nfds` descriptors; *min_p = smallest possible */
static DBusMessage *make_message (long size, int nfds, long *min_p)
{
  int pass;
  long pad = 0;
  for (pass = 0; pass < 2; pass++)
    {
      DBusMessage *m = dbus_message_new_signal ("/f", "f.F", "M");
      DBusMessageIter it, sub;
      unsigned char *fill;
      const unsigned char *fp;
      long len;
      int i;
      if (m == NULL) abort ();
      dbus_message_iter_init_append (m, &it);
      for (i = 0; i < nfds; i++)
        if (!dbus_message_iter_append_basic (&it, DBUS_TYPE_UNIX_FD, &devnull)) abort ();
      fill = malloc ((size_t) pad + 1);
      memset (fill, 0x5a, (size_t) pad + 1);
      fp = fill;
      if (!dbus_message_iter_open_container (&it, DBUS_TYPE_ARRAY, "y", &sub)) abort ();
      if (pad > 0 && !dbus_message_iter_append_fixed_array (&sub, DBUS_TYPE_BYTE, &fp, (int) pad)) abort ();
      if (!dbus_message_iter_close_container (&it, &sub)) abort ();
      free (fill);
      dbus_message_set_serial (m, 7);
      len = _dbus_string_get_length (&m->header.data) + _dbus_string_get_length (&m->body);
      if (pass == 0)
        {
          *min_p = len;
          if (size < len || size - len > 60000000L) { dbus_message_unref (m); return NULL; }
          if (size == len) return m;
          pad = size - len;
          dbus_message_unref (m);
        }
      else
        {
          if (len != size) { dbus_message_unref (m); return NULL; }
          return m;
        }
    }
  return NULL;
}

static int parse_pair (const char *s, long *a, long *b)
{
  char *e;
  *a = strtol (s, &e, 10);
  if (e == s || *e != ',') return 0;
  s = e + 1;
  *b = strtol (s, &e, 10);
  return e != s && *e == 0;
}

/* =========================================================================================== flow: the bare counter */
static DBusCounter *counter;
static long max_size, max_fds;
static int watch;            /* the read watch, as check_read_watch would leave it */
static int hold_mode;        /* R<k>: the notify function is suppressed ... */
static int suppressed;       /* ... and was called */
static int probe_mode, probe_fired;
static int n_notify_calls;

static int need_read_watch (void)
{
  return (_dbus_counter_get_size_value (counter) < max_size) &&
         (_dbus_counter_get_unix_fd_value (counter) < max_fds);
}

static int may_queue (void)
{
  if (_dbus_counter_get_size_value (counter) >= max_size ||
      _dbus_counter_get_unix_fd_value (counter) >= max_fds)
    return 0;
  return 1;
}

/* stands for live_messages_notify -> socket_live_messages_changed -> check_read_watch */
static void on_notify (DBusCounter *c, void *data)
{
  (void) c; (void) data;
  n_notify_calls++;
  if (probe_mode) { probe_fired = 1; return; }
  if (hold_mode) { suppressed = 1; return; }
  watch = need_read_watch ();
}

/* set notify_pending without changing the values: one of the two excursions crosses the guard whatever side the value is on */
static void set_pending_flag (void)
{
  long v = _dbus_counter_get_size_value (counter);
  long d = (v < 0 ? -v : v) + (max_size < 0 ? -max_size : max_size) + 1000;
  _dbus_counter_adjust_size (counter, d); _dbus_counter_adjust_size (counter, -d);
  _dbus_counter_adjust_size (counter, -d); _dbus_counter_adjust_size (counter, d);
}

/* is notify_pending set?  ask the counter, then put the flag back */
static int probe_pending (void)
{
  probe_mode = 1; probe_fired = 0;
  _dbus_counter_notify (counter);
  if (probe_fired) set_pending_flag ();
  probe_mode = 0;
  return probe_fired;
}

static void print_flow_state (int first)
{
  int p = probe_pending ();
  printf ("%s%ld,%ld,%d,%d,%d", first ? "" : " ", _dbus_counter_get_size_value (counter), _dbus_counter_get_unix_fd_value (counter),
          p, watch, may_queue ());
}

static void do_flow (void)
{
  char *tok;
  int first = 1, i;
  tok = strtok (NULL, " "); if (tok == NULL) { puts ("?bad-args"); return; } max_size = atol (tok);
  tok = strtok (NULL, " "); if (tok == NULL) { puts ("?bad-args"); return; } max_fds = atol (tok);
  counter = _dbus_counter_new ();
  if (counter == NULL) abort ();
  _dbus_counter_set_notify (counter, max_size, max_fds, on_notify, NULL);
  n_live = 0; suppressed = 0; hold_mode = 0; probe_mode = 0;
  watch = need_read_watch ();
  while ((tok = strtok (NULL, " ")) != NULL)
    {
      long a, b;
      if (tok[0] == 'A' && parse_pair (tok + 1, &a, &b) && a >= 0 && b >= 0 && b <= 64)
        {
          if (may_queue ())
            {
              long min;
              DBusMessage *m = make_message (a, (int) b, &min);
              DBusList *link;
              if (m == NULL) { printf ("%s?minsize=%ld", first ? "" : " ", min); break; }
              if (n_live >= MAXLIVE) { printf ("%s?too-many", first ? "" : " "); dbus_message_unref (m); break; }
              link = _dbus_list_alloc_link (counter);
              if (link == NULL) abort ();
              _dbus_counter_ref (counter);
              _dbus_message_add_counter_link (m, link);
              live[n_live++] = m;
              watch = need_read_watch ();      /* dbus-transport.c:1194-1195 */
            }
        }
      else if ((tok[0] == 'R' || tok[0] == 'U') && tok[1] != 0)
        {
          long k = atol (tok + 1);
          DBusMessage *m;
          if (k < 0 || k >= n_live) { printf ("%sF", first ? "" : " "); break; }
          m = live[k];
          live_remove ((int) k);
          hold_mode = tok[0] == 'R'; suppressed = 0;
          dbus_message_unref (m);
          hold_mode = 0;
          if (suppressed) set_pending_flag ();
        }
      else if (tok[0] == 'N' && tok[1] == 0)
        {
          _dbus_counter_notify (counter);
        }
      else if (tok[0] == 'L' && parse_pair (tok + 1, &a, &b))
        {
          max_size = a; max_fds = b;
          _dbus_counter_set_notify (counter, max_size, max_fds, on_notify, NULL);
          watch = need_read_watch ();          /* dbus-transport.c:1281-1282, 1304-1305 */
        }
      else { printf ("%s?bad-event", first ? "" : " "); break; }
      print_flow_state (first);
      first = 0;
    }
  printf ("\n");
  for (i = 0; i < n_live; i++) dbus_message_unref (live[i]);
  n_live = 0;
  _dbus_counter_set_notify (counter, 0, 0, NULL, NULL);
  _dbus_counter_unref (counter);
  counter = NULL;
}

/* =============================================================================== tflow: a real transport on a socket */
#define MAXW 16
static DBusWatch *watches[MAXW];
static int n_watches;
static int need_dispatch;
static DBusConnection *conn;
static DBusTransport *transport;
static int peer = -1;
static long n_written, n_queued;

static dbus_bool_t add_watch (DBusWatch *w, void *data) { (void) data; if (n_watches >= MAXW) return FALSE; watches[n_watches++] = w; return TRUE; }
static void remove_watch (DBusWatch *w, void *data)
{
  int i; (void) data;
  for (i = 0; i < n_watches; i++) if (watches[i] == w) { watches[i] = watches[--n_watches]; return; }
}
static void toggle_watch (DBusWatch *w, void *data) { (void) w; (void) data; }
static void on_dispatch_status (DBusConnection *c, DBusDispatchStatus s, void *data) { (void) c; (void) data; if (s == DBUS_DISPATCH_DATA_REMAINS) need_dispatch = 1; }

static void drain_peer (void)
{
  char buf[4096];
  while (recv (peer, buf, sizeof buf, MSG_DONTWAIT) > 0) {}
}

/* the main loop, to quiescence.  Only ENABLED watches are polled; messages are popped only when announced. */
static void pump (void)
{
  int iter;
  for (iter = 0; iter < 100000; iter++)
    {
      int progressed = 0, i;
      DBusWatch *snap[MAXW];
      int ns = n_watches;
      memcpy (snap, watches, sizeof snap);
      for (i = 0; i < ns; i++)
        {
          DBusWatch *w = snap[i];
          struct pollfd p;
          unsigned int fl, cond = 0;
          int j, still = 0;
          for (j = 0; j < n_watches; j++) if (watches[j] == w) still = 1;
          if (!still || !dbus_watch_get_enabled (w)) continue;
          fl = dbus_watch_get_flags (w);
          p.fd = dbus_watch_get_socket (w); p.events = 0; p.revents = 0;
          if (fl & DBUS_WATCH_READABLE) p.events |= POLLIN;
          if (fl & DBUS_WATCH_WRITABLE) p.events |= POLLOUT;
          if (poll (&p, 1, 0) <= 0) continue;
          if (p.revents & POLLIN) cond |= DBUS_WATCH_READABLE;
          if (p.revents & POLLOUT) cond |= DBUS_WATCH_WRITABLE;
          if (p.revents & POLLHUP) cond |= DBUS_WATCH_HANGUP;
          if (p.revents & POLLERR) cond |= DBUS_WATCH_ERROR;
          if (cond == 0) continue;
          dbus_watch_handle (w, cond);
          progressed = 1;
        }
      drain_peer ();
      if (need_dispatch)
        {
          need_dispatch = 0;
          while (dbus_connection_get_dispatch_status (conn) == DBUS_DISPATCH_DATA_REMAINS)
            {
              DBusMessage *m = dbus_connection_pop_message (conn);
              if (m == NULL) break;
              if (n_live < MAXLIVE) { live[n_live++] = m; n_queued++; } else dbus_message_unref (m);
              progressed = 1;
            }
        }
      if (!progressed) break;
    }
}

static char read_watch_state (void)
{
  int i;
  for (i = 0; i < n_watches; i++)
    if (dbus_watch_get_flags (watches[i]) & DBUS_WATCH_READABLE)
      return dbus_watch_get_enabled (watches[i]) ? '1' : '0';
  return 'X';
}

static void print_tflow_state (int first)
{
  long v = _dbus_counter_get_size_value (transport->live_messages);
  long f = _dbus_counter_get_unix_fd_value (transport->live_messages);
  int mq = !(v >= transport->max_live_messages_size || f >= transport->max_live_messages_unix_fds);
  printf ("%s%ld,%ld,-,%c,%d,%ld", first ? "" : " ", v, f, read_watch_state (), mq, n_written - n_queued);
}

/* 1 = sent, 0 = the socket is full */
static int send_message (DBusMessage *m, int nfds)
{
  char *buf; int len, i;
  struct msghdr mh; struct iovec iov;
  union { char b[CMSG_SPACE (sizeof (int) * 64)]; struct cmsghdr a; } cm;
  ssize_t r;
  if (!dbus_message_marshal (m, &buf, &len)) abort ();
  memset (&mh, 0, sizeof mh);
  iov.iov_base = buf; iov.iov_len = (size_t) len;
  mh.msg_iov = &iov; mh.msg_iovlen = 1;
  if (nfds > 0)
    {
      struct cmsghdr *c;
      memset (&cm, 0, sizeof cm);
      mh.msg_control = cm.b; mh.msg_controllen = CMSG_SPACE (sizeof (int) * (size_t) nfds);
      c = CMSG_FIRSTHDR (&mh);
      c->cmsg_level = SOL_SOCKET; c->cmsg_type = SCM_RIGHTS; c->cmsg_len = CMSG_LEN (sizeof (int) * (size_t) nfds);
      for (i = 0; i < nfds; i++) memcpy (CMSG_DATA (c) + sizeof (int) * (size_t) i, &devnull, sizeof (int));
    }
  r = sendmsg (peer, &mh, MSG_DONTWAIT | MSG_NOSIGNAL);
  dbus_free (buf);
  return r == (ssize_t) len;
}

static void do_tflow (void)
{
  char *tok;
  int first = 1, i, sv[2];
  long ms, mf;
  DBusString guid;
  DBusSocket s;
  char hs[128], uid[32], hex[65];
  tok = strtok (NULL, " "); if (tok == NULL) { puts ("?bad-args"); return; } ms = atol (tok);
  tok = strtok (NULL, " "); if (tok == NULL) { puts ("?bad-args"); return; } mf = atol (tok);
  if (socketpair (AF_UNIX, SOCK_STREAM, 0, sv) != 0) { puts ("?socketpair"); return; }
  peer = sv[1];
  _dbus_string_init_const (&guid, "0123456789abcdef0123456789abcdef");
  s.fd = sv[0];
  _dbus_set_socket_nonblocking (s, NULL);   /* not reached by _dbus_transport_new_for_socket; the listening code does it */
  transport = _dbus_transport_new_for_socket (s, &guid, NULL);
  if (transport == NULL) abort ();
  conn = _dbus_connection_new_for_transport (transport);
  if (conn == NULL) abort ();
  n_watches = 0; need_dispatch = 0; n_live = 0; n_written = 0; n_queued = 0;
  if (!dbus_connection_set_watch_functions (conn, add_watch, remove_watch, toggle_watch, NULL, NULL)) abort ();
  dbus_connection_set_dispatch_status_function (conn, on_dispatch_status, NULL, NULL);
  dbus_connection_set_max_received_size (conn, ms);
  dbus_connection_set_max_received_unix_fds (conn, mf);
  /* the client's side of the handshake, pipelined */
  snprintf (uid, sizeof uid, "%ld", (long) getuid ());
  for (i = 0; uid[i]; i++) sprintf (hex + 2 * i, "%02x", (unsigned char) uid[i]);
  snprintf (hs, sizeof hs, "%cAUTH EXTERNAL %s\r\nNEGOTIATE_UNIX_FD\r\nBEGIN\r\n", 0, hex);
  if (send (peer, hs, 1 + strlen (hs + 1), MSG_NOSIGNAL) < 0) { puts ("?send"); goto out; }
  for (i = 0; i < 50 && !dbus_connection_get_is_authenticated (conn); i++) pump ();
  pump ();
  if (!dbus_connection_get_is_authenticated (conn)) { puts ("?not-authenticated"); goto out; }
  while ((tok = strtok (NULL, " ")) != NULL)
    {
      long a, b;
      if ((tok[0] == 'A' || tok[0] == 'W') && parse_pair (tok + 1, &a, &b) && a >= 0 && b >= 0 && b <= 16)
        {
          long min;
          DBusMessage *m = make_message (a, (int) b, &min);
          int ok;
          if (m == NULL) { printf ("%s?minsize=%ld", first ? "" : " ", min); break; }
          ok = send_message (m, (int) b);
          dbus_message_unref (m);
          if (!ok) { printf ("%s?sockfull", first ? "" : " "); break; }
          n_written++;
          if (tok[0] == 'A') pump ();
        }
      else if (tok[0] == 'U' && tok[1] != 0)
        {
          long k = atol (tok + 1);
          DBusMessage *m;
          if (k < 0 || k >= n_live) { printf ("%sF", first ? "" : " "); break; }
          m = live[k];
          live_remove ((int) k);
          dbus_message_unref (m);
          pump ();
        }
      else if (tok[0] == 'N' && tok[1] == 0)
        {
          _dbus_counter_notify (transport->live_messages);
          pump ();
        }
      else if (tok[0] == 'L' && parse_pair (tok + 1, &a, &b))
        {
          dbus_connection_set_max_received_size (conn, a);
          dbus_connection_set_max_received_unix_fds (conn, b);
          pump ();
        }
      else { printf ("%s?bad-event", first ? "" : " "); break; }
      print_tflow_state (first);
      first = 0;
    }
  printf ("\n");
out:
  for (i = 0; i < n_live; i++) dbus_message_unref (live[i]);
  n_live = 0;
  dbus_connection_set_dispatch_status_function (conn, NULL, NULL, NULL);
  dbus_connection_close (conn);
  while (dbus_connection_get_dispatch_status (conn) == DBUS_DISPATCH_DATA_REMAINS)
    {
      DBusMessage *m = dbus_connection_pop_message (conn);
      if (m == NULL) break;
      dbus_message_unref (m);
    }
  dbus_connection_unref (conn);
  _dbus_transport_unref (transport);
  conn = NULL; transport = NULL;
  close (peer); peer = -1;
}

int main (void)
{
  char *line = NULL; size_t cap = 0; ssize_t got;
  setvbuf (stdout, NULL, _IOLBF, 0);
  devnull = open ("/dev/null", O_RDONLY);
  while ((got = getline (&line, &cap, stdin)) > 0)
    {
      char *cmd;
      if (line[got - 1] == '\n') line[got - 1] = 0;
      cmd = strtok (line, " ");
      if (cmd == NULL) { printf ("\n"); continue; }
      if (!strcmp (cmd, "flow")) do_flow ();
      else if (!strcmp (cmd, "tflow")) do_tflow ();
      else printf ("?unknown-command\n");
    }
  free (line);
  fflush (stdout);
  return 0;
}
