/* In-process harness for the activation package (C19): the two parsers the
 * launch helper and the bus rely on, called directly in the freshly built
 * libraries (trusted glue).
 *
 *   shell <hex>   _dbus_shell_parse_argv on the C string
 *                 -> ok <hex>,<hex>... | err | nomem | err:<other error name>
 *   desk <hex>    bus_desktop_file_load on a file with exactly these bytes, then
 *                 bus_desktop_file_get_string for Name, Exec, User in [D-BUS Service]
 *                 -> ok N=<hex|~> E=<hex|~> U=<hex|~> | err
 */
#include "common.h"
#include <unistd.h>
#include <dbus/dbus-shell.h>
#include "desktop-file.h"

#define MAXTOK 8
static char tmp_path[256];

static void do_shell (const char *h)
{
  int n, argc = 0, i;
  char **argv = NULL;
  unsigned char *b = unhex (h, &n);
  DBusError error;
  dbus_error_init (&error);
  if (_dbus_shell_parse_argv ((const char *) b, &argc, &argv, &error))
    {
      fputs ("ok ", stdout);
      for (i = 0; i < argc; i++)
        {
          if (i) fputs (",", stdout);
          puthex ((const unsigned char *) argv[i], (int) strlen (argv[i]));
        }
      if (argv[argc] != NULL) fputs (" !unterminated", stdout);
      fputs ("\n", stdout);
      dbus_free_string_array (argv);
    }
  else
    {
      if (dbus_error_has_name (&error, DBUS_ERROR_INVALID_ARGS)) printf ("err\n");
      else if (dbus_error_has_name (&error, DBUS_ERROR_NO_MEMORY)) printf ("nomem\n");
      else printf ("err:%s\n", dbus_error_is_set (&error) ? error.name : "(unset)");
      dbus_error_free (&error);
    }
  free (b);
}

static void show_key (BusDesktopFile *df, const char *label, const char *key)
{
  char *val = NULL;
  DBusError error;
  dbus_error_init (&error);
  printf (" %s=", label);
  if (bus_desktop_file_get_string (df, "D-BUS Service", key, &val, &error))
    {
      puthex ((const unsigned char *) val, (int) strlen (val));
      dbus_free (val);
    }
  else
    {
      fputs ("~", stdout);
      dbus_error_free (&error);
    }
}

static void do_desk (const char *h)
{
  int n;
  unsigned char *b = unhex (h, &n);
  FILE *f = fopen (tmp_path, "wb");
  DBusString path;
  DBusError error;
  BusDesktopFile *df;
  if (f == NULL) { printf ("?cannot-write\n"); free (b); return; }
  if (n > 0 && fwrite (b, 1, (size_t) n, f) != (size_t) n) { printf ("?cannot-write\n"); fclose (f); free (b); return; }
  fclose (f);
  free (b);
  dbus_error_init (&error);
  _dbus_string_init_const (&path, tmp_path);
  df = bus_desktop_file_load (&path, &error);
  if (df == NULL)
    {
      printf ("err\n");
      dbus_error_free (&error);
      return;
    }
  fputs ("ok", stdout);
  show_key (df, "N", "Name");
  show_key (df, "E", "Exec");
  show_key (df, "U", "User");
  fputs ("\n", stdout);
  bus_desktop_file_free (df);
}

int main (void)
{
  static char line[1 << 20];
  static char *tok[MAXTOK];
  snprintf (tmp_path, sizeof tmp_path, "/tmp/verif_act_%ld.service", (long) getpid ());
  while (fgets (line, sizeof line, stdin) != NULL)
    {
      int n = 0; char *p = strtok (line, " \n");
      while (p != NULL && n < MAXTOK) { tok[n++] = p; p = strtok (NULL, " \n"); }
      if (n == 0) { printf ("\n"); continue; }
      if (strcmp (tok[0], "shell") == 0 && n == 2) do_shell (tok[1]);
      else if (strcmp (tok[0], "desk") == 0 && n == 2) do_desk (tok[1]);
      else printf ("?unknown-command\n");
      fflush (stdout);
    }
  unlink (tmp_path);
  return 0;
}
