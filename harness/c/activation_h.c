/* In-process harness for the activation package (C19): the two parsers the
 * launch helper and the bus rely on, called directly in the freshly built
 * libraries (trusted glue).
 *
 *   shell <hex>   _dbus_shell_parse_argv on the C string
 *                 -> ok <hex>,<hex>... | err | nomem | err:<other error name>
 *   desk <hex>    bus_desktop_file_load on a file with exactly these bytes, then
 *                 bus_desktop_file_get_string for Name, Exec, User in [D-BUS Service]
 *                 -> ok N=<hex|~> E=<hex|~> U=<hex|~> | err
 *   cache <flags> <op>*   the bus's service-file cache (bus/activation.c is compiled INTO this harness, so its static
 *                 functions and tables are reachable) on real directories d0..dk below a scratch root;
 *                 flags = one character per configured directory, '1' = BUS_SERVICE_DIR_FLAGS_STRICT_NAMING
 *                   W.<d>.<filehex>.<mtime>.<contenthex>   write the file, set its mtime
 *                   R.<d>.<filehex>                        remove the file
 *                   X.<d> / M.<d>                          remove / recreate the directory
 *                   L                                      first: bus_activation_new, later: bus_activation_reload
 *                   F.<namehex>                            activation_find_entry
 *                 -> one token per L / F:  <found|none|->/<table>/<readdir order of every directory at that moment>
 *                    entry = name:exec:user:systemd:mtime:dir:file (hex, ~ = absent), table sorted, entries joined by ';',
 *                    order = d0 files joined by ',' | d1 files ... ('!' = cannot be opened)
 */
#include "common.h"
#include <unistd.h>
#include <dirent.h>
#include <fcntl.h>
#include <sys/stat.h>
#include <dbus/dbus-shell.h>
#include "desktop-file.h"
#include "activation.c"

#define MAXTOK 4096
static char tmp_path[256];

static void do_shell (const char *h)
{
  int n, argc = 0, i;
  char **argv = NULL;
  unsigned char *b = unhex (h, &n);
  DBusError error;
  dbus_error_init (&error);
  if (_dbus_shell_parse_argv ((const char *) b, &argc, &argv, &error))
    {
      fputs ("ok ", stdout);
      for (i = 0; i < argc; i++)
        {
          if (i) fputs (",", stdout);
          puthex ((const unsigned char *) argv[i], (int) strlen (argv[i]));
        }
      if (argv[argc] != NULL) fputs (" !unterminated", stdout);
      fputs ("\n", stdout);
      dbus_free_string_array (argv);
    }
  else
    {
      if (dbus_error_has_name (&error, DBUS_ERROR_INVALID_ARGS)) printf ("err\n");
      else if (dbus_error_has_name (&error, DBUS_ERROR_NO_MEMORY)) printf ("nomem\n");
      else printf ("err:%s\n", dbus_error_is_set (&error) ? error.name : "(unset)");
      dbus_error_free (&error);
    }
  free (b);
}

static void show_key (BusDesktopFile *df, const char *label, const char *key)
{
  char *val = NULL;
  DBusError error;
  dbus_error_init (&error);
  printf (" %s=", label);
  if (bus_desktop_file_get_string (df, "D-BUS Service", key, &val, &error))
    {
      puthex ((const unsigned char *) val, (int) strlen (val));
      dbus_free (val);
    }
  else
    {
      fputs ("~", stdout);
      dbus_error_free (&error);
    }
}

static void do_desk (const char *h)
{
  int n;
  unsigned char *b = unhex (h, &n);
  FILE *f = fopen (tmp_path, "wb");
  DBusString path;
  DBusError error;
  BusDesktopFile *df;
  if (f == NULL) { printf ("?cannot-write\n"); free (b); return; }
  if (n > 0 && fwrite (b, 1, (size_t) n, f) != (size_t) n) { printf ("?cannot-write\n"); fclose (f); free (b); return; }
  fclose (f);
  free (b);
  dbus_error_init (&error);
  _dbus_string_init_const (&path, tmp_path);
  df = bus_desktop_file_load (&path, &error);
  if (df == NULL)
    {
      printf ("err\n");
      dbus_error_free (&error);
      return;
    }
  fputs ("ok", stdout);
  show_key (df, "N", "Name");
  show_key (df, "E", "Exec");
  show_key (df, "U", "User");
  fputs ("\n", stdout);
  bus_desktop_file_free (df);
}

/* ------------------------------------------------------------------ service-file cache */
#define MAXDIRS 4
#define MTIME_BASE 1000000000L
static BusContext *the_context;
static char root[256];
static int ncase;

static BusContext *get_context (void)
{
  char conf[300];
  FILE *f;
  DBusString cs;
  DBusError error;
  if (the_context != NULL) return the_context;
  snprintf (conf, sizeof conf, "%s.conf", root);
  f = fopen (conf, "w");
  fprintf (f, "<!DOCTYPE busconfig PUBLIC \"-//freedesktop//DTD D-Bus Bus Configuration 1.0//EN\" "
              "\"http://www.freedesktop.org/standards/dbus/1.0/busconfig.dtd\">\n<busconfig><type>session</type>"
              "<listen>unix:tmpdir=/tmp</listen><policy context=\"default\"><allow send_destination=\"*\"/><allow own=\"*\"/></policy></busconfig>\n");
  fclose (f);
  dbus_error_init (&error);
  _dbus_string_init_const (&cs, conf);
  the_context = bus_context_new (&cs, BUS_CONTEXT_FLAG_FORK_NEVER | BUS_CONTEXT_FLAG_SYSLOG_NEVER, NULL, NULL, NULL, &error);
  unlink (conf);
  if (the_context == NULL) { fprintf (stderr, "cannot create a BusContext: %s\n", error.message); exit (3); }
  return the_context;
}

static void hexcat (char *out, size_t cap, const char *s)
{
  size_t l = strlen (out), i, n = s ? strlen (s) : 0;
  if (s == NULL) { strncat (out, "~", cap - l - 1); return; }
  if (n == 0) { strncat (out, "-", cap - l - 1); return; }
  for (i = 0; i < n && l + 3 < cap; i++, l += 2) sprintf (out + l, "%02x", (unsigned char) s[i]);
}

static int dir_index (BusActivation *a, BusServiceDirectory *sd)
{
  DBusList *link; int i = 0;
  for (link = _dbus_list_get_first_link (&a->directories); link != NULL; link = _dbus_list_get_next_link (&a->directories, link), i++)
    if (link->data == sd) return i;
  return -1;
}

static void show_entry (BusActivation *a, BusActivationEntry *e, char *out, size_t cap)
{
  char num[64];
  out[0] = 0;
  hexcat (out, cap, e->name); strncat (out, ":", cap - strlen (out) - 1);
  hexcat (out, cap, e->exec); strncat (out, ":", cap - strlen (out) - 1);
  hexcat (out, cap, e->user); strncat (out, ":", cap - strlen (out) - 1);
  hexcat (out, cap, e->systemd_service);
  snprintf (num, sizeof num, ":%ld:%d:", (long) e->mtime - MTIME_BASE, dir_index (a, e->s_dir));
  strncat (out, num, cap - strlen (out) - 1);
  hexcat (out, cap, e->filename);
}

static int cmpstr (const void *a, const void *b) { return strcmp (*(char * const *) a, *(char * const *) b); }

static void show_table (BusActivation *a)
{
  DBusHashIter iter;
  char *rows[4096]; int n = 0, i;
  _dbus_hash_iter_init (a->entries, &iter);
  while (_dbus_hash_iter_next (&iter) && n < 4096)
    {
      char *buf = malloc (1 << 16);
      show_entry (a, _dbus_hash_iter_get_value (&iter), buf, 1 << 16);
      rows[n++] = buf;
    }
  qsort (rows, (size_t) n, sizeof rows[0], cmpstr);
  if (n == 0) fputs ("-", stdout);
  for (i = 0; i < n; i++) { if (i) fputs (";", stdout); fputs (rows[i], stdout); free (rows[i]); }
}

static void show_order (int ndirs)
{
  int d;
  for (d = 0; d < ndirs; d++)
    {
      char path[400]; DIR *dir; struct dirent *ent; int first = 1;
      snprintf (path, sizeof path, "%s/c%d/d%d", root, ncase, d);
      if (d) fputs ("|", stdout);
      dir = opendir (path);
      if (dir == NULL) { fputs ("!", stdout); continue; }
      while ((ent = readdir (dir)) != NULL)
        {
          if (strcmp (ent->d_name, ".") == 0 || strcmp (ent->d_name, "..") == 0) continue;
          if (!first) fputs (",", stdout);
          first = 0;
          puthex ((const unsigned char *) ent->d_name, (int) strlen (ent->d_name));
        }
      if (first) fputs ("-", stdout);
      closedir (dir);
    }
}

static void rm_rf_dir (const char *path)
{
  DIR *dir = opendir (path); struct dirent *ent;
  if (dir == NULL) return;
  while ((ent = readdir (dir)) != NULL)
    {
      char p[700];
      if (strcmp (ent->d_name, ".") == 0 || strcmp (ent->d_name, "..") == 0) continue;
      snprintf (p, sizeof p, "%s/%s", path, ent->d_name);
      unlink (p);
    }
  closedir (dir);
  rmdir (path);
}

static void do_cache (char **tok, int n)
{
  const char *flags = tok[1];
  int ndirs = (int) strlen (flags), d, i, started = 0, outputs = 0;
  BusConfigServiceDir configs[MAXDIRS];
  char paths[MAXDIRS][400];
  DBusList *directories = NULL;
  BusActivation *activation = NULL;
  DBusString address;
  char casedir[300];
  if (ndirs > MAXDIRS) { printf ("?too-many-dirs\n"); return; }
  ncase++;
  snprintf (casedir, sizeof casedir, "%s/c%d", root, ncase);
  mkdir (root, 0700);
  mkdir (casedir, 0700);
  _dbus_string_init_const (&address, "");
  for (d = 0; d < ndirs; d++)
    {
      snprintf (paths[d], sizeof paths[d], "%s/d%d", casedir, d);
      mkdir (paths[d], 0700);
      configs[d].path = paths[d];
      configs[d].flags = flags[d] == '1' ? BUS_SERVICE_DIR_FLAGS_STRICT_NAMING : BUS_SERVICE_DIR_FLAGS_NONE;
      _dbus_list_append (&directories, &configs[d]);
    }
  for (i = 2; i < n; i++)
    {
      char *op = tok[i];
      char *f[6]; int nf = 0; char *p = op;
      while (nf < 6) { f[nf++] = p; p = strchr (p, '.'); if (p == NULL) break; *p++ = 0; }
      if (op[0] == 'W' && nf == 5)
        {
          int fl, cl; unsigned char *fn = unhex (f[2], &fl), *content = unhex (f[4], &cl);
          char path[800]; FILE *fp; struct timespec ts[2];
          snprintf (path, sizeof path, "%s/%s", paths[atoi (f[1])], (char *) fn);
          fp = fopen (path, "wb");
          if (fp != NULL) { if (cl > 0) fwrite (content, 1, (size_t) cl, fp); fclose (fp); }
          ts[0].tv_sec = ts[1].tv_sec = MTIME_BASE + atol (f[3]); ts[0].tv_nsec = ts[1].tv_nsec = 0;
          utimensat (AT_FDCWD, path, ts, 0);
          free (fn); free (content);
        }
      else if (op[0] == 'R' && nf == 3)
        {
          int fl; unsigned char *fn = unhex (f[2], &fl); char path[800];
          snprintf (path, sizeof path, "%s/%s", paths[atoi (f[1])], (char *) fn);
          unlink (path);
          free (fn);
        }
      else if (op[0] == 'X' && nf == 2) rm_rf_dir (paths[atoi (f[1])]);
      else if (op[0] == 'M' && nf == 2) mkdir (paths[atoi (f[1])], 0700);
      else if (op[0] == 'L' && nf == 1)
        {
          DBusError error; dbus_error_init (&error);
          if (!started)
            {
              activation = bus_activation_new (get_context (), &address, &directories, &error);
              started = 1;
            }
          else if (!bus_activation_reload (activation, &address, &directories, &error))
            fputs ("?reload-failed", stdout);
          if (activation == NULL) { printf ("?new-failed\n"); dbus_error_free (&error); goto done; }
          if (outputs++) fputs (" ", stdout);
          fputs ("-/", stdout); show_table (activation); fputs ("/", stdout); show_order (ndirs);
        }
      else if (op[0] == 'F' && nf == 2 && activation != NULL)
        {
          int nl; unsigned char *name = unhex (f[1], &nl);
          DBusError error; BusActivationEntry *e; char buf[1 << 16];
          dbus_error_init (&error);
          if (outputs++) fputs (" ", stdout);
          /* the order is what the lookup is about to see */
          e = activation_find_entry (activation, (const char *) name, &error);
          if (e != NULL) { show_entry (activation, e, buf, sizeof buf); fputs (buf, stdout); }
          else { fputs (dbus_error_has_name (&error, DBUS_ERROR_SERVICE_UNKNOWN) ? "none" : "?error", stdout); dbus_error_free (&error); }
          fputs ("/", stdout); show_table (activation); fputs ("/", stdout); show_order (ndirs);
          free (name);
        }
      else { if (outputs++) fputs (" ", stdout); fputs ("?bad-op", stdout); }
    }
  if (!outputs) fputs ("-", stdout);
  fputs ("\n", stdout);
done:
  if (activation != NULL) bus_activation_unref (activation);
  _dbus_list_clear (&directories);
  for (d = 0; d < ndirs; d++) rm_rf_dir (paths[d]);
  rmdir (casedir);
}

int main (void)
{
  static char line[1 << 20];
  static char *tok[MAXTOK];
  snprintf (tmp_path, sizeof tmp_path, "/tmp/verif_act_%ld.service", (long) getpid ());
  snprintf (root, sizeof root, "/tmp/verif_actc_%ld", (long) getpid ());
  while (fgets (line, sizeof line, stdin) != NULL)
    {
      int n = 0; char *p = strtok (line, " \n");
      while (p != NULL && n < MAXTOK) { tok[n++] = p; p = strtok (NULL, " \n"); }
      if (n == 0) { printf ("\n"); continue; }
      if (strcmp (tok[0], "shell") == 0 && n == 2) do_shell (tok[1]);
      else if (strcmp (tok[0], "desk") == 0 && n == 2) do_desk (tok[1]);
      else if (strcmp (tok[0], "cache") == 0 && n >= 2) do_cache (tok, n);
      else printf ("?unknown-command\n");
      fflush (stdout);
    }
  unlink (tmp_path);
  rmdir (root);
  return 0;
}
