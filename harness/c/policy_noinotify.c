/* LD_PRELOAD shim for the end-to-end leg of C06 (harness/py/policy_e2e.py): makes inotify unavailable to the
 * dbus-daemon under test, so that bus/dir-watch-inotify.c falls back to "no directory watching".
 * Why: the daemon sends itself SIGHUP on ANY inotify event, including the IN_IGNORED that the kernel queues when a
 * reload drops a watched <includedir> -- i.e. every such reload is followed by a second, asynchronous reload at a
 * moment the test cannot bound (observed several operations later on a loaded machine).  Policy decisions do not
 * depend on the watch; reload is exercised through ReloadConfig (synchronous) and SIGHUP (regression R1). */
#include <errno.h>
int inotify_init1 (int flags) { (void) flags; errno = ENOSYS; return -1; }
int inotify_init (void) { errno = ENOSYS; return -1; }
