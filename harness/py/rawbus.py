"""Raw-wire D-Bus client and daemon runner (no libdbus on the client side, so
forged senders, unknown header fields, invalid bytes and partial writes are all
expressible).  Trusted glue; its encoder/decoder is cross-checked against the
extracted Coq spec encoder by the wire checks."""
import array, os, select, signal, socket, struct, subprocess, tempfile, time, shutil

# ---------------------------------------------------------------------------
# marshalling
# ---------------------------------------------------------------------------
ALIGN = {"y": 1, "b": 4, "n": 2, "q": 2, "i": 4, "u": 4, "x": 8, "t": 8, "d": 8, "s": 4, "o": 4, "g": 1, "h": 4,
         "a": 4, "(": 8, "{": 8, "v": 1}
FMT = {"y": "B", "n": "h", "q": "H", "i": "i", "u": "I", "x": "q", "t": "Q", "d": "d", "h": "I", "b": "I"}


def split_sig(sig):
    """split a signature into single complete types"""
    out, i = [], 0
    while i < len(sig):
        j = sct_end(sig, i)
        out.append(sig[i:j])
        i = j
    return out


def sct_end(sig, i):
    c = sig[i]
    if c == "a":
        return sct_end(sig, i + 1)
    if c in "({":
        close = ")" if c == "(" else "}"
        depth, j = 0, i
        while True:
            if sig[j] in "({":
                depth += 1
            elif sig[j] in ")}":
                depth -= 1
                if depth == 0:
                    return j + 1
            j += 1
    return i + 1


class Variant:
    def __init__(self, sig, val):
        self.sig, self.val = sig, val

    def __repr__(self):
        return "V(%r,%r)" % (self.sig, self.val)

    def __eq__(self, o):
        return isinstance(o, Variant) and o.sig == self.sig and o.val == self.val


def pad(buf, n):
    while len(buf) % n:
        buf.append(0)


def marshal(buf, sig, val, le=True):
    """append value `val` of single complete type `sig` to bytearray buf (alignment relative to buf start)"""
    e = "<" if le else ">"
    c = sig[0]
    if c in FMT:
        pad(buf, ALIGN[c])
        if c == "b":
            val = 1 if val else 0
        buf += struct.pack(e + FMT[c], val)
    elif c in "so":
        b = val if isinstance(val, (bytes, bytearray)) else val.encode("utf-8")
        pad(buf, 4)
        buf += struct.pack(e + "I", len(b)) + b + b"\0"
    elif c == "g":
        b = val if isinstance(val, (bytes, bytearray)) else val.encode("ascii")
        buf += bytes([len(b)]) + b + b"\0"
    elif c == "v":
        marshal(buf, "g", val.sig, le)
        marshal(buf, val.sig, val.val, le)
    elif c == "a":
        et = sig[1:]
        pad(buf, 4)
        lenpos = len(buf)
        buf += b"\0\0\0\0"
        pad(buf, ALIGN[et[0]])
        start = len(buf)
        if et[0] == "{":
            items = val.items() if isinstance(val, dict) else val
            for k, v in items:
                marshal(buf, et, (k, v), le)
        elif et == "y" and isinstance(val, (bytes, bytearray)):
            buf += val
        else:
            for x in val:
                marshal(buf, et, x, le)
        buf[lenpos:lenpos + 4] = struct.pack(e + "I", len(buf) - start)
    elif c in "({":
        pad(buf, 8)
        for t, x in zip(split_sig(sig[1:-1]), val):
            marshal(buf, t, x, le)
    else:
        raise ValueError("bad type " + sig)


def unmarshal(data, pos, sig, le=True):
    """decode one single complete type; returns (value, newpos).  No validation: trusts the daemon's output."""
    e = "<" if le else ">"
    c = sig[0]

    def al(p, n):
        return (p + n - 1) // n * n
    if c in FMT:
        pos = al(pos, ALIGN[c])
        n = struct.calcsize(FMT[c])
        v = struct.unpack_from(e + FMT[c], data, pos)[0]
        return (bool(v) if c == "b" else v), pos + n
    if c in "so":
        pos = al(pos, 4)
        n = struct.unpack_from(e + "I", data, pos)[0]
        return bytes(data[pos + 4:pos + 4 + n]).decode("utf-8", "replace"), pos + 4 + n + 1
    if c == "g":
        n = data[pos]
        return bytes(data[pos + 1:pos + 1 + n]).decode("ascii", "replace"), pos + 1 + n + 1
    if c == "v":
        s, pos = unmarshal(data, pos, "g", le)
        v, pos = unmarshal(data, pos, s, le)
        return Variant(s, v), pos
    if c == "a":
        et = sig[1:]
        pos = al(pos, 4)
        n = struct.unpack_from(e + "I", data, pos)[0]
        pos = al(pos + 4, ALIGN[et[0]])
        end = pos + n
        out = []
        while pos < end:
            v, pos = unmarshal(data, pos, et, le)
            out.append(v)
        return out, end
    if c in "({":
        pos = al(pos, 8)
        out = []
        for t in split_sig(sig[1:-1]):
            v, pos = unmarshal(data, pos, t, le)
            out.append(v)
        return tuple(out), pos
    raise ValueError("bad type " + sig)


METHOD_CALL, METHOD_RETURN, ERROR, SIGNAL = 1, 2, 3, 4
F_PATH, F_INTERFACE, F_MEMBER, F_ERROR_NAME, F_REPLY_SERIAL, F_DESTINATION, F_SENDER, F_SIGNATURE, F_UNIX_FDS, F_CONTAINER = range(1, 11)
FIELD_SIG = {1: "o", 2: "s", 3: "s", 4: "s", 5: "u", 6: "s", 7: "s", 8: "g", 9: "u", 10: "o"}
FIELD_NAME = {1: "path", 2: "interface", 3: "member", 4: "error_name", 5: "reply_serial", 6: "destination", 7: "sender",
              8: "signature", 9: "unix_fds", 10: "container_instance"}


class Msg:
    def __init__(self, mtype=METHOD_CALL, flags=0, serial=1, fields=None, sig="", body=(), le=True, extra_fields=()):
        self.mtype, self.flags, self.serial = mtype, flags, serial
        self.fields = dict(fields or {})      # code -> value (typed by FIELD_SIG)
        self.extra = list(extra_fields)        # [(code, Variant)] appended verbatim (unknown / forged fields)
        self.sig, self.body, self.le = sig, tuple(body), le
        self.fds = []

    def get(self, name):
        for k, n in FIELD_NAME.items():
            if n == name:
                return self.fields.get(k)
        return None

    def encode(self, field_order=None):
        e = "<" if self.le else ">"
        body = bytearray()
        for t, v in zip(split_sig(self.sig), self.body):
            marshal(body, t, v, self.le)
        fl = []
        f = dict(self.fields)
        if self.sig and F_SIGNATURE not in f:
            f[F_SIGNATURE] = self.sig
        for code in (field_order or sorted(f)):
            fl.append((code, Variant(FIELD_SIG[code], f[code])))
        fl += self.extra
        buf = bytearray()
        buf += bytes([ord("l") if self.le else ord("B"), self.mtype, self.flags, 1])
        buf += struct.pack(e + "II", len(body), self.serial)
        marshal(buf, "a(yv)", fl, self.le)
        pad(buf, 8)
        return bytes(buf + body)

    def __repr__(self):
        d = {FIELD_NAME.get(k, k): v for k, v in self.fields.items()}
        return "Msg(type=%d flags=%d serial=%d %r sig=%r body=%r extra=%r)" % (self.mtype, self.flags, self.serial, d, self.sig, self.body, self.extra)


def parse_message(data):
    """parse one complete message from bytes; returns (Msg, total_len) or (None, needed) if incomplete"""
    if len(data) < 16:
        return None, 16
    le = data[0] == ord("l")
    e = "<" if le else ">"
    body_len, serial, flen = struct.unpack_from(e + "III", data, 4)
    hlen = (16 + flen + 7) // 8 * 8
    total = hlen + body_len
    if len(data) < total:
        return None, total
    fl, _ = unmarshal(data, 12, "a(yv)", le)
    m = Msg(data[1], data[2], serial, le=le)
    for code, var in fl:
        if code in FIELD_SIG and code not in m.fields:
            m.fields[code] = var.val
        else:
            m.extra.append((code, var))
    m.sig = m.fields.get(F_SIGNATURE, "")
    vals, pos = [], hlen
    body = data[hlen:total]
    p = 0
    for t in split_sig(m.sig):
        v, p = unmarshal(body, p, t, le)
        vals.append(v)
    m.body = tuple(vals)
    m.raw = bytes(data[:total])
    return m, total


# ---------------------------------------------------------------------------
# connection
# ---------------------------------------------------------------------------
class RawConn:
    def __init__(self, address, uid=None, want_fds=False, auth=True, timeout=5.0):
        self.sock = socket.socket(socket.AF_UNIX, socket.SOCK_STREAM)
        self.sock.settimeout(timeout)
        kv = dict(x.split("=", 1) for x in address.split(":", 1)[1].split(",")[0:3] if "=" in x)
        if "abstract" in kv:
            self.sock.connect("\0" + kv["abstract"])
        else:
            self.sock.connect(kv["path"])
        self.buf = bytearray()
        self.fdq = []
        self.serial = 0
        self.unique = None
        self.inbox = []
        self.can_fds = False
        self.closed = False
        if auth:
            self.auth(uid, want_fds)

    def auth(self, uid=None, want_fds=False):
        uid = os.getuid() if uid is None else uid
        self.sock.sendall(b"\0AUTH EXTERNAL " + str(uid).encode().hex().encode() + b"\r\n")
        line = self._readline()
        if not line.startswith(b"OK"):
            raise IOError("auth failed: %r" % line)
        if want_fds:
            self.sock.sendall(b"NEGOTIATE_UNIX_FD\r\n")
            line = self._readline()
            self.can_fds = line.startswith(b"AGREE_UNIX_FD")
        self.sock.sendall(b"BEGIN\r\n")

    def _readline(self):
        while b"\r\n" not in self.buf:
            d = self.sock.recv(4096)
            if not d:
                raise IOError("eof during auth")
            self.buf += d
        i = self.buf.index(b"\r\n")
        line = bytes(self.buf[:i])
        del self.buf[:i + 2]
        return line

    def next_serial(self):
        self.serial += 1
        return self.serial

    def send_raw(self, data, fds=()):
        if fds:
            self.sock.sendmsg([data], [(socket.SOL_SOCKET, socket.SCM_RIGHTS, array.array("i", fds))])
        else:
            self.sock.sendall(data)

    def send(self, msg, fds=()):
        if msg.serial is None:
            msg.serial = self.next_serial()
        self.send_raw(msg.encode(), fds)
        return msg.serial

    def _pump(self, timeout):
        """read whatever is available within timeout; returns False on EOF"""
        r, _, _ = select.select([self.sock], [], [], timeout)
        if not r:
            return True
        try:
            data, anc, _, _ = self.sock.recvmsg(65536, socket.CMSG_LEN(64 * 4))
        except (ConnectionResetError, OSError):
            self.closed = True
            return False
        for lvl, typ, cd in anc:
            if lvl == socket.SOL_SOCKET and typ == socket.SCM_RIGHTS:
                a = array.array("i")
                a.frombytes(cd[:len(cd) - (len(cd) % a.itemsize)])
                self.fdq.extend(a)
        if not data:
            self.closed = True
            return False
        self.buf += data
        while True:
            m, n = parse_message(self.buf)
            if m is None:
                break
            del self.buf[:n]
            nf = m.fields.get(F_UNIX_FDS, 0)
            m.fds = self.fdq[:nf]
            del self.fdq[:nf]
            self.inbox.append(m)
        return True

    def drain(self, quiet=0.05, maxwait=2.0):
        """collect messages until the socket has been quiet for `quiet` seconds"""
        t_end = time.time() + maxwait
        while time.time() < t_end:
            n = len(self.inbox) + len(self.buf)
            if not self._pump(quiet):
                break
            if len(self.inbox) + len(self.buf) == n:
                break
        out, self.inbox = self.inbox, []
        return out

    def wait_reply(self, serial, timeout=5.0):
        """wait for the reply to `serial`; other messages stay in inbox"""
        t_end = time.time() + timeout
        while True:
            for i, m in enumerate(self.inbox):
                if m.fields.get(F_REPLY_SERIAL) == serial and m.mtype in (METHOD_RETURN, ERROR):
                    return self.inbox.pop(i)
            if self.closed or time.time() > t_end:
                return None
            self._pump(max(0.0, min(0.5, t_end - time.time())))

    def call(self, member, sig="", body=(), dest="org.freedesktop.DBus", path="/org/freedesktop/DBus",
             iface="org.freedesktop.DBus", flags=0, timeout=5.0, **kw):
        m = Msg(METHOD_CALL, flags, self.next_serial(), {F_PATH: path, F_MEMBER: member}, sig, body, **kw)
        if iface is not None:
            m.fields[F_INTERFACE] = iface
        if dest is not None:
            m.fields[F_DESTINATION] = dest
        self.send(m)
        return self.wait_reply(m.serial, timeout)

    def hello(self):
        r = self.call("Hello")
        if r is not None and r.mtype == METHOD_RETURN:
            self.unique = r.body[0]
        return r

    def barrier(self, timeout=5.0):
        """round trip to the driver: everything sent before has been processed by the bus"""
        return self.call("GetId", timeout=timeout)

    def is_closed(self, wait=0.2):
        if self.closed:
            return True
        self._pump(wait)
        return self.closed

    def close(self):
        try:
            self.sock.close()
        except OSError:
            pass
        self.closed = True


# ---------------------------------------------------------------------------
# daemon
# ---------------------------------------------------------------------------
SESSION_CONF = """<!DOCTYPE busconfig PUBLIC "-//freedesktop//DTD D-Bus Bus Configuration 1.0//EN"
 "http://www.freedesktop.org/standards/dbus/1.0/busconfig.dtd">
<busconfig>
  <type>%(type)s</type>
  <listen>unix:path=%(sock)s</listen>
  %(auth)s
  %(servicedirs)s
  %(policy)s
  %(limits)s
</busconfig>
"""

ALLOW_ALL = """<policy context="default">
    <allow send_destination="*" eavesdrop="true"/>
    <allow eavesdrop="true"/>
    <allow own="*"/>
  </policy>"""


class Daemon:
    def __init__(self, exe, policy=ALLOW_ALL, limits="", servicedirs="", bustype="session", auth="", env=None, extra_conf=None):
        self.dir = tempfile.mkdtemp(prefix="verif_bus_")
        self.sock = os.path.join(self.dir, "bus")
        conf = extra_conf if extra_conf is not None else SESSION_CONF % {"type": bustype, "sock": self.sock, "policy": policy,
                                                                         "limits": limits, "servicedirs": servicedirs, "auth": auth}
        self.conf = os.path.join(self.dir, "bus.conf")
        with open(self.conf, "w") as f:
            f.write(conf)
        e = dict(os.environ)
        e["ASAN_OPTIONS"] = "detect_leaks=0:abort_on_error=0:exitcode=99:log_path=" + os.path.join(self.dir, "asan")
        e["UBSAN_OPTIONS"] = "print_stacktrace=1:halt_on_error=1:log_path=" + os.path.join(self.dir, "ubsan")
        e.pop("DBUS_SESSION_BUS_ADDRESS", None)
        if env:
            e.update(env)
        self.errf = open(os.path.join(self.dir, "stderr"), "w")
        self.proc = subprocess.Popen([exe, "--config-file=" + self.conf, "--nofork", "--nopidfile", "--nosyslog"], stdout=subprocess.DEVNULL,
                                     stderr=self.errf, env=e)
        self.address = "unix:path=" + self.sock
        t_end = time.time() + 10
        while True:
            if self.proc.poll() is not None or time.time() > t_end:
                raise IOError("daemon did not start: " + self.stderr())
            if os.path.exists(self.sock):
                # the socket file appears at bind(); wait until listen() has happened too
                probe = socket.socket(socket.AF_UNIX, socket.SOCK_STREAM)
                try:
                    probe.connect(self.sock)
                    probe.close()
                    break
                except OSError:
                    probe.close()
            time.sleep(0.005)

    def connect(self, **kw):
        return RawConn(self.address, **kw)

    def alive(self):
        return self.proc.poll() is None

    def stderr(self):
        self.errf.flush()
        out = open(os.path.join(self.dir, "stderr"), errors="replace").read()
        for f in os.listdir(self.dir):
            if f.startswith("asan") or f.startswith("ubsan"):
                out += "\n" + open(os.path.join(self.dir, f), errors="replace").read()
        return out

    def nfds(self):
        try:
            return len(os.listdir("/proc/%d/fd" % self.proc.pid))
        except OSError:
            return -1

    def stop(self):
        """returns (exit_status, sanitizer/stderr text)"""
        rc = self.proc.poll()
        if rc is None:
            self.proc.send_signal(signal.SIGTERM)
            try:
                rc = self.proc.wait(timeout=5)
            except subprocess.TimeoutExpired:
                self.proc.kill()
                rc = self.proc.wait()
        err = self.stderr()
        self.errf.close()
        shutil.rmtree(self.dir, ignore_errors=True)
        return rc, err
