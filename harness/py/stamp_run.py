"""Implementation side of the C03 check: replays a history (the same text the extracted
model reads, see ml/stamp/driver.ml) against a fresh dbus-daemon with raw-wire clients and
returns, per event, the raw bytes every client received and which sockets the bus closed.

  C.<c>         connect + authenticate a raw client
  D.<c>         the client closes its socket
  S.<c>.<hex>   the client writes these bytes (one complete message)
  A.<hex name>.<hex error>   the process the bus started for <name> has failed (service file with
                Exec=/bin/false): wait until the bus has told the writers of the kept messages

Activatable names come with the history: [name, "hold"] gets a service file whose process never claims
the name (Exec=/bin/true: exit status 0 is ignored by the bus, the activation stays pending until its
25 s timeout; a long-lived child would keep the babysitter process alive, which holds copies of all the
daemon's sockets, so that a connection closed by the bus would not see EOF), so messages are kept until
some client requests the name; [name, "fail"] one
whose process exits with status 1.  The bus reports such a failure whenever it notices it, so error
replies named org.freedesktop.DBus.Error.Spawn.* are withheld from the step in which they happen to arrive
and reported with the A event that the generator places right after the message.

Conventions the generator keeps: client 0 is the observer (it connects, says Hello and adds a match
for NameOwnerChanged first, never sends junk, never disconnects); generated serials are in
[GEN_LO, GEN_HI); the runner's own synchronisation traffic uses serials >= HIGH and is removed from
what is reported (also from what a monitor saw).

Synchronisation is by round trips only: after every event the acting client does a GetId round
trip (answered with the id, or with AccessDenied before Hello: either way a reply), then every
other live client does; a monitor cannot send, so it reads until it has seen the copy of the
observer's GetId reply, which the observer requests last.  A disconnect of a registered client is
awaited through NameOwnerChanged at the observer."""
import os, shutil, sys, tempfile, time
sys.path.insert(0, os.path.dirname(os.path.abspath(__file__)))
import rawbus
from rawbus import Msg, METHOD_CALL, METHOD_RETURN, ERROR, SIGNAL, F_PATH, F_INTERFACE, F_MEMBER, F_ERROR_NAME, \
    F_REPLY_SERIAL, F_DESTINATION, F_SENDER, F_SIGNATURE

BUS = "org.freedesktop.DBus"
HIGH = 1000000
GEN_LO, GEN_HI = 100000, 900000


def is_sync(m):
    return m.serial >= HIGH or m.fields.get(F_REPLY_SERIAL, 0) >= HIGH


def is_spawn_error(m):
    return m.mtype == ERROR and m.fields.get(F_ERROR_NAME, "").startswith("org.freedesktop.DBus.Error.Spawn.")


class Runner:
    def __init__(self, exe, maxc, acts=()):
        limits = '<limit name="max_completed_connections">%d</limit>' % maxc
        self.svcdir = None
        servicedirs = ""
        if acts:
            self.svcdir = tempfile.mkdtemp(prefix="verif_c03_svc_")
            for name, kind in acts:
                with open(os.path.join(self.svcdir, name + ".service"), "w") as f:
                    f.write("[D-BUS Service]\nName=%s\nExec=%s\n" % (name, "/bin/true" if kind == "hold" else "/bin/false"))
            servicedirs = "<servicedir>%s</servicedir>" % self.svcdir
        self.d = rawbus.Daemon(exe, limits=limits, servicedirs=servicedirs)
        self.cl = {}           # c -> RawConn
        self.name = {}         # c -> unique name seen in the Hello reply
        self.monitors = set()
        self.sync_serial = HIGH

    def connect(self):
        t_end = time.time() + 10
        while True:
            try:
                return self.d.connect()
            except (ConnectionRefusedError, FileNotFoundError):
                if time.time() > t_end or not self.d.alive():
                    raise
                time.sleep(0.005)

    def roundtrip(self, c):
        """GetId round trip on client c; False if the socket was closed by the bus"""
        conn = self.cl[c]
        self.sync_serial += 1
        s = self.sync_serial
        m = Msg(METHOD_CALL, 0, s, {F_PATH: "/org/freedesktop/DBus", F_INTERFACE: BUS, F_MEMBER: "GetId", F_DESTINATION: BUS})
        try:
            conn.send(m)
        except OSError:
            conn.closed = True
            return False, s
        r = conn.wait_reply(s, timeout=10.0)
        if r is None and not conn.closed:
            raise IOError("no reply to the synchronisation call on client %d" % c)
        return r is not None, s

    def peek_reply(self, c, serial):
        """wait until the reply to `serial` is in c's inbox (it stays there); True if it is a method return from the bus"""
        conn = self.cl[c]
        t_end = time.time() + 10
        k = 0
        while True:
            while k < len(conn.inbox):
                m = conn.inbox[k]
                k += 1
                if m.mtype in (METHOD_RETURN, ERROR) and m.fields.get(F_REPLY_SERIAL) == serial:
                    return m.mtype == METHOD_RETURN and m.fields.get(F_SENDER) == BUS
            if conn.closed or time.time() > t_end:
                return False
            conn._pump(0.5)

    def monitor_sync(self, mon, serial):
        conn = self.cl[mon]
        t_end = time.time() + 10
        k = 0
        while True:
            while k < len(conn.inbox):
                m = conn.inbox[k]
                k += 1
                if m.mtype == METHOD_RETURN and m.fields.get(F_REPLY_SERIAL) == serial:
                    return
            if conn.closed or time.time() > t_end:
                raise IOError("monitor %d did not see the synchronisation reply" % mon)
            conn._pump(0.5)

    def wait_gone(self, unique):
        obs = self.cl.get(0)
        if obs is None:
            return
        t_end = time.time() + 4
        k = 0
        while True:
            while k < len(obs.inbox):
                m = obs.inbox[k]
                k += 1
                if m.mtype == SIGNAL and m.fields.get(F_MEMBER) == "NameOwnerChanged" and m.fields.get(F_SENDER) == BUS and \
                        len(m.body) == 3 and m.body[0] == unique and m.body[1] == unique:     # whoever the bus says owns it now
                    return
            if obs.closed or time.time() > t_end:
                # no NameOwnerChanged for the name: go on; the comparison reports the missing signal
                return
            obs._pump(0.5)

    def settle(self, first):
        """returns the set of clients whose socket was found closed"""
        closed = []
        order = ([first] if first in self.cl else []) + [c for c in sorted(self.cl) if c != first and c != 0] + ([0] if 0 in self.cl and first != 0 else [])
        last = None
        for c in order:
            if c in self.monitors:
                continue
            ok, s = self.roundtrip(c)
            if not ok:
                closed.append(c)
            else:
                last = s
        if self.monitors:
            if 0 in self.cl and 0 not in closed and 0 not in self.monitors:
                if first == 0:
                    ok, last = self.roundtrip(0)
                for mon in self.monitors:
                    self.monitor_sync(mon, last)
        return closed

    def collect(self, with_spawn_errors=False):
        got = {}
        for c, conn in self.cl.items():
            msgs = [m for m in conn.inbox if not is_sync(m) and (with_spawn_errors or not is_spawn_error(m))]
            conn.inbox = [m for m in conn.inbox if is_spawn_error(m) and not with_spawn_errors]
            if msgs:
                got[c] = [m.raw.hex() for m in msgs]
        return got

    def step(self, ev):
        kind, rest = ev[0], ev[2:]
        closed = []
        if kind == "A":
            t_end = time.time() + 6
            while time.time() < t_end and not any(is_spawn_error(m) for conn in self.cl.values() for m in conn.inbox):
                for conn in list(self.cl.values()):
                    if not conn.closed:
                        conn._pump(0.01)
            closed = self.settle(0)
            got = self.collect(with_spawn_errors=True)
            for c in closed:
                self.cl[c].close()
                del self.cl[c]
                self.name.pop(c, None)
                self.monitors.discard(c)
            return {"recv": got, "closed": sorted(closed)}
        if kind == "C":
            c = int(rest)
            if c in self.cl:
                return {"ill": True}
            self.cl[c] = self.connect()
            closed = self.settle(c)
        elif kind == "D":
            c = int(rest)
            if c not in self.cl:
                return {"ill": True}
            self.cl[c].close()
            del self.cl[c]
            self.monitors.discard(c)
            nm = self.name.pop(c, None)
            if nm is not None:
                self.wait_gone(nm)
            closed = self.settle(0)
        else:
            cs, hx = rest.split(".")
            c = int(cs)
            if c not in self.cl:
                return {"ill": True}
            raw = bytes.fromhex(hx)
            sent, _ = rawbus.parse_message(raw)
            try:
                self.cl[c].send_raw(raw)
            except OSError:
                self.cl[c].closed = True
            if sent is not None and sent.fields.get(F_MEMBER) == "BecomeMonitor" and sent.fields.get(F_DESTINATION) == BUS and \
                    sent.mtype == METHOD_CALL and not (sent.flags & 1):
                # a monitor must not send any more: wait for the answer to this very call instead of a round trip
                if self.peek_reply(c, sent.serial):
                    self.monitors.add(c)
            closed = self.settle(c)
            # remember what the implementation told the client its name is
            if c not in closed and sent is not None:
                for m in self.cl[c].inbox:
                    if m.mtype == METHOD_RETURN and m.fields.get(F_REPLY_SERIAL) == sent.serial and m.fields.get(F_SENDER) == BUS:
                        if sent.fields.get(F_MEMBER) == "Hello" and sent.fields.get(F_DESTINATION) == BUS and m.sig == "s" and c not in self.name:
                            self.name[c] = m.body[0]
        got = self.collect()
        for c in closed:
            self.cl[c].close()
            del self.cl[c]
            self.name.pop(c, None)
            self.monitors.discard(c)
        return {"recv": got, "closed": sorted(closed)}

    def final_probe(self):
        """ListNames and GetNameOwner for every unique name listed, asked by the observer"""
        obs = self.cl.get(0)
        if obs is None or 0 in self.monitors:
            return None
        obs.serial = max(obs.serial, self.sync_serial) + 1000
        r = obs.call("ListNames")
        self.sync_serial = obs.serial
        if r is None or r.mtype != METHOD_RETURN:
            return None
        uniq = sorted(n for n in r.body[0] if n.startswith(":"))
        owners = {}
        for n in uniq:
            rr = obs.call("GetNameOwner", "s", (n,))
            owners[n] = rr.body[0] if rr is not None and rr.mtype == METHOD_RETURN else None
        self.sync_serial = obs.serial
        return {"list": uniq, "owners": owners, "sender_ok": r.fields.get(F_SENDER) == BUS}

    def stop(self):
        for conn in self.cl.values():
            conn.close()
        r = self.d.stop()
        if self.svcdir:
            shutil.rmtree(self.svcdir, ignore_errors=True)
        return r


def run_history(exe, maxc, events, acts=()):
    """returns (per-event results, final probe, (rc, stderr) of the daemon, error text or None)"""
    r = Runner(exe, maxc, acts)
    out, probe, err = [], None, None
    try:
        for ev in events:
            out.append(r.step(ev))
        probe = r.final_probe()
    except Exception as e:   # synchronisation failure: report, the caller decides
        err = "%s: %s" % (type(e).__name__, e)
    rc = r.stop()
    return out, probe, rc, err


def run_chunk(args):
    exe, cases = args
    res = []
    for idx, maxc, events, acts in cases:
        res.append((idx,) + run_history(exe, maxc, events, acts))
    return res
