"""C10 generators: client-side attack scripts for the model (Robust.Env) and the daemon.

A script is a dict {"kind", "cfg", "events": [tokens], "canaries": [hex]} where the tokens
are the model driver's syntax: C<c> | W<c>:<hex> | X<c> | S<ms>."""
import os, random, struct, sys
sys.path.insert(0, os.path.join(os.path.dirname(os.path.abspath(__file__)), "..", "..", "tools"))
sys.path.insert(0, os.path.dirname(os.path.abspath(__file__)))
import wiregen
from rawbus import Msg, Variant, METHOD_CALL, METHOD_RETURN, ERROR, SIGNAL, F_PATH, F_INTERFACE, F_MEMBER, F_DESTINATION, F_REPLY_SERIAL

UID = os.getuid()
DRIVER = "org.freedesktop.DBus"
MAXMSG = 32768
CFG_MAIN = {"max_incomplete": 64, "auth_timeout": 120000, "max_message_size": MAXMSG}
CFG_BOUND = {"max_incomplete": 4, "auth_timeout": 120000, "max_message_size": MAXMSG}
CFG_TIMED = {"max_incomplete": 4, "auth_timeout": 1000, "max_message_size": MAXMSG}
CFG_CLOSE = {"max_incomplete": 64, "auth_timeout": 120000, "max_message_size": MAXMSG, "fresh_daemon": 1}   # one daemon per script: unique names are predictable
CFG_SLOTS = {"max_incomplete": 64, "auth_timeout": 120000, "max_message_size": MAXMSG, "fresh_daemon": 1,
             "extra_limits": {"max_connections_per_user": 7, "max_match_rules_per_connection": 4}}    # 4 bystanders + 3 hostile slots
CFG_ACT = {"max_incomplete": 64, "auth_timeout": 120000, "max_message_size": MAXMSG, "fresh_daemon": 1, "services": 1,
           "extra_limits": {"service_start_timeout": 900}}     # c10.act.fail exits 1 after 300 ms, c10.act.hang never claims its name
CFG_THROTTLE = {"max_incomplete": 64, "auth_timeout": 120000, "max_message_size": MAXMSG, "fresh_daemon": 1,
                "extra_limits": {"max_incoming_bytes": 300000}}        # the bus stops reading from a client whose undelivered messages exceed this
FIRST_UNIQUE = 4          # on a fresh daemon of the run: :1.0 monitor, :1.1/:1.2 the pair, :1.3 the observer
CFG_QUOTA = {"max_incomplete": 64, "auth_timeout": 120000, "max_message_size": MAXMSG, "extra_limits": {"max_outgoing_bytes": 200000}}

AUTH_LINE = b"AUTH EXTERNAL " + str(UID).encode().hex().encode() + b"\r\n"
AUTH_OK = b"\0" + AUTH_LINE + b"BEGIN\r\n"


def hello(serial=1, **kw):
    f = {F_PATH: "/org/freedesktop/DBus", F_MEMBER: "Hello", F_INTERFACE: DRIVER, F_DESTINATION: DRIVER}
    f.update(kw.pop("fields", {}))
    return Msg(METHOD_CALL, 0, serial, f, **kw)


def getid(serial):
    return Msg(METHOD_CALL, 0, serial, {F_PATH: "/org/freedesktop/DBus", F_MEMBER: "GetId", F_INTERFACE: DRIVER, F_DESTINATION: DRIVER})


class Script:
    def __init__(self, kind, cfg, rnd):
        self.kind, self.cfg, self.rnd = kind, cfg, rnd
        self.tracks = {}          # conn -> list of tokens (per-connection order is kept when tracks are merged)
        self.order = []           # explicit global order when given
        self.canaries = []
        self.bad = []             # the deliberately corrupted messages (for the reason-code statistics only)
        self.nconn = 0
        self.serial = 100
        # one write = at most what the transport takes between two dispatches (4096 bytes), so that the number of
        # messages dispatched after one that closes the sender does not depend on how the kernel hands a big write over;
        # families whose senders are registered (nothing closes them but an invalid stream) use big writes
        self.maxw = 60000 if kind in ("flood", "oversized", "quota", "blast") else 4096

    def conn(self):
        self.nconn += 1
        self.tracks[self.nconn] = ["C%d" % self.nconn]
        return self.nconn

    def w(self, c, data):
        # the extracted model recurses over byte lists: keep single writes moderate (the daemon reads 2048 bytes at a time anyway)
        data = bytes(data)
        for i in range(0, len(data), self.maxw):
            self.tracks[c].append("W%d:%s" % (c, data[i:i + self.maxw].hex()))

    def x(self, c):
        self.tracks[c].append("X%d" % c)

    def canary(self):
        cn = ("CNRY" + "".join(self.rnd.choice("abcdefghijklmnopqrstuvwxyz") for _ in range(10))).encode()
        self.canaries.append(cn)
        return cn

    def next_serial(self):
        self.serial += 1
        return self.serial

    def valid_msg(self, max_depth=2):
        """a random valid message carrying a canary in its last argument"""
        m = wiregen.rand_message(self.rnd, max_depth=max_depth)
        m.serial = self.next_serial()
        cn = self.canary()
        m.sig += "s"
        m.body = tuple(m.body) + (cn.decode(),)
        if 8 not in m.order:
            m.order = m.order + [8]
        return wiregen.encode(m), cn

    def write_chunked(self, c, stream, maxcuts=3):
        n = self.rnd.choice((0, 0, 1, 1, 2, maxcuts))
        cuts = sorted(set(self.rnd.randrange(1, len(stream)) for _ in range(n))) if len(stream) > 1 else []
        prev = 0
        for k in cuts + [len(stream)]:
            self.w(c, stream[prev:k])
            prev = k

    def merged(self):
        """interleave the tracks at random, keeping each connection's order"""
        tracks = {c: list(t) for c, t in self.tracks.items()}
        out = []
        while tracks:
            c = self.rnd.choice(sorted(tracks))
            # bias: finish a few events of the same connection in a row
            for _ in range(self.rnd.randint(1, 3)):
                if tracks[c]:
                    out.append(tracks[c].pop(0))
            if not tracks[c]:
                del tracks[c]
        return out

    def done(self, events=None):
        d = {"kind": self.kind, "cfg": self.cfg, "events": events if events is not None else self.merged(),
             "canaries": [c.hex() for c in self.canaries]}
        if self.bad:
            d["bad"] = [b.hex() for b in self.bad if len(b) <= 70000]
        return d


# ---------------------------------------------------------------------------
# mutations
# ---------------------------------------------------------------------------
LIMIT_WORDS = (0, 1, 7, 8, 0x7fffffff, 0x80000000, 0xffffffff, 1 << 27, (1 << 27) + 1, (1 << 27) - 1, MAXMSG, MAXMSG + 1, MAXMSG - 1,
               MAXMSG - 16, 0xfffffff8, 0x10000)


def mutate(rnd, b):
    """one corruption of a valid message: returns (bytes, description)"""
    b = bytearray(b)
    le = b[0] == ord("l")
    hl = wiregen.header_len(bytes(b))
    r = rnd.random()
    if r < 0.40:
        # a byte anywhere (biased to the header, where every byte is a field of its own)
        i = rnd.randrange(min(len(b), hl)) if rnd.random() < 0.7 else rnd.randrange(len(b))
        v = rnd.choice(wiregen.MUT_VALUES + ((b[i] + 1) & 0xff, (b[i] - 1) & 0xff, b[i] ^ 0x20, b[i] ^ 0x80))
        if v == b[i]:
            v ^= 1
        b[i] = v
        return bytes(b), "byte@%d=%d" % (i, v)
    if r < 0.65:
        # a 32-bit word at a 4-aligned offset (lengths live there) set to a limit value
        offs = [4, 8, 12] + list(range(16, len(b) - 3, 4))
        i = rnd.choice(offs[:3]) if rnd.random() < 0.4 else rnd.choice(offs)
        v = rnd.choice(LIMIT_WORDS + (len(b), len(b) - hl + 1, max(0, len(b) - hl - 1)))
        struct.pack_into("<I" if le else ">I", b, i, v & 0xffffffff)
        return bytes(b), "word@%d=%#x" % (i, v)
    if r < 0.75:
        i = rnd.randrange(len(b) + 1)
        junk = bytes(rnd.randrange(256) for _ in range(rnd.choice((1, 3, 8))))
        return bytes(b[:i]) + junk + bytes(b[i:]), "insert@%d+%d" % (i, len(junk))
    if r < 0.85:
        i = rnd.randrange(len(b))
        k = rnd.choice((1, 2, 4, 8))
        return bytes(b[:i]) + bytes(b[i + k:]), "delete@%d-%d" % (i, k)
    if r < 0.92:
        i = rnd.choice((0, 1, 2, 3))
        b[i] = rnd.choice({0: (0x42, 0x6c, 0x4c, 0), 1: (0, 5, 9, 255), 2: (0xff, 8), 3: (0, 2, 255)}[i])
        return bytes(b), "fixed@%d=%d" % (i, b[i])
    # pure garbage of the same length
    return bytes(rnd.randrange(256) for _ in range(len(b))), "garbage"


# ---------------------------------------------------------------------------
# script families
# ---------------------------------------------------------------------------
def gen_mutation(rnd):
    """authenticated hostile clients: valid messages, one corrupted message, more valid bytes; random write boundaries"""
    s = Script("mutation", CFG_MAIN, rnd)
    for _ in range(rnd.choice((1, 1, 2, 3))):
        c = s.conn()
        stream = bytearray(AUTH_OK)
        if rnd.random() < 0.75:
            stream += hello().encode()
        for _ in range(rnd.choice((0, 1, 2, 4))):
            stream += s.valid_msg()[0]
        bad, _cn = s.valid_msg()
        bad, _d = mutate(rnd, bad)
        s.bad.append(bad)
        stream += bad
        for _ in range(rnd.choice((0, 1, 2))):
            stream += s.valid_msg()[0]
        # the handshake in a write of its own (it is read 2048 bytes at a time anyway), the rest cut at random
        k = len(AUTH_OK) if rnd.random() < 0.8 else rnd.randrange(1, len(AUTH_OK) + 20)
        s.w(c, bytes(stream[:k]))
        s.write_chunked(c, bytes(stream[k:]))
        if rnd.random() < 0.5:
            s.x(c)
    return s.done()


def gen_limits(rnd):
    """fixed headers whose length words sit at limit values, then silence (a half-sent message) or more bytes"""
    s = Script("limits", CFG_MAIN, rnd)
    c = s.conn()
    s.w(c, AUTH_OK + (hello().encode() if rnd.random() < 0.7 else b""))
    le = rnd.random() < 0.6
    e = "<" if le else ">"
    body_len = rnd.choice(LIMIT_WORDS)
    fields_len = rnd.choice(LIMIT_WORDS + (0, 0, 8, 16, 40))
    hdr = bytes([ord("l") if le else ord("B"), rnd.choice((1, 2, 3, 4)), 0, 1]) + struct.pack(e + "III", body_len, s.next_serial(), fields_len)
    cn = s.canary()
    tail = cn + bytes(rnd.randrange(256) for _ in range(rnd.choice((0, 8, 100, 3000))))
    if rnd.random() < 0.5:
        # a well-formed field array of exactly fields_len bytes when that is small: only the body length is odd
        m = Msg(SIGNAL, 0, s.next_serial(), {F_PATH: "/a", F_INTERFACE: "a.b", F_MEMBER: "S"}, le=le).encode()
        hdr = bytearray(m)
        struct.pack_into(e + "I", hdr, 4, body_len)
        hdr = bytes(hdr)
    s.w(c, hdr[:rnd.choice((len(hdr), len(hdr), 15, 16, 12, 7))])
    if rnd.random() < 0.6:
        s.w(c, tail)
    # a second well-behaved-looking hostile that works while the first is half-way
    c2 = s.conn()
    s.w(c2, AUTH_OK + hello().encode() + s.valid_msg()[0])
    return s.done()


def gen_truncate(rnd):
    """a valid stream cut at an arbitrary byte (inside the handshake, a header, a body), then close"""
    s = Script("truncate-close", CFG_MAIN, rnd)
    c = s.conn()
    stream = AUTH_OK + hello().encode() + b"".join(s.valid_msg()[0] for _ in range(rnd.choice((1, 2, 3))))
    pts = [0, 1, 2, len(AUTH_OK) - 2, len(AUTH_OK), len(AUTH_OK) + 1, len(AUTH_OK) + 15, len(AUTH_OK) + 16, len(AUTH_OK) + 17, len(stream) - 1]
    k = rnd.choice(pts) if rnd.random() < 0.5 else rnd.randrange(len(stream))
    k = max(0, min(k, len(stream)))
    cut = stream[:k]
    ha = min(len(cut), len(AUTH_OK))
    s.w(c, cut[:ha])
    if len(cut) > ha:
        s.write_chunked(c, cut[ha:], maxcuts=2)
    s.x(c)
    return s.done(s.tracks[c])


HS_LINES = [b"AUTH\r\n", b"AUTH EXTERNAL\r\n", AUTH_LINE, b"AUTH EXTERNAL 3130303030\r\n", b"AUTH ANONYMOUS\r\n", b"AUTH DBUS_COOKIE_SHA1 726f6f74\r\n",
            b"AUTH EXTERNAL zz\r\n", b"AUTH  EXTERNAL  " + str(UID).encode().hex().encode() + b"\r\n", b"BEGIN\r\n", b"CANCEL\r\n", b"DATA\r\n", b"DATA " + str(UID).encode().hex().encode() + b"\r\n",
            b"ERROR\r\n", b"ERROR \"x\"\r\n", b"NEGOTIATE_UNIX_FD\r\n", b"FOO bar\r\n", b"\r\n", b" \r\n", b"AUTH\xff\r\n", b"AUTH\n", b"auth external\r\n",
            b"OK 1234\r\n", b"REJECTED EXTERNAL\r\n", b"AGREE_UNIX_FD\r\n", b"BEGIN extra\r\n", b"AUTH EXTERNAL " + b"30" * 300 + b"\r\n", b"\0\r\n", b"AUTH\tEXTERNAL\r\n"]


def gen_handshake(rnd):
    """handshake abuse: wrong first byte, garbage, long lines, many rejected attempts, commands out of order, messages before BEGIN"""
    s = Script("handshake", CFG_MAIN, rnd)
    for _ in range(rnd.choice((1, 1, 2))):
        c = s.conn()
        r = rnd.random()
        if r < 0.12:
            s.w(c, bytes([rnd.choice((1, 65, 255, 108))]) + rnd.choice(HS_LINES))          # credentials byte is not NUL
        elif r < 0.30:
            # a long line without CRLF, written 2048 bytes at a time: must be cut off above 16384
            total = rnd.choice((2047, 2048, 16383, 16384, 16385, 16386, 18431, 18432, 20000, 40000))
            data = b"\0" + bytes(rnd.choice(b"ABCxyz 019") for _ in range(total))
            for i in range(0, len(data), 2048):
                s.w(c, data[i:i + 2048])
            if rnd.random() < 0.5:
                s.w(c, b"\r\n" + AUTH_LINE)
        elif r < 0.45:
            # many failed attempts: the 6th rejection ends the handshake
            s.w(c, b"\0")
            n = rnd.choice((5, 6, 7, 9))
            per = rnd.choice((1, 2, n))
            lines = [rnd.choice((b"AUTH\r\n", b"AUTH FOO\r\n", b"AUTH EXTERNAL 3939\r\n", b"AUTH ANONYMOUS\r\n", b"CANCEL\r\n", b"ERROR\r\n")) for _ in range(n)]
            for i in range(0, n, per):
                s.w(c, b"".join(lines[i:i + per]))
            s.w(c, AUTH_LINE + b"BEGIN\r\n" + hello().encode())
        elif r < 0.55:
            s.w(c, b"\0" + bytes(rnd.randrange(256) for _ in range(rnd.choice((1, 10, 200, 2047)))))         # binary garbage
            s.w(c, b"\r\n" + rnd.choice(HS_LINES))
        else:
            s.w(c, b"\0" if rnd.random() < 0.9 else b"")
            for _ in range(rnd.randint(1, 6)):
                line = rnd.choice(HS_LINES)
                if rnd.random() < 0.15:
                    k = rnd.randrange(len(line))
                    s.w(c, line[:k])
                    s.w(c, line[k:])
                else:
                    s.w(c, line)
            if rnd.random() < 0.6:
                # whatever state we are in: a message stream (valid Hello + canary message)
                s.w(c, hello().encode() + s.valid_msg()[0])
        if rnd.random() < 0.4:
            s.x(c)
    return s.done()


def gen_prehello(rnd):
    """authenticated clients that do not register properly: traffic before Hello, malformed / repeated Hello, no-destination messages"""
    s = Script("pre-hello", CFG_MAIN, rnd)
    c = s.conn()
    s.w(c, AUTH_OK)
    msgs = []
    for _ in range(rnd.randint(1, 4)):
        k = rnd.random()
        if k < 0.2:
            msgs.append(hello(s.next_serial()).encode())
        elif k < 0.3:
            msgs.append(hello(s.next_serial(), sig="s", body=("x",)).encode())                     # wrong signature
        elif k < 0.4:
            m = hello(s.next_serial())
            del m.fields[F_INTERFACE]
            if rnd.random() < 0.5:
                m.fields[F_PATH] = "/elsewhere"
            msgs.append(m.encode())
        elif k < 0.5:
            msgs.append(hello(s.next_serial(), fields={F_INTERFACE: "org.freedesktop.DBus.Peer"}).encode())
        elif k < 0.6:
            msgs.append(getid(s.next_serial()).encode())                                           # driver method before Hello
        elif k < 0.7:
            cn = s.canary()
            msgs.append(Msg(SIGNAL, 0, s.next_serial(), {F_PATH: "/a", F_INTERFACE: "a.b", F_MEMBER: "S"}, "s", (cn.decode(),)).encode())   # no destination
        elif k < 0.8:
            cn = s.canary()
            msgs.append(Msg(METHOD_CALL, 0, s.next_serial(), {F_PATH: "/a", F_MEMBER: "Ping", F_INTERFACE: "org.freedesktop.DBus.Peer"}, "s", (cn.decode(),)).encode())   # no destination, call
        elif k < 0.9:
            m = hello(s.next_serial())
            m.mtype = rnd.choice((SIGNAL, METHOD_RETURN, ERROR))
            if m.mtype in (METHOD_RETURN, ERROR):
                m.fields[F_REPLY_SERIAL] = 1
            if m.mtype == ERROR:
                m.fields[4] = "a.b.E"
            msgs.append(m.encode())
        else:
            msgs.append(s.valid_msg()[0])
    s.write_chunked(c, b"".join(msgs))
    if rnd.random() < 0.5:
        s.w(c, hello(s.next_serial()).encode() + s.valid_msg()[0])
    return s.done()


def gen_flood(rnd, n=None):
    """a registered client floods the bus without reading anything back, then (half of the time) sends an invalid message"""
    s = Script("flood", CFG_MAIN, rnd)
    c = s.conn()
    s.w(c, AUTH_OK + hello().encode())
    n = n or rnd.choice((300, 800, 1500))
    kind = rnd.choice(("getid", "signal", "unicast", "mixed"))
    out = bytearray()
    for i in range(n):
        k = kind if kind != "mixed" else rnd.choice(("getid", "signal", "unicast"))
        if k == "getid":
            out += getid(s.next_serial()).encode()
        elif k == "signal":
            out += Msg(SIGNAL, 0, s.next_serial(), {F_PATH: "/f", F_INTERFACE: "f.l", F_MEMBER: "Ood"}, "u", (i,)).encode()
        else:
            out += Msg(METHOD_CALL, 0, s.next_serial(), {F_PATH: "/f", F_MEMBER: "M", F_DESTINATION: "no.such.name"}, "u", (i,)).encode()
    if rnd.random() < 0.5:
        bad, _ = mutate(rnd, s.valid_msg()[0])
        out += bad + s.valid_msg()[0]
    # two or three big writes
    k = rnd.randrange(1, len(out))
    s.w(c, bytes(out[:k]))
    s.w(c, bytes(out[k:]))
    return s.done(s.tracks[c])


def gen_oversized(rnd):
    """messages around max_message_size (32 KiB in the checked configuration)"""
    s = Script("oversized", CFG_MAIN, rnd)
    c = s.conn()
    s.w(c, AUTH_OK + hello().encode())
    # header length of this message shape is fixed; choose the array length so that header+body = target
    probe = Msg(SIGNAL, 0, 7, {F_PATH: "/o", F_INTERFACE: "o.s", F_MEMBER: "Big"}, "ay", (b"",)).encode()
    base = len(probe)
    target = MAXMSG + rnd.choice((-9, -8, -1, 0, 1, 7, 8, 9, 1000))
    n = max(0, target - base)
    cn = s.canary()
    payload = (cn + bytes(rnd.randrange(256) for _ in range(n)))[:n]
    m = Msg(SIGNAL, 0, s.next_serial(), {F_PATH: "/o", F_INTERFACE: "o.s", F_MEMBER: "Big"}, "ay", (payload,), le=rnd.random() < 0.5).encode()
    stream = m + s.valid_msg()[0]
    k = rnd.choice((16, 2048, len(m) - 1, len(m)))
    s.w(c, stream[:k])
    s.w(c, stream[k:])
    return s.done(s.tracks[c])


def gen_many_unauth(rnd, cfg=CFG_BOUND):
    """more simultaneous unauthenticated connections than max_incomplete_connections; some probe, some register, some leave"""
    s = Script("many-unauthenticated", cfg, rnd)
    n = rnd.randint(cfg["max_incomplete"] + 1, cfg["max_incomplete"] + 5)
    conns = [s.conn() for _ in range(n)]
    ev = ["C%d" % c for c in conns]
    state = {c: "new" for c in conns}
    for _ in range(rnd.randint(n, 3 * n)):
        c = rnd.choice(conns)
        st = state[c]
        if st == "closed":
            continue
        r = rnd.random()
        if st == "new":
            if r < 0.5:
                ev.append("W%d:%s" % (c, (b"\0" + rnd.choice((b"AUTH\r\n", b"FOO\r\n", b""))).hex()))
                state[c] = "nul"
            elif r < 0.8:
                ev.append("W%d:%s" % (c, AUTH_OK.hex()))
                state[c] = "auth"
            else:
                ev.append("X%d" % c)
                state[c] = "closed"
        elif st == "nul":
            if r < 0.4:
                ev.append("W%d:%s" % (c, rnd.choice((b"AUTH\r\n", b"ERROR\r\n", AUTH_LINE + b"BEGIN\r\n")).hex()))
                if r < 0.13:
                    state[c] = "auth?"
            elif r < 0.6:
                ev.append("X%d" % c)
                state[c] = "closed"
        elif st in ("auth", "auth?"):
            if r < 0.6:
                ev.append("W%d:%s" % (c, hello(s.next_serial()).encode().hex()))
                state[c] = "active"
            elif r < 0.75:
                ev.append("X%d" % c)
                state[c] = "closed"
        elif st == "active":
            if r < 0.3:
                ev.append("W%d:%s" % (c, s.valid_msg()[0].hex()))
            elif r < 0.45:
                ev.append("X%d" % c)
                state[c] = "closed"
    return s.done(ev)


def gen_expiry(rnd):
    """slow authenticators are expired after auth_timeout (1000 ms here); waiting connections get their turn"""
    cfg = CFG_TIMED
    s = Script("expiry", cfg, rnd)
    shape = rnd.choice(("simple", "staggered", "backlog", "registered-survive"))
    ev = []
    probe = (b"\0AUTH\r\n").hex()
    if shape == "simple":
        n = rnd.randint(1, 4)
        for _ in range(n):
            c = s.conn()
            ev += ["C%d" % c] + (["W%d:%s" % (c, probe)] if rnd.random() < 0.5 else [])
        ev += ["S500", "S900"]
    elif shape == "staggered":
        a, b = s.conn(), s.conn()
        ev += ["C%d" % a, "W%d:%s" % (a, probe), "S600", "C%d" % b, "W%d:%s" % (b, AUTH_OK.hex()), "S700", "S700"]
    elif shape == "backlog":
        n = rnd.randint(5, 7)
        cs = [s.conn() for _ in range(n)]
        ev += ["C%d" % c for c in cs]
        ev += ["W%d:%s" % (c, probe) for c in cs if rnd.random() < 0.7]
        ev += ["S1400", "S1400"]
    else:
        a, b = s.conn(), s.conn()
        ev += ["C%d" % a, "W%d:%s" % (a, (AUTH_OK + hello().encode()).hex()), "C%d" % b, "W%d:%s" % (b, AUTH_OK.hex()), "S1400",
               "W%d:%s" % (a, getid(s.next_serial()).encode().hex())]
    return s.done(ev)


def gen_blast(rnd):
    """a registered (or not even registered) client writes as fast as it can for a while, never reading; the pair is served meanwhile"""
    s = Script("blast", CFG_MAIN, rnd)
    c = s.conn()
    reg = rnd.random() < 0.8
    s.w(c, AUTH_OK + (hello().encode() if reg else b""))
    kind = rnd.choice(("big-signal", "getid", "unicast-nobody", "invalid-tail"))
    if kind == "big-signal":
        payload = Msg(SIGNAL, 0, 9, {F_PATH: "/b", F_INTERFACE: "b.l", F_MEMBER: "Ast"}, "s", ("x" * rnd.choice((4000, 16000, 30000)),)).encode()
    elif kind == "getid":
        payload = b"".join(getid(1000 + i).encode() for i in range(64))
    elif kind == "unicast-nobody":
        payload = b"".join(Msg(METHOD_CALL, 0, 2000 + i, {F_PATH: "/b", F_MEMBER: "M", F_DESTINATION: "no.such.name"}, "s", ("y" * 2000,)).encode() for i in range(16))
    else:
        payload = Msg(SIGNAL, 0, 9, {F_PATH: "/b", F_INTERFACE: "b.l", F_MEMBER: "Ast"}, "s", ("z" * 8000,)).encode() * 4 + b"\xff" * 64
    d = s.done(s.tracks[c])
    d["blast"] = {"conn": c, "seconds": rnd.choice((0.6, 1.0)), "payload": payload.hex(), "what": kind}
    return d


def introspect(serial):
    return Msg(METHOD_CALL, 0, serial, {F_PATH: "/org/freedesktop/DBus", F_MEMBER: "Introspect", F_INTERFACE: "org.freedesktop.DBus.Introspectable", F_DESTINATION: DRIVER})


def gen_quota(rnd, n=None, cfg=None):
    """a registered client that never reads asks the driver for more reply bytes than its outgoing quota (max_outgoing_bytes) holds"""
    s = Script("quota", cfg or CFG_QUOTA, rnd)
    c = s.conn()
    s.w(c, AUTH_OK + hello().encode())
    n = n or rnd.choice((40, 60, 100))
    out = b"".join(introspect(s.next_serial()).encode() for _ in range(n))
    s.w(c, out)
    s.w(c, getid(s.next_serial()).encode())
    d = s.done(s.tracks[c])
    d["noread"] = [c]
    return d


def request_name(serial, name, flags=0):
    return Msg(METHOD_CALL, 0, serial, {F_PATH: "/org/freedesktop/DBus", F_MEMBER: "RequestName", F_INTERFACE: DRIVER, F_DESTINATION: DRIVER}, "su", (name, flags))


def add_match(serial, rule):
    return Msg(METHOD_CALL, 0, serial, {F_PATH: "/org/freedesktop/DBus", F_MEMBER: "AddMatch", F_INTERFACE: DRIVER, F_DESTINATION: DRIVER}, "s", (rule,))


def become_monitor(serial):
    return Msg(METHOD_CALL, 0, serial, {F_PATH: "/org/freedesktop/DBus", F_MEMBER: "BecomeMonitor", F_INTERFACE: DRIVER + ".Monitoring", F_DESTINATION: DRIVER}, "asu", ([], 0))


CLOSE_STATES = ("self-unique", "self-name", "self-answered", "self-noreply-flag", "to-other", "from-other", "owns-queued-by-other", "queued-on-other",
                "match-rules", "monitor", "half-message", "unread-queue", "many-pending")


def gen_close(rnd, states=None, how=None):
    """abrupt close with something outstanding: pending calls to itself (unique / owned name), to and from others, owned and
    queued names, match rules, being a monitor, a half-written message, an unread queue.  Fresh daemon per script, so the unique
    names are :1.4, :1.5, ... in Hello order and the model predicts every NameOwnerChanged and NoReply."""
    s = Script("close", CFG_CLOSE, rnd)
    n = rnd.choice((1, 2, 2, 3))
    conns = [s.conn() for _ in range(n)]
    ev = []
    uniq = {}
    for i, c in enumerate(conns):
        ev += ["C%d" % c, "W%d:%s" % (c, (AUTH_OK + hello().encode()).hex())]
        uniq[c] = ":1.%d" % (FIRST_UNIQUE + i)
    x = conns[0]
    y = conns[1] if n > 1 else None
    states = list(states) if states else rnd.sample(CLOSE_STATES, rnd.randint(1, 4))
    noread = []
    tag = 0

    def w(c, m):
        ev.append("W%d:%s" % (c, (m if isinstance(m, bytes) else m.encode()).hex()))

    def call(frm, dest, flags=0, **kw):
        return Msg(METHOD_CALL, flags, s.next_serial(), {F_PATH: "/c", F_INTERFACE: "c10.I", F_MEMBER: "M", F_DESTINATION: dest}, "s", (s.canary().decode(),), le=rnd.random() < 0.7)
    later_monitor = False
    for st in states:
        tag += 1
        if st == "self-unique":
            for _ in range(rnd.choice((1, 1, 3))):
                w(x, call(x, uniq[x]))
        elif st == "self-name":
            nm = "c10.self%d" % tag
            w(x, request_name(s.next_serial(), nm, rnd.choice((0, 4))))
            w(x, call(x, nm))
        elif st == "self-answered":
            m = call(x, uniq[x])
            w(x, m)
            w(x, Msg(METHOD_RETURN, 1, s.next_serial(), {F_REPLY_SERIAL: m.serial, F_DESTINATION: uniq[x]}))
        elif st == "self-noreply-flag":
            w(x, call(x, uniq[x], flags=1))
        elif st == "to-other" and y:
            w(x, call(x, uniq[y]))
        elif st == "from-other" and y:
            for _ in range(rnd.choice((1, 2))):
                w(y, call(y, uniq[x]))
        elif st == "owns-queued-by-other" and y:
            nm = "c10.q%d" % tag
            w(x, request_name(s.next_serial(), nm, 0))
            w(y, request_name(s.next_serial(), nm, 0))
            if rnd.random() < 0.5:
                w(y, call(y, nm))                 # pending call to x through the name
        elif st == "queued-on-other" and y:
            nm = "c10.w%d" % tag
            w(y, request_name(s.next_serial(), nm, 0))
            w(x, request_name(s.next_serial(), nm, 0))
        elif st == "match-rules":
            for r in rnd.sample(["type='signal'", "sender='%s'" % uniq[x], "interface='c10.I',member='M'", "arg0='x'", "path_namespace='/c'", "eavesdrop='true'"], rnd.randint(1, 4)):
                w(x, add_match(s.next_serial(), r))
        elif st == "monitor":
            later_monitor = True
        elif st == "half-message":
            pass
        elif st == "unread-queue":
            noread.append(x)
            w(x, b"".join(introspect(s.next_serial()).encode() for _ in range(rnd.choice((3, 20)))))
        elif st == "many-pending" and y:
            for _ in range(rnd.choice((5, 12))):
                w(rnd.choice((x, y)), call(None, rnd.choice((uniq[x], uniq[y]))))
    if later_monitor:
        w(x, become_monitor(s.next_serial()))
    if "half-message" in states:
        m = call(x, uniq[x]).encode()
        w(x, m[:rnd.randrange(1, len(m))])
    # ---- the close itself
    how = how or rnd.choice(("close", "close", "close", "invalid", "policy"))
    if later_monitor and how == "policy":
        w(x, getid(s.next_serial()))               # "monitors are not allowed to send": the bus closes it
    elif how == "close" or later_monitor:
        ev.append("X%d" % x)
    elif how == "invalid":
        w(x, b"\x00" * 16)                       # if a half message is pending this completes garbage; either way the stream turns invalid
        w(x, b"\xff" * 32)
    else:
        # the bus closes it: a monitor is not allowed to send; otherwise fall back to a plain close
        ev.append("X%d" % x)
    # ---- afterwards: the others go on, then leave too
    for c in conns[1:]:
        w(c, getid(s.next_serial()))
        if rnd.random() < 0.5:
            w(c, call(c, uniq[x]))               # the name is gone: error to the sender, nothing pending
    for c in conns[1:]:
        if rnd.random() < 0.7:
            ev.append("X%d" % c)
    d = s.done(ev)
    d["fresh"] = True
    d["noread"] = noread
    d["states"] = states + [how]
    return d


def gen_slots(rnd):
    """the accounting a disconnect must release: max_connections_per_user = bystanders + 3, max_match_rules_per_connection = 4.
    Registrations beyond the limit are refused and succeed once somebody has gone (by close, by an invalid stream, as a monitor
    that closes); a monitor keeps its slot until then; rules are counted per connection."""
    s = Script("slots", CFG_SLOTS, rnd)
    n = rnd.randint(4, 6)
    conns = [s.conn() for _ in range(n)]
    ev = ["C%d" % c for c in conns] + ["W%d:%s" % (c, AUTH_OK.hex()) for c in conns]
    state = {c: "auth" for c in conns}
    RULES = ["type='signal'", "interface='c10.I'", "member='M'", "path='/c'", "arg0='x'", "type='method_call'", "sender='org.freedesktop.DBus'"]

    def w(c, m):
        ev.append("W%d:%s" % (c, m.encode().hex()))
    if rnd.random() < 0.6:
        # the boundary itself: three get in, the fourth is refused, one of the three leaves in some way, the fourth retries
        for c in conns[:4]:
            w(c, hello(s.next_serial())); state[c] = "hello?"
        v = rnd.choice(conns[:3])
        how = rnd.choice(("close", "invalid", "monitor-close", "monitor-stays"))
        if how == "close":
            ev.append("X%d" % v); state[v] = "gone"
        elif how == "invalid":
            ev.append("W%d:%s" % (v, (b"\x00" * 16).hex())); state[v] = "gone"
        else:
            w(v, become_monitor(s.next_serial())); state[v] = "monitor?"
            w(conns[3], hello(s.next_serial()))           # a monitor still holds its slot: refused again
            if how == "monitor-close":
                ev.append("X%d" % v); state[v] = "gone"
        w(conns[3], hello(s.next_serial()))
    for _ in range(rnd.randint(n, 3 * n)):
        c = rnd.choice(conns)
        st = state[c]
        r = rnd.random()
        if st == "auth":
            if r < 0.75:
                w(c, hello(s.next_serial()))            # model decides whether there is a slot
                state[c] = "hello?"
            elif r < 0.85:
                ev.append("X%d" % c); state[c] = "gone"
        elif st == "hello?":
            # may be registered or refused; both continue sensibly: a refused one that sends something else than Hello to the driver
            # only earns AccessDenied, one that addresses anybody else is closed
            if r < 0.35:
                w(c, hello(s.next_serial()))
            elif r < 0.55:
                for _ in range(rnd.choice((1, 4, 5, 6))):
                    w(c, add_match(s.next_serial(), rnd.choice(RULES)))
            elif r < 0.65:
                w(c, request_name(s.next_serial(), "c10.s%d" % c, 0))
            elif r < 0.75:
                w(c, become_monitor(s.next_serial())); state[c] = "monitor?"
            elif r < 0.9:
                ev.append("X%d" % c); state[c] = "gone"
            else:
                ev.append("W%d:%s" % (c, (b"\x00" * 16).hex())); state[c] = "gone"
        elif st == "monitor?":
            if r < 0.5:
                ev.append("X%d" % c); state[c] = "gone"
    for c in conns:
        if state[c] != "gone" and rnd.random() < 0.6:
            ev.append("X%d" % c)
    d = s.done(ev)
    d["fresh"] = True
    return d


def start_service(serial, name):
    return Msg(METHOD_CALL, 0, serial, {F_PATH: "/org/freedesktop/DBus", F_MEMBER: "StartServiceByName", F_INTERFACE: DRIVER, F_DESTINATION: DRIVER}, "su", (name, 0))


def gen_activation(rnd, shape=None):
    """abrupt close while an activation is in progress: several requesters (auto-starting calls with and without reply expected,
    StartServiceByName) wait for a service whose Exec fails after 300 ms / never claims its name (start timeout 900 ms) / is claimed
    by one of the script's connections; some of them close (or are closed) before the outcome."""
    s = Script("activation", CFG_ACT, rnd)
    n = rnd.randint(2, 4)
    conns = [s.conn() for _ in range(n)]
    ev = []
    for c in conns:
        ev += ["C%d" % c, "W%d:%s" % (c, (AUTH_OK + hello().encode()).hex())]
    alive = list(conns)

    def w(c, m):
        ev.append("W%d:%s" % (c, (m if isinstance(m, bytes) else m.encode()).hex()))

    def request(c, name):
        k = rnd.random()
        if k < 0.4:
            w(c, Msg(METHOD_CALL, 0, s.next_serial(), {F_PATH: "/a", F_INTERFACE: "c10.A", F_MEMBER: "M", F_DESTINATION: name}, "s", (s.canary().decode(),)))
        elif k < 0.55:
            w(c, Msg(METHOD_CALL, 1, s.next_serial(), {F_PATH: "/a", F_INTERFACE: "c10.A", F_MEMBER: "M", F_DESTINATION: name}))      # no reply expected
        elif k < 0.65:
            w(c, Msg(SIGNAL, 0, s.next_serial(), {F_PATH: "/a", F_INTERFACE: "c10.A", F_MEMBER: "S", F_DESTINATION: name}))            # a directed signal auto-starts too
        elif k < 0.72:
            w(c, Msg(METHOD_CALL, 2, s.next_serial(), {F_PATH: "/a", F_INTERFACE: "c10.A", F_MEMBER: "M", F_DESTINATION: name}))      # NO_AUTO_START: plain error
        else:
            w(c, start_service(s.next_serial(), name))

    def leave(c):
        # plain closes only: while an activation is pending the babysitter process holds a copy of every client socket that was
        # open when it was forked, so a client DROPPED BY THE BUS sees EOF only when the babysitter exits (see notes, C10-D2);
        # that wait would make the script's clock drift from the model's
        if c in alive:
            alive.remove(c)
            ev.append("X%d" % c)
    shape = shape or rnd.choice(("fail", "fail", "hang", "both", "success", "success"))
    names = {"fail": ["c10.act.fail"], "hang": ["c10.act.hang"], "both": ["c10.act.fail", "c10.act.hang"], "success": ["c10.act.hang"]}[shape]
    for nm in names:
        for c in rnd.sample(conns, rnd.randint(1, n)):
            for _ in range(rnd.choice((1, 1, 2))):
                request(c, nm)
    # who goes before the outcome: sometimes nobody, often the first requester, sometimes everybody
    k = rnd.random()
    for c in (conns[:1] if k < 0.5 else conns if k < 0.65 else rnd.sample(conns, rnd.randint(0, n - 1))):
        leave(c)
    if shape == "success":
        owner = rnd.choice(alive) if alive and rnd.random() < 0.8 else None
        if owner is None:
            owner = s.conn()
            ev += ["C%d" % owner, "W%d:%s" % (owner, (AUTH_OK + hello().encode()).hex())]
            alive.append(owner)
        w(owner, request_name(s.next_serial(), "c10.act.hang", 4))
        if rnd.random() < 0.6:
            leave(owner)                                  # callers whose auto-started call was delivered get NoReply
        ev.append("S1300")                                # nothing more must happen when the old deadline passes
    elif shape == "both":
        ev += ["S600"]
        for c in list(alive)[:1]:
            if rnd.random() < 0.5:
                leave(c)
        ev += ["S700"]
    else:
        ev.append("S600" if shape == "fail" else "S1300")
    # a second round on the survivors, then everybody leaves
    if alive and rnd.random() < 0.5:
        request(rnd.choice(alive), "c10.act.fail")
        if rnd.random() < 0.5:
            leave(alive[0])
        ev.append("S600")
    for c in list(alive):
        if rnd.random() < 0.6:
            ev.append("X%d" % c)
    d = s.done(ev)
    d["fresh"] = True
    d["timed"] = True
    d["shape"] = shape
    return d


def gen_throttle(rnd, order=None):
    """flood until the bus stops reading (max_incoming_bytes = 300000 reached: the messages are queued for a recipient that never reads),
    then abrupt closes in some order; also with the sender as its own recipient"""
    s = Script("throttle", CFG_THROTTLE, rnd)
    a, b = s.conn(), s.conn()
    ev = []
    for c in (a, b):
        ev += ["C%d" % c, "W%d:%s" % (c, (AUTH_OK + hello().encode()).hex())]
    selfsend = rnd.random() < 0.25
    dest = ":1.%d" % (FIRST_UNIQUE + (0 if selfsend else 1))
    size = rnd.choice((2000, 12000, 30000))
    payload = Msg(SIGNAL, 0, 7, {F_PATH: "/t", F_INTERFACE: "c10.T", F_MEMBER: "S", F_DESTINATION: dest}, "s", ("t" * size,)).encode()
    order = order or rnd.choice(([a, b], [a, b], [b, a], [a]))
    d = s.done(ev)
    d["fresh"] = True
    d["throttle"] = {"sender": a, "recipient": a if selfsend else b, "payload": payload.hex(), "close_order": order, "max_bytes": 6000000}
    return d


IFACES = {"peer": DRIVER + ".Peer", "dbus": DRIVER, "introspectable": DRIVER + ".Introspectable", "properties": DRIVER + ".Properties",
          "monitoring": DRIVER + ".Monitoring", "none": None}
MEMBERS = {"peer": ("Ping", "GetMachineId", "Bogus"), "dbus": ("GetId", "Hello", "RequestName", "Bogus"), "introspectable": ("Introspect", "Bogus"),
           "properties": ("GetAll", "Bogus"), "monitoring": ("BecomeMonitor", "Bogus"), "none": ("Ping", "GetId", "Bogus")}
MATRIX_TYPES = (1, 2, 3, 4, 5, 9)
MATRIX_DESTS = ("none", "driver", "own", "missing")
MATRIX_FLAGS = (0, 1, 2, 3, 4)


def matrix_msg(serial, mtype, dest, iface_key, member, flags, le, own_name):
    """one legal message of the matrix, or None if the combination cannot be expressed as a valid message"""
    iface = IFACES[iface_key]
    if mtype == SIGNAL and iface is None:
        return None                                   # a signal must carry an interface
    f = {F_PATH: "/org/freedesktop/DBus", F_MEMBER: member}
    if iface is not None:
        f[F_INTERFACE] = iface
    if mtype in (METHOD_RETURN, ERROR):
        f[F_REPLY_SERIAL] = 7
    if mtype == ERROR:
        f[4] = "c10.Matrix.Error"
    d = {"none": None, "driver": DRIVER, "own": own_name, "missing": "c10.missing"}[dest]
    if d is not None:
        f[F_DESTINATION] = d
    return Msg(mtype, flags, serial, f, le=le)


def matrix_combos():
    for mtype in MATRIX_TYPES:
        for dest in MATRIX_DESTS:
            for ik in IFACES:
                for member in MEMBERS[ik]:
                    for flags in MATRIX_FLAGS:
                        for reg in (True, False):
                            for le in (True, False):
                                if dest == "own" and not reg:
                                    continue
                                if mtype == SIGNAL and ik == "none":
                                    continue
                                yield (mtype, dest, ik, member, flags, reg, le)


def closes_unregistered(mtype, dest, ik):
    """does this message make the bus close a sender that has not said Hello (so that it has to be the last one of its script)"""
    if dest == "none":
        return mtype == SIGNAL and ik != "peer"
    return dest != "driver"


def gen_matrix(rnd, n_random, tag):
    """single legal messages over {type} x {destination} x {interface} x {member} x {flags} x {registered or not} x {byte order}: the complete
    sub-matrix 'no destination, interface Peer' (answered by libdbus inside the daemon) plus a random sample of the rest; a connection sends
    one message per write (the bystander round trip follows each), several per script as long as none of them gets it closed"""
    combos = list(matrix_combos())
    core = [c for c in combos if c[1] == "none" and c[2] in ("peer", "none")]
    rest = [c for c in combos if not (c[1] == "none" and c[2] in ("peer", "none"))]
    chosen = core + rnd.sample(rest, min(n_random, len(rest)))
    rnd.shuffle(chosen)
    groups = {True: [], False: [], "closer": []}
    for c in chosen:
        mtype, dest, ik, member, flags, reg, le = c
        if not reg and closes_unregistered(mtype, dest, ik):
            groups["closer"].append(c)
        else:
            groups[reg].append(c)
    scripts = []

    def script_of(items, reg):
        s = Script("matrix", CFG_MAIN, rnd)
        c = s.conn()
        own = "c10.own.%s%d" % (tag, len(scripts))
        ev = ["C%d" % c, "W%d:%s" % (c, (AUTH_OK + (hello().encode() if reg else b"")).hex())]
        if reg:
            ev.append("W%d:%s" % (c, request_name(s.next_serial(), own, 4).encode().hex()))
        for (mtype, dest, ik, member, flags, _, le) in items:
            m = matrix_msg(s.next_serial(), mtype, dest, ik, member, flags, le, own)
            if m is not None:
                ev.append("W%d:%s" % (c, m.encode().hex()))
        ev.append("X%d" % c)
        d = s.done(ev)
        d["matrix"] = [list(x) for x in items]
        return d
    for reg in (True, False):
        items = groups[reg]
        for i in range(0, len(items), 12):
            scripts.append(script_of(items[i:i + 12], reg))
    for i in range(0, len(groups["closer"]), 1):
        scripts.append(script_of(groups["closer"][i:i + 1], False))
    return scripts


def hand_written():
    """boundary scenarios (also kept in corpus/C10)"""
    rnd = random.Random(0)
    out = []

    def one(kind, cfg, toks, canaries=()):
        out.append({"kind": "hand:" + kind, "cfg": cfg, "events": toks, "canaries": [c.hex() for c in canaries]})
    H = hello().encode()
    sig = lambda n, cn: Msg(SIGNAL, 0, n, {F_PATH: "/a", F_INTERFACE: "a.b", F_MEMBER: "S"}, "s", (cn,)).encode()
    call = lambda n, d: Msg(METHOD_CALL, 0, n, {F_PATH: "/a", F_MEMBER: "M", F_DESTINATION: d}).encode()
    # a message to someone else before Hello closes the sender, yet the rest of that read is still dispatched
    one("close-then-rest", CFG_MAIN, ["C1", "W1:" + AUTH_OK.hex(), "W1:" + (call(5, "a.b") + H + sig(7, "CNRYclosethenrest")).hex()])
    # valid, valid, invalid (bad byte order mark), valid: the last one must never be seen
    bad = bytearray(sig(9, "CNRYbadendian00")); bad[0] = 0x4c
    one("valid-invalid-valid", CFG_MAIN, ["C1", "W1:" + (AUTH_OK + H).hex(), "W1:" + (sig(8, "CNRYokokokokok1") + bytes(bad) + sig(10, "CNRYafterinvalid")).hex()],
        [b"CNRYbadendian00", b"CNRYafterinvalid"])
    # the same split one byte at a time around the corrupt byte
    st = sig(8, "CNRYokokokokok2") + bytes(bad) + sig(10, "CNRYafterinvali2")
    k = len(sig(8, "CNRYokokokokok2"))
    one("split-at-corruption", CFG_MAIN, ["C1", "W1:" + (AUTH_OK + H).hex(), "W1:" + st[:k].hex(), "W1:" + st[k:k + 1].hex(), "W1:" + st[k + 1:k + 16].hex(), "W1:" + st[k + 16:].hex()],
        [b"CNRYbadendian00", b"CNRYafterinvali2"])
    # body length word just above / at the limit of max_message_size
    for bl in (MAXMSG - 16, MAXMSG - 15, MAXMSG, 0xffffffff):
        hdr = b"l\4\0\1" + struct.pack("<III", bl, 3, 0)
        one("length-limit-%x" % bl, CFG_MAIN, ["C1", "W1:" + (AUTH_OK + H).hex(), "W1:" + hdr.hex(), "C2", "W2:" + (AUTH_OK + H + sig(4, "CNRYsecondclient")).hex()])
    # unauthenticated: six rejections
    one("six-rejections", CFG_MAIN, ["C1", "W1:00"] + ["W1:" + b"AUTH\r\n".hex()] * 7)
    # 16384 vs 16385 buffered handshake bytes
    for n in (16384, 16385):
        data = b"\0" + b"A" * n
        one("long-line-%d" % n, CFG_MAIN, ["C1"] + ["W1:" + data[i:i + 2048].hex() for i in range(0, len(data), 2048)] + ["W1:" + b"\r\n".hex()])
    # bytes after BEGIN in the same write, the second message invalid
    one("begin-then-invalid", CFG_MAIN, ["C1", "W1:" + (AUTH_OK + H + bytes(bad) + sig(11, "CNRYafterbegin00")).hex()], [b"CNRYbadendian00", b"CNRYafterbegin00"])
    # accept gate: 4 incomplete connections hold the gate; a Hello and a close each free one slot
    p = (b"\0AUTH\r\n").hex()
    one("gate", CFG_BOUND, ["C1", "C2", "C3", "C4", "C5", "C6", "W5:" + p, "W6:" + p, "W1:" + (AUTH_OK + H).hex(), "X2", "W3:" + p, "X5", "X6"])
    one("gate-closed-while-waiting", CFG_BOUND, ["C1", "C2", "C3", "C4", "C5", "W5:" + (AUTH_OK + H + sig(12, "CNRYwaitingroom0")).hex(), "X5", "C6", "W6:" + p, "X1", "X2"])
    one("expire-then-admit", CFG_TIMED, ["C1", "C2", "C3", "C4", "C5", "W5:" + p, "S1400", "S1400"])
    # finding C10-D2: a client dropped by the bus while an activation is pending sees EOF only when the babysitter exits
    auto = Msg(METHOD_CALL, 0, 21, {F_PATH: "/a", F_INTERFACE: "c10.A", F_MEMBER: "M", F_DESTINATION: "c10.act.hang"}).encode()
    one("act-eof-delay", CFG_ACT, ["C1", "W1:" + (AUTH_OK + H).hex(), "W1:" + auto.hex(), "W1:" + (b"\x00" * 16).hex(), "S1300"])
    out[-1]["fresh"] = True
    return out


FAMILIES = [(gen_mutation, 30), (gen_limits, 8), (gen_truncate, 10), (gen_handshake, 14), (gen_prehello, 10), (gen_oversized, 4), (gen_many_unauth, 8)]


def generate(rnd, n_plain, n_flood, n_timed, n_blast=0, n_close=0, n_slots=0, n_act=0, n_throttle=0, n_matrix=0):
    scripts = hand_written()
    tot = sum(w for _, w in FAMILIES)
    for _ in range(n_plain):
        r = rnd.random() * tot
        for f, w in FAMILIES:
            if r < w:
                scripts.append(f(rnd))
                break
            r -= w
    for _ in range(n_flood):
        scripts.append(gen_flood(rnd))
    for _ in range(n_timed):
        scripts.append(gen_expiry(rnd))
    for _ in range(n_blast):
        scripts.append(gen_blast(rnd))
    for _ in range(2):
        scripts.append(gen_quota(rnd))
    # abrupt close with outstanding state: every single state once (the first three are the self-call class), then random mixes
    for st in CLOSE_STATES[:6]:
        scripts.append(gen_close(rnd, [st], "close"))
    for _ in range(n_close):
        scripts.append(gen_close(rnd))
    for _ in range(n_slots):
        scripts.append(gen_slots(rnd))
    for _ in range(n_act):
        scripts.append(gen_activation(rnd))
    for i in range(n_throttle):
        scripts.append(gen_throttle(rnd, None))
    if n_matrix:
        scripts += gen_matrix(rnd, n_matrix, "m")
    return scripts
