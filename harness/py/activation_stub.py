#!/usr/bin/env python3
"""Scripted service process for the activation checks (C19).  The bus starts it
through a generated .service file:

    Exec=<python3> activation_stub.py <control socket> <start log> <tag>

It appends one line to the start log, registers with the harness over the control
socket and then does what it is told, one JSON command per line:

    hello {fds}               connect to $DBUS_STARTER_ADDRESS (fds: negotiate unix-fd passing), Hello -> {"unique": ...}
    send  {hex}               write these bytes to the bus connection          -> {}
    sync                      GetId round trip; everything received so far     -> {"msgs": [hex...], "closed": bool}
    close                     close the bus connection                         -> {}
    ppid                                                                        -> {"ppid": ...}
    exit  {status}            os._exit(status)                                 (no answer)
    signal {sig}              kill itself with that signal                     (no answer)
"""
import json, os, signal, socket, sys

sys.path.insert(0, os.path.dirname(os.path.abspath(__file__)))


def main():
    ctl_path, log_path, tag = sys.argv[1], sys.argv[2], sys.argv[3]
    with open(log_path, "a") as f:
        f.write("start %s %d\n" % (tag, os.getpid()))
    ctl = socket.socket(socket.AF_UNIX, socket.SOCK_STREAM)
    ctl.connect(ctl_path)
    rf = ctl.makefile("r")

    def say(obj):
        ctl.sendall((json.dumps(obj) + "\n").encode())

    say({"pid": os.getpid(), "ppid": os.getppid(), "tag": tag, "argv": sys.argv[1:],
         "addr": os.environ.get("DBUS_STARTER_ADDRESS"), "bus_type": os.environ.get("DBUS_STARTER_BUS_TYPE")})
    conn = None
    import rawbus
    for line in rf:
        cmd = json.loads(line)
        op = cmd["op"]
        if op == "hello":
            conn = rawbus.RawConn(os.environ["DBUS_STARTER_ADDRESS"], want_fds=bool(cmd.get("fds")))
            conn.serial = 1000000
            r = conn.hello()
            say({"unique": conn.unique, "ok": r is not None and r.mtype == rawbus.METHOD_RETURN})
        elif op == "send":
            conn.send_raw(bytes.fromhex(cmd["hex"]))
            say({})
        elif op == "sync":
            r = conn.barrier() if not conn.closed else None
            msgs, conn.inbox = conn.inbox, []
            say({"msgs": [m.raw.hex() for m in msgs], "closed": r is None})
        elif op == "close":
            if conn is not None:
                conn.close()
            say({})
        elif op == "ppid":
            say({"ppid": os.getppid()})
        elif op == "exit":
            os._exit(int(cmd["status"]))
        elif op == "signal":
            os.kill(os.getpid(), int(cmd["sig"]))
    os._exit(0)


if __name__ == "__main__":
    main()
