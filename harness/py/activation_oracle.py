"""Specification oracle for the bus part of C19, evaluated on an *observed* trace
(events + the tokens a run produced, from the daemon or from the model).  Written
from the property text, independently of the model's table:

  calls      = A/B/U/S events, identified by (sender, serial), in order of arrival
  fate       = f (passed on), s (StartServiceByName reply), e (error) token for a call
  activation = opened by an sp.<sid>.<name> token; closed when the name is taken
               (R answered with code 1), when the start times out (T) or when the
               process of that activation fails (X status != 0, G, F); a reload of the
               configuration (Z) or a change of the service directory (V) closes nothing

  twice        a call met more than one fate
  order        messages passed on to one recipient in one step are not in order of arrival
  unanswered   an activation is closed (or its name acquired an owner) and a call of a
               still-connected sender for that name was left without a fate
  overreach    a process failure answered callers of a name whose own process did not fail
  respawn      a process was started for a name whose activation was still open
  request-failed           a RequestName was answered with an error (the service cannot take its name: held messages stay undelivered)
  driver-call-unanswered   RequestName / ReleaseName / ReloadConfig of a connected caller got no answer in its step
  delivered-after-error / never (covered by twice)
Returns a list of (kind, detail)."""


def run_oracle(services, events, toks):
    verdicts = []
    calls = {}                  # (conn, serial) -> dict(id, name, auto, fates)
    order = 0
    live = set()
    nconn = 0
    open_act = {}               # name -> sid
    owner = {}                  # name token -> conn
    name_of_sid = {}
    open_exec = {}
    conn_of_sid = {}
    exec_of = {}
    for n, x, kind in services:
        exec_of.setdefault(n, x)

    def waiting(name):
        return [c for c in calls.values() if c["name"] == name and not c["fates"] and c["conn"] in live and not c["immediate"]]

    for ev, tok in zip(events, toks):
        if tok == "!" or tok is None:
            continue
        p = ev.split(".")
        k = p[0]
        parts = [] if tok in ("-", "~") else [t for t in tok.split("+") if t and t not in ("-", "~")]
        new_call = None
        if k in ("C", "K", "CF", "KF"):
            live.add(nconn)
            if k in ("K", "KF"):
                conn_of_sid[int(p[1])] = nconn
            nconn += 1
        elif k in ("A", "B", "U", "S"):
            c, serial, name = int(p[1]), int(p[2]), p[3]
            new_call = {"id": order, "conn": c, "serial": serial, "name": name, "auto": k != "S", "fates": [], "immediate": False}
            calls[(c, serial)] = new_call
            order += 1
        elif k == "V":
            exec_of = {}
            spec = ev[2:]
            if spec != "-":
                for t in spec.split(","):
                    n, x, _ = t.split(":")
                    exec_of.setdefault(n, int(x))
        elif k == "D":
            live.discard(int(p[1]))
            owner = {n: o for n, o in owner.items() if o != int(p[1])}
        # ---- what the step produced
        fwd_by_rcpt = {}
        answered_now = []
        for t in parts:
            if t.startswith("sp."):
                _, sid, name = t.split(".")
                if name in open_act:
                    verdicts.append(("respawn", "process %s started for %s while the activation with process %s is open" % (sid, name, open_act[name])))
                open_act[name] = int(sid)
                open_exec[name] = exec_of.get(name)          # the Exec line is copied into the pending activation
                name_of_sid[int(sid)] = name
                continue
            if t.startswith("k."):
                # the bus kills the process: what it sends to that process's own connection in this step cannot be observed
                live.discard(conn_of_sid.get(int(t[2:]), -1))
                continue
            if ":" not in t:
                continue
            r, rest = t.split(":", 1)
            r = int(r)
            q = rest.split(".", 2)
            if q[0] == "f":
                key = (int(q[1]), int(q[2]))
                fwd_by_rcpt.setdefault(r, []).append(key)
            elif q[0] in ("e", "s"):
                if q[0] == "e" and q[2].endswith("NoReply"):
                    continue
                key = (r, int(q[1]))
            else:
                continue
            c = calls.get(key)
            if c is None:
                continue                      # RequestName/ReleaseName replies and the like
            c["fates"].append((q[0], ev))
            answered_now.append((c, q))
            if len(c["fates"]) == 2:
                verdicts.append(("twice", "call %s.%d to %s: %s" % (key[0], key[1], c["name"], c["fates"])))
        if new_call is not None and new_call["fates"]:
            new_call["immediate"] = True
        for r, keys in fwd_by_rcpt.items():
            ids = [calls[k2]["id"] for k2 in keys if k2 in calls]
            if ids != sorted(ids):
                verdicts.append(("order", "to %d in step %s: arrival numbers %s" % (r, ev, ids)))
        # ---- a driver call is answered in the step that carries it
        if k in ("R", "L", "Z") and int(p[1]) in live:
            c, serial = int(p[1]), int(p[2])
            if not any(t.startswith("%d:d.%d." % (c, serial)) or t.startswith("%d:e.%d." % (c, serial)) for t in parts):
                verdicts.append(("driver-call-unanswered", "%s by %d (serial %d) got neither a reply nor an error" % (ev, c, serial)))
        # ---- taking a name never fails in these histories (own="*", no queues): an error means the held messages stay undelivered
        if k == "R" and int(p[1]) in live:
            c, serial = int(p[1]), int(p[2])
            bad = [t for t in parts if t.startswith("%d:e.%d." % (c, serial))]
            if bad:
                verdicts.append(("request-failed", "RequestName(w%s) by %d was answered with %s; waiting for the name: %s" % (
                    p[3], c, bad[0].split(".", 2)[2], [(w["conn"], w["serial"]) for w in waiting("w" + p[3])])))
        # ---- closings
        if k == "R":
            c, serial, name = int(p[1]), int(p[2]), "w" + p[3]
            if any(t == "%d:d.%d.1" % (c, serial) for t in parts):
                owner[name] = c
                left = waiting(name)
                if left:
                    verdicts.append(("unanswered", "%s taken by %d, still waiting: %s" % (name, c, [(w["conn"], w["serial"]) for w in left])))
                open_act.pop(name, None)
        elif k == "L":
            c, serial, name = int(p[1]), int(p[2]), "w" + p[3]
            if any(t == "%d:d.%d.1" % (c, serial) for t in parts):
                owner.pop(name, None)
        elif k in ("C", "K", "CF", "KF"):
            name = "u%d" % (nconn - 1)
            left = waiting(name)
            if left or name in open_act:
                verdicts.append(("unanswered", "unique name %s now has its owner, still waiting: %s" % (name, [(w["conn"], w["serial"]) for w in left])))
        elif k in ("X", "G", "F"):
            sid = int(p[1])
            failed = not (k == "X" and int(p[2]) == 0)
            name = name_of_sid.get(sid)
            for c, q in answered_now:
                if q[0] == "e" and c["name"] != name and not c is new_call:
                    verdicts.append(("overreach", "failure of process %d (started for %s) answered a caller of %s" % (sid, name, c["name"])))
            if failed and name is not None and open_act.get(name) == sid:
                left = waiting(name)
                if left:
                    verdicts.append(("unanswered", "process %d of %s failed, still waiting: %s" % (sid, name, [(w["conn"], w["serial"]) for w in left])))
                open_act.pop(name, None)
                # the bus also gives up every other activation with the same Exec line (F19.2); with no connected waiter
                # left that shows nowhere, so it is taken from the service table to keep the respawn check honest
                for m in [m for m in open_act if open_exec.get(m) == open_exec.get(name)]:
                    open_act.pop(m, None)
            # activations closed as collateral (same Exec) are noted so that later starts are not flagged
            for c, q in answered_now:
                if q[0] == "e" and c["name"] in open_act and c["name"] != name:
                    open_act.pop(c["name"], None)
        elif k == "T":
            if len(p) == 1:
                for name in list(open_act):
                    left = waiting(name)
                    if left:
                        verdicts.append(("unanswered", "start of %s timed out, still waiting: %s" % (name, [(w["conn"], w["serial"]) for w in left])))
                open_act.clear()
    return verdicts


def classify(services, verdicts):
    """map verdicts to the recorded findings: returns (known {finding id: [verdict]}, unknown [verdict])"""
    has_uniq = any(n[0] == "u" for n, _, _ in services)
    execs = {}
    for n, x, kind in services:
        execs.setdefault(x, set()).add(n)
    shared = any(len(v) > 1 for v in execs.values())
    known, unknown = {}, []
    for v in verdicts:
        if v[0] in ("twice", "unanswered") and has_uniq and (" u" in v[1] or "unique name" in v[1] or "to u" in v[1]):
            known.setdefault("F19.1", []).append(v)
        elif v[0] == "overreach" and shared:
            known.setdefault("F19.2", []).append(v)
        else:
            unknown.append(v)
    return known, unknown
