"""C10 executor: replays a client-side script (connect / write / close / sleep of
hostile raw sockets) on the real dbus-daemon (ASan+UBSan+assertions build) and
observes, after every client action,

  * what a monitor was shown (messages of hostile senders, NameOwnerChanged),
  * the handshake bytes written back to every hostile socket,
  * EOF on hostile sockets,
  * the latency and correctness of a well-behaved client's driver round trip (and,
    at the end of the script, of a peer-to-peer call between two well-behaved clients),
  * whether any bystander (monitor, the pair, a signal observer) received a canary
    that was planted in a message the model says is never dispatched.

Synchronisation is by conditions, not sleeps: the unread-bytes counter of the
hostile socket (TIOCOUTQ) must reach 0, then a GetId round trip of the well-behaved
client W1 is made, then the monitor reads up to the capture of W1's reply (FIFO per
connection => everything captured before it has arrived)."""
import errno, fcntl, os, re, select, socket, struct, sys, termios, time
sys.path.insert(0, os.path.dirname(os.path.abspath(__file__)))
import rawbus
from rawbus import Daemon, Msg, METHOD_CALL, METHOD_RETURN, ERROR, SIGNAL, F_PATH, F_INTERFACE, F_MEMBER, F_DESTINATION, \
    F_SENDER, F_REPLY_SERIAL, F_CONTAINER, unmarshal

LAT_BOUND = 2.0          # seconds: every bystander round trip must be answered within this
WAIT = 5.0               # seconds: how long an expected effect (EOF, bytes consumed) may take before it counts as missing
DRIVER = "org.freedesktop.DBus"
SAN_PAT = re.compile(r"AddressSanitizer|runtime error:|LeakSanitizer|assertion failed|Assertion|SUMMARY: |dbus-daemon.*aborting|arguments to \w+\(\) were incorrect")


def limits_xml(cfg):
    names = {"max_incomplete": "max_incomplete_connections", "auth_timeout": "auth_timeout", "max_message_size": "max_message_size"}
    out = "".join('<limit name="%s">%d</limit>\n  ' % (names[k], cfg[k]) for k in ("max_incomplete", "auth_timeout", "max_message_size"))
    for k, v in cfg.get("extra_limits", {}).items():
        out += '<limit name="%s">%d</limit>\n  ' % (k, v)
    return out


class HSock:
    """a hostile client's socket"""

    def __init__(self, path):
        self.s = socket.socket(socket.AF_UNIX, socket.SOCK_STREAM)
        self.s.settimeout(WAIT)
        self.s.connect(path)
        self.s.setblocking(False)
        self.rx = bytearray()
        self.eof = False
        self.closed = False
        self.mute = False        # a client that never reads: only hang-up is looked at

    def outq(self):
        return struct.unpack("i", fcntl.ioctl(self.s.fileno(), termios.TIOCOUTQ, b"\0\0\0\0"))[0]

    def send(self, data, timeout=WAIT):
        """returns number of bytes the kernel took"""
        view, sent, t_end = memoryview(data), 0, time.time() + timeout
        while sent < len(data) and not self.eof:
            try:
                sent += self.s.send(view[sent:sent + 65536])
            except (BlockingIOError, InterruptedError):
                if time.time() > t_end:
                    break
                select.select([self.s], [self.s], [], 0.05)
                self.poll()
            except (BrokenPipeError, ConnectionResetError, OSError):
                self.eof = True
        return sent

    def poll(self):
        if self.closed or self.eof:
            return
        if self.mute:
            p = select.poll()
            p.register(self.s, select.POLLRDHUP | select.POLLHUP | select.POLLERR)
            for _, ev in p.poll(0):
                if ev & (select.POLLRDHUP | select.POLLHUP | select.POLLERR):
                    self.eof = True
            return
        while True:
            try:
                d = self.s.recv(65536)
            except (BlockingIOError, InterruptedError):
                return
            except (ConnectionResetError, OSError):
                self.eof = True
                return
            if not d:
                self.eof = True
                return
            self.rx += d

    def wait_eof(self, timeout=WAIT):
        t_end = time.time() + timeout
        while not self.eof and time.time() < t_end:
            select.select([self.s], [], [], 0.05)
            self.poll()
        return self.eof

    def wait_drained(self, timeout=WAIT):
        t_end = time.time() + timeout
        n = 0
        while True:
            if self.outq() == 0:
                return True
            self.poll()
            if self.eof:
                return True
            if time.time() > t_end:
                return False
            n += 1
            if n > 50:
                time.sleep(0.0005)

    def close(self):
        if not self.closed:
            self.closed = True
            try:
                self.s.close()
            except OSError:
                pass


def header_key(raw):
    """canonical form of a message for comparing what was sent with what a monitor was shown:
    the bus replaces SENDER, drops CONTAINER_INSTANCE and unknown fields, touches nothing else"""
    raw = bytes(raw)
    le = raw[0] == ord("l")
    e = "<" if le else ">"
    body_len, serial, flen = struct.unpack_from(e + "III", raw, 4)
    hlen = (16 + flen + 7) // 8 * 8
    fl, _ = unmarshal(raw, 12, "a(yv)", le)
    fields = {}
    sig = ""
    for code, var in fl:
        if code == 8:
            sig = var.val
        if 1 <= code <= 9 and code != F_SENDER and code not in fields:
            fields[code] = repr(var.val)
    body = raw[hlen:hlen + body_len]
    # the byte order is not part of the key: a message whose arguments the driver has iterated (e.g. Introspect, RequestName sent
    # big-endian) is byte-swapped in place by libdbus before the monitor's copy goes out
    try:
        vals, p = [], 0
        for t in rawbus.split_sig(sig):
            v, p = unmarshal(body, p, t, le)
            vals.append(repr(v))
        bkey = "|".join(vals) if p == len(body) or not sig else body.hex()
    except Exception:
        bkey = body.hex() if le else "be:" + body.hex()
    return (raw[1], raw[2], serial, tuple(sorted(fields.items())), bkey)


def msg_part_of(rx, want):
    """the bytes after the handshake replies (whose normalised form is `want`)"""
    rx = bytes(rx)
    m = re.match(rb"(?:(?:OK [0-9a-f]{32}|REJECTED[^\r]*|ERROR[^\r]*|DATA[^\r]*|AGREE_UNIX_FD)\r\n)*", rx)
    return rx[m.end():] if m else rx


def replied_serials(data):
    """REPLY_SERIALs of the method returns / errors in a byte string of whole D-Bus messages (a trailing partial one is ignored)"""
    out, off = set(), 0
    while len(data) - off >= 16:
        try:
            m, n = rawbus.parse_message(data[off:])
        except Exception:
            break
        if m is None:
            break
        if m.mtype in (METHOD_RETURN, ERROR) and m.fields.get(F_REPLY_SERIAL) is not None:
            out.add(m.fields.get(F_REPLY_SERIAL))
        off += n
    return out


def norm_auth(b):
    return re.sub(rb"OK [0-9a-f]{32}\r\n", b"OK \r\n", bytes(b))


class Bus:
    def __init__(self, exe, cfg):
        self.cfg = cfg
        servicedirs = ""
        self.svcdir = None
        if cfg.get("services"):
            # the two activatable services of Robust/Mini.v: one whose Exec fails after 300 ms, one that never claims its name
            import tempfile
            self.svcdir = tempfile.mkdtemp(prefix="verif_c10_svc_")
            for name, ex in (("c10.act.fail", '/bin/sh -c "sleep 0.3; exit 1"'), ("c10.act.hang", "/bin/sleep 3")):
                with open(os.path.join(self.svcdir, name + ".service"), "w") as f:
                    f.write("[D-BUS Service]\nName=%s\nExec=%s\n" % (name, ex))
            servicedirs = "<servicedir>%s</servicedir>" % self.svcdir
        self.d = Daemon(exe, auth="<auth>EXTERNAL</auth>", limits=limits_xml(cfg), servicedirs=servicedirs)
        self.path = self.d.sock
        # the socket file appears at bind(), connections are possible after listen(): retry briefly
        t_end = time.time() + WAIT
        while True:
            try:
                self.M = self.d.connect()
                break
            except (ConnectionRefusedError, FileNotFoundError):
                if time.time() > t_end or not self.d.alive():
                    rc, err = self.d.stop()
                    raise IOError("cannot connect to the daemon (exit status %s): %s" % (rc, err[-500:]))
                time.sleep(0.01)
        self.M.hello()
        r = self.M.call("BecomeMonitor", "asu", ([], 0), iface="org.freedesktop.DBus.Monitoring")
        if r is None or r.mtype != METHOD_RETURN:
            raise IOError("BecomeMonitor failed: %r" % r)
        self.W1, self.W2, self.O = self.d.connect(), self.d.connect(), self.d.connect()
        for c in (self.W1, self.W2, self.O):
            c.hello()
        self.O.call("AddMatch", "s", ("type='signal'",))
        self.own = {self.M.unique, self.W1.unique, self.W2.unique, self.O.unique}
        self.busid = self.W1.barrier().body[0]
        self.lat = []
        self.sync()

    # -- bystanders ---------------------------------------------------------
    def barrier(self):
        """timed driver round trip of W1; returns (latency, ok, serial)"""
        t0 = time.time()
        m = Msg(METHOD_CALL, 0, self.W1.next_serial(), {F_PATH: "/org/freedesktop/DBus", F_MEMBER: "GetId", F_INTERFACE: DRIVER, F_DESTINATION: DRIVER})
        self.W1.send(m)
        r = self.W1.wait_reply(m.serial, WAIT)
        lat = time.time() - t0
        ok = r is not None and r.mtype == METHOD_RETURN and r.body == (getattr(self, "busid", None) or r.body[0],)
        self.lat.append(lat)
        return lat, ok, m.serial

    def p2p(self):
        """timed W1 -> W2 -> W1 call through the bus; returns (latency, ok)"""
        t0 = time.time()
        m = Msg(METHOD_CALL, 0, self.W1.next_serial(), {F_PATH: "/w", F_MEMBER: "Echo", F_INTERFACE: "verif.W", F_DESTINATION: self.W2.unique}, "s", ("ping-%d" % len(self.lat),))
        self.W1.send(m)
        got = None
        t_end = time.time() + WAIT
        while got is None and time.time() < t_end and not self.W2.closed:
            for i, x in enumerate(self.W2.inbox):
                if x.mtype == METHOD_CALL and x.fields.get(F_SENDER) == self.W1.unique and x.serial == m.serial:
                    got = self.W2.inbox.pop(i)
                    break
            if got is None:
                self.W2._pump(0.05)
        if got is None:
            return time.time() - t0, False
        ok = got.body == m.body and got.fields.get(F_MEMBER) == "Echo"
        rm = Msg(METHOD_RETURN, 1, self.W2.next_serial(), {F_REPLY_SERIAL: got.serial, F_DESTINATION: self.W1.unique}, "s", got.body)
        self.W2.send(rm)
        r = self.W1.wait_reply(m.serial, WAIT)
        lat = time.time() - t0
        ok = ok and r is not None and r.mtype == METHOD_RETURN and r.body == m.body and r.fields.get(F_SENDER) == self.W2.unique
        self.lat.append(lat)
        return lat, ok

    def monitor_until(self, serial):
        """everything the monitor was shown up to (excluding) the capture of the reply to W1's call `serial`"""
        t_end = time.time() + WAIT
        while True:
            for i, m in enumerate(self.M.inbox):
                if m.fields.get(F_REPLY_SERIAL) == serial and m.fields.get(F_DESTINATION) == self.W1.unique and m.fields.get(F_SENDER) == DRIVER:
                    out = self.M.inbox[:i]
                    del self.M.inbox[:i + 1]
                    return out, True
            if self.M.closed or time.time() > t_end:
                out, self.M.inbox = self.M.inbox, []
                return out, False
            self.M._pump(0.05)

    def sync(self):
        """returns (monitor messages, bystander messages, latency, ok)"""
        try:
            lat, ok, serial = self.barrier()
            mon, ok2 = self.monitor_until(serial)
            self.O.barrier(WAIT)
        except (BrokenPipeError, ConnectionResetError, OSError):
            return [], [], WAIT, False
        by = []
        for c in (self.W1, self.W2, self.O):
            by += c.inbox
            c.inbox = []
        return mon, by, lat, ok and ok2

    def cpu_ticks(self):
        """utime + stime of the daemon in clock ticks (/proc/<pid>/stat fields 14 and 15)"""
        try:
            f = open("/proc/%d/stat" % self.d.proc.pid).read()
            rest = f[f.rindex(")") + 2:].split()
            return int(rest[11]) + int(rest[12])
        except (OSError, ValueError, IndexError):
            return None

    def idle_cpu(self, interval=0.3):
        """fraction of one CPU the daemon burns while every client is idle; None if it cannot be sampled"""
        hz = os.sysconf("SC_CLK_TCK")
        a, t0 = self.cpu_ticks(), time.time()
        time.sleep(interval)
        b, dt = self.cpu_ticks(), time.time() - t0
        if a is None or b is None or dt <= 0:
            return None
        return (b - a) / float(hz) / dt

    def stop(self):
        for c in (self.M, self.W1, self.W2, self.O):
            c.close()
        alive = self.d.alive()
        rc, err = self.d.stop()
        if self.svcdir:
            import shutil
            shutil.rmtree(self.svcdir, ignore_errors=True)
        bad = [l for l in err.split("\n") if SAN_PAT.search(l)]
        return alive, rc, bad, err


def blast(bus, h, payload, seconds):
    """hostile socket h writes `payload` over and over, as fast as the bus takes it, never reading; meanwhile the
    well-behaved pair keeps making round trips.  Returns (bytes sent, worst latency, all round trips correct, n round trips)"""
    import threading
    stop = threading.Event()
    sent = [0]

    def pump():
        view = memoryview(payload)
        off = 0
        while not stop.is_set() and not h.eof:
            try:
                n = h.s.send(view[off:])
                sent[0] += n
                off = (off + n) % len(payload)
            except (BlockingIOError, InterruptedError):
                select.select([], [h.s], [], 0.01)
            except (BrokenPipeError, ConnectionResetError, OSError):
                h.eof = True
    th = threading.Thread(target=pump, daemon=True)
    th.start()
    worst, ok_all, n = 0.0, True, 0
    t_end = time.time() + seconds
    while time.time() < t_end:
        try:
            lat, ok, _ = bus.barrier()
            lat2, ok2 = bus.p2p()
        except (BrokenPipeError, ConnectionResetError, OSError):
            lat, ok, lat2, ok2 = WAIT, False, WAIT, False
        worst = max(worst, lat, lat2)
        ok_all = ok_all and ok and ok2
        n += 2
        if not ok_all:
            break
    stop.set()
    th.join(2.0)
    return sent[0], worst, ok_all, n


SPIN_FRACTION = 0.20      # an idle daemon is at ~0; a poll loop that wakes up for nothing is at ~1


def throttle(bus, socks, spec, problem, stats):
    """a registered client floods directed signals to a recipient that never reads until the bus stops reading from it
    (max_incoming_bytes of the configuration reached, its bytes are all queued for the recipient), then sockets are closed
    abruptly in the given order.  Not compared with the model: service level, survival and idle CPU are observed."""
    snd, rcv = socks.get(spec["sender"]), socks.get(spec["recipient"])
    if snd is None or rcv is None:
        return
    rcv.mute = True
    payload = memoryview(bytes.fromhex(spec["payload"]))
    sent, stalled_since, off = 0, None, 0
    t_end = time.time() + 8.0
    while time.time() < t_end and sent < spec.get("max_bytes", 6000000) and not snd.eof:
        try:
            n = snd.s.send(payload[off:])
            sent += n
            off = (off + n) % len(payload)
            stalled_since = None
        except (BlockingIOError, InterruptedError):
            if stalled_since is None:
                stalled_since = time.time()
            elif time.time() - stalled_since > 0.4:
                break                      # the bus has stopped reading: socket buffers are full
            select.select([], [snd.s], [], 0.05)
        except (BrokenPipeError, ConnectionResetError, OSError):
            snd.eof = True
    stats["throttle_bytes"] = sent
    stats["throttled"] = stalled_since is not None
    lat, ok, _ = bus.barrier()
    if not ok or lat > LAT_BOUND:
        problem("violation", "while connection %d is throttled (%d bytes queued for a recipient that does not read) a bystander round trip %s (%.3f s)" % (spec["sender"], sent, "failed" if not ok else "was slow", lat))
        return
    for who in spec["close_order"]:
        h = socks.get(who)
        if h is not None:
            h.close()
        lat, ok, _ = bus.barrier()
        if not ok or lat > LAT_BOUND:
            problem("violation", "after connection %d closed (throttle scenario) a bystander round trip %s (%.3f s)" % (who, "failed" if not ok else "was slow", lat))
            return
        frac = bus.idle_cpu(0.5)
        stats["idle_cpu_max"] = max(stats.get("idle_cpu_max", 0.0), frac or 0.0)
        if frac is not None and frac > SPIN_FRACTION:
            problem("violation", "after connection %d closed its socket while the bus was not reading from it, the idle daemon burns %.0f %% of a CPU (threshold %.0f %%): it spins"
                    % (who, 100 * frac, 100 * SPIN_FRACTION))
            return


def parse_groups(line):
    """model output of `script` -> per client event: list of (tag, [tokens])"""
    groups = []
    for g in line.split(" ; "):
        cur = []
        for t in g.split():
            if t == "-":
                continue
            if t.startswith("@"):
                cur.append((t[1:], []))
            else:
                cur[-1][1].append(t)
        groups.append(cur)
    return groups


def run_script(bus, script, groups, canaries, blast_spec=None, noread=(), strict=False, throttle_spec=None, idle_check=False, idle_interval=0.3):
    """script: list of ("C", c) / ("W", c, bytes) / ("X", c) / ("S", ms); groups: parse_groups(model line);
    canaries: list of byte strings planted in messages.  Returns dict(problems=[(kind, text)], observed=[...], stats)"""
    socks, names, gone_expected = {}, {}, set()
    auth_expected = {}
    problems, observed = [], []
    allowed_raw = []          # raw messages the model says a monitor is shown
    stats = {"lat_max": 0.0, "seen": 0, "gone": 0, "hi": 0}

    def problem(kind, text):
        problems.append((kind, text))

    for idx, (ev, grp) in enumerate(zip(script, groups)):
        kind = ev[0]
        where = "event %d %s%s" % (idx, kind, ev[1] if len(ev) > 1 else "")
        if kind == "C":
            try:
                socks[ev[1]] = HSock(bus.path)
            except OSError as e:
                problem("violation", "%s: connect() to the bus failed: %s" % (where, e))
                break
        elif kind == "W":
            h = socks.get(ev[1])
            if h is not None and not h.closed and not h.eof:
                n = h.send(ev[2])
                if n < len(ev[2]) and not h.eof and ev[1] not in gone_expected:
                    problem("violation", "%s: the bus stopped reading: %d of %d bytes accepted within %.0f s" % (where, n, len(ev[2]), WAIT))
        elif kind == "X":
            h = socks.get(ev[1])
            if h is not None:
                h.poll()
                h.close()
        elif kind == "S":
            time.sleep(ev[1] / 1000.0)
        # ---- what the model expects of this step
        exp_events, reads, exp_noreply, exp_actfail, exp_actok, exp_self = [], set(), [], [], [], []
        for tag, toks in grp:
            if tag[0] == "R":
                reads.add(int(tag[1:]))
            for t in toks:
                p = t.split(":")
                c = int(p[1])
                if p[0] == "auth":
                    auth_expected[c] = auth_expected.get(c, b"") + bytes.fromhex(p[2])
                elif p[0] == "seen":
                    raw = bytes.fromhex(p[2])
                    allowed_raw.append(raw)
                    exp_events.append(("seen", header_key(raw)))
                    stats["seen"] += 1
                elif p[0] == "hi":
                    exp_events.append(("hi", c))
                    stats["hi"] += 1
                elif p[0] == "bye":
                    exp_events.append(("bye", c))
                elif p[0] == "noc" and strict:
                    exp_events.append(("noc", (bytes.fromhex(p[2]).decode("latin-1"), c, int(p[3]))))
                elif p[0] == "noreply" and strict:
                    exp_noreply.append((c, int(p[2])))
                elif p[0] == "self":
                    exp_self.append((c, int(p[2])))
                elif p[0] == "limit" and strict:
                    exp_events.append(("limit", int(p[2])))
                elif p[0] == "actfail" and strict:
                    exp_actfail.append((c, int(p[2])))
                elif p[0] == "actok" and strict:
                    exp_actok.append((c, int(p[2])))
                elif p[0] == "gone":
                    gone_expected.add(c)
                    stats["gone"] += 1
        # ---- wait for the expected effects
        deadline = time.time() + WAIT
        for c in sorted(gone_expected):
            h = socks.get(c)
            if h is not None and not h.closed and not h.eof:
                t_w = time.time()
                got_eof = h.wait_eof(max(0.02, deadline - time.time()))
                stats["eof_wait_max"] = max(stats.get("eof_wait_max", 0.0), time.time() - t_w)
                if not got_eof:
                    problem("violation" if kind != "S" else "late",
                            "%s: the model disconnects connection %d here (invalid stream / handshake failure / policy / expiry) but its socket saw no EOF within %.0f s" % (where, c, WAIT))
        for c in sorted(reads - gone_expected):
            h = socks.get(c)
            if h is not None and not h.closed and not h.wait_drained():
                problem("violation", "%s: %d bytes written by connection %d are still unread by the bus after %.0f s" % (where, h.outq(), c, WAIT))
        mon, by, lat, ok = bus.sync()
        stats["lat_max"] = max(stats["lat_max"], lat)
        if not ok:
            problem("violation", "%s: the well-behaved client's GetId round trip was not answered correctly (latency %.3f s, monitor in sync: see text)" % (where, lat))
            break
        if lat > LAT_BOUND:
            problem("violation", "%s: bystander round trip took %.3f s (bound %.1f s)" % (where, lat, LAT_BOUND))
        # ---- what the monitor was shown
        got_events, got_noreply, got_actfail, got_ureturns = [], [], [], []
        def ident(n):
            return 0 if n == "" else {v: k for k, v in names.items()}.get(n, -1)
        for m in mon:
            snd = m.fields.get(F_SENDER)
            if snd == DRIVER:
                if strict and m.mtype == ERROR and (str(m.fields.get(4)).startswith("org.freedesktop.DBus.Error.Spawn.") or m.fields.get(4) == "org.freedesktop.DBus.Error.TimedOut"):
                    got_actfail.append((m.fields.get(F_DESTINATION), m.fields.get(F_REPLY_SERIAL)))
                elif strict and m.mtype == METHOD_RETURN and m.sig == "u":
                    got_ureturns.append((m.fields.get(F_DESTINATION), m.fields.get(F_REPLY_SERIAL)))
                elif strict and m.mtype == ERROR and m.fields.get(4) == "org.freedesktop.DBus.Error.LimitsExceeded":
                    got_events.append(("limit", m.fields.get(F_REPLY_SERIAL)))
                elif strict and m.mtype == ERROR and m.fields.get(4) == "org.freedesktop.DBus.Error.NoReply":
                    got_noreply.append((m.fields.get(F_DESTINATION), m.fields.get(F_REPLY_SERIAL)))
                elif strict and m.mtype == SIGNAL and m.fields.get(F_MEMBER) == "NameOwnerChanged" and len(m.body) == 3 and not m.body[0].startswith(":"):
                    got_events.append(("noc", tuple(m.body)))
                elif m.mtype == SIGNAL and m.fields.get(F_MEMBER) == "NameOwnerChanged" and len(m.body) == 3 and m.body[0].startswith(":"):
                    if m.body[1] == "" and m.body[0] not in bus.own:
                        got_events.append(("hi", m.body[0]))
                    elif m.body[2] == "" and m.body[0] not in bus.own:
                        got_events.append(("bye", m.body[0]))
            elif snd in bus.own:
                pass
            else:
                got_events.append(("seen", header_key(m.raw)))
        observed.append(["%s:%s" % (k, v if k != "seen" else "%d/%s" % (v[2], v[4][:16])) for k, v in got_events] + ["noreply:%s:%s" % x for x in got_noreply])
        ok_seq = len(got_events) == len(exp_events)
        if ok_seq:
            for (gk, gv), (ek, evv) in zip(got_events, exp_events):
                if gk != ek:
                    ok_seq = False
                elif gk == "seen":
                    ok_seq = ok_seq and gv == evv
                elif gk == "noc":
                    ok_seq = ok_seq and (gv[0], ident(gv[1]), ident(gv[2])) == evv
                elif gk == "hi":
                    names[evv] = gv
                elif gk == "bye":
                    ok_seq = ok_seq and names.get(evv) == gv
        if not ok_seq:
            exp_s = [k if k != "seen" else "seen#%d" % v[2] for k, v in exp_events]
            got_s = [k if k != "seen" else "seen#%d" % v[2] for k, v in got_events]
            extra_seen = [g for g in got_events if g[0] == "seen" and g not in exp_events]
            extra_limit = [g for g in got_events if g[0] == "limit" and g not in exp_events]
            if extra_limit:
                problem("violation", "%s: the bus refused a request with LimitsExceeded (serials %s) although by the model the limit is not reached: a connection that has gone still "
                        "occupies its slot (per-user / completed count, match rules)?  expected %s got %s" % (where, [g[1] for g in extra_limit][:4], exp_s[:12], got_s[:12]))
            elif extra_seen:
                problem("violation", "%s: a monitor was shown %d message(s) of a hostile sender that the model never dispatches (invalid, or after an invalid one): serials %s; expected %s got %s"
                        % (where, len(extra_seen), [g[1][2] for g in extra_seen][:6], exp_s[:12], got_s[:12]))
            else:
                problem("mismatch", "%s: monitor trace differs from the model: expected %s got %s" % (where, exp_s[:14], got_s[:14]))
        got_noreply = [(ident(d), sr) for d, sr in got_noreply]
        if strict and sorted(got_noreply) != sorted(exp_noreply):
            problem("violation",
                    "%s: NoReply errors sent by the bus (caller connection, serial) %s, the model says %s (a NoReply for a connection that is gone, or for a call that is not outstanding, must never be sent)"
                    % (where, sorted(got_noreply), sorted(exp_noreply)))
        if strict:
            got_actfail = [(ident(d), sr) for d, sr in got_actfail]
            if sorted(got_actfail) != sorted(exp_actfail):
                problem("violation", "%s: activation failures reported by the bus (requester, serial) %s, the model says %s (exactly the requesters that are still connected must be told)"
                        % (where, sorted(got_actfail), sorted(exp_actfail)))
            got_ureturns = [(ident(d), sr) for d, sr in got_ureturns]
            missing = [e for e in exp_actok if e not in got_ureturns]
            if missing:
                problem("violation", "%s: StartServiceByName not answered although the service has appeared: %s" % (where, missing))
        # ---- canaries
        for m in mon + by:
            raw = getattr(m, "raw", b"")
            for cn in canaries:
                if cn in raw and not any(cn in a for a in allowed_raw):
                    problem("violation", "%s: bytes of a message that must never be dispatched reached a bystander: canary %r inside a message from %r" % (where, cn, m.fields.get(F_SENDER)))
        for c in (bus.M, bus.W1, bus.W2, bus.O):
            for cn in canaries:
                if cn in bytes(c.buf) and not any(cn in a for a in allowed_raw):
                    problem("violation", "%s: canary %r in the unparsed input of a bystander" % (where, cn))
        # ---- hostile sockets: handshake replies and EOF
        for c, h in sorted(socks.items()):
            if h.closed:
                continue
            h.poll()
            want = norm_auth(auth_expected.get(c, b""))
            got = norm_auth(h.rx)
            if got[:len(want)] != want or (len(got) > len(want) and got[len(want)] not in (ord("l"), ord("B"))):
                problem("mismatch", "%s: handshake bytes written to connection %d differ: model %r, daemon %r" % (where, c, want[-80:], got[:len(want) + 20][-100:]))
            if h.eof and c not in gone_expected:
                problem("mismatch", "%s: the daemon closed connection %d, the model keeps it" % (where, c))
            if c in noread and want and len(got) >= len(want):
                h.mute = True        # handshake done: from now on this client reads nothing
            mine = [sr for cc, sr in exp_self if cc == c]
            if mine and not h.mute and not h.eof and c not in gone_expected:
                # answers of the connection's own libdbus side (Peer built-ins, UnknownMethod fallback) arrive on the client's socket
                t_end = time.time() + WAIT
                while True:
                    rs = replied_serials(msg_part_of(h.rx, want))
                    missing = [sr for sr in mine if sr not in rs]
                    if not missing or time.time() > t_end or h.eof:
                        break
                    select.select([h.s], [], [], 0.05)
                    h.poll()
                if missing and not h.eof:
                    problem("violation", "%s: connection %d got no answer to its message(s) with serial %s, which the bus's own connection object has to answer (Peer built-in / UnknownMethod fallback)" % (where, c, missing[:4]))
        if any(k == "violation" for k, _ in problems):
            break
    # ---- concurrent flood: not compared with the model, only service level and survival are observed
    if blast_spec and not problems:
        h = socks.get(blast_spec["conn"])
        if h is not None and not h.closed and not h.eof:
            nbytes, worst, ok, n = blast(bus, h, bytes.fromhex(blast_spec["payload"]), blast_spec["seconds"])
            stats["blast_bytes"] = nbytes
            stats["blast_roundtrips"] = n
            stats["lat_max"] = max(stats["lat_max"], worst)
            stats["blast_lat_max"] = worst
            if not ok:
                problem("violation", "during a flood of %d bytes from connection %d a bystander round trip failed or timed out (worst %.3f s)" % (nbytes, blast_spec["conn"], worst))
            elif worst > LAT_BOUND:
                problem("violation", "during a flood of %d bytes from connection %d the worst bystander round trip took %.3f s (bound %.1f s)" % (nbytes, blast_spec["conn"], worst, LAT_BOUND))
            h.close()
            # the monitor has a lot to read now; let it catch up without a deadline on the marker
            t_end = time.time() + 60
            while time.time() < t_end:
                mon, by, lat, ok = bus.sync()
                if ok:
                    break
            if not ok:
                problem("violation", "after the flood the bus (or its monitor) did not come back within 60 s")
    if throttle_spec and not problems:
        throttle(bus, socks, throttle_spec, problem, stats)
        t_end = time.time() + 30
        ok = False
        while time.time() < t_end and not problems:
            mon, by, lat, ok = bus.sync()
            if ok:
                break
        if not ok and not problems:
            problem("violation", "after the throttle scenario the bus (or its monitor) did not come back within 30 s")
    # ---- end of script: peer-to-peer service check, then leave a clean bus
    if not problems:
        lat, ok = bus.p2p()
        stats["lat_max"] = max(stats["lat_max"], lat)
        if not ok or lat > LAT_BOUND:
            problem("violation", "after the script: peer-to-peer call between the well-behaved pair %s (%.3f s, bound %.1f s)" % ("failed" if not ok else "was slow", lat, LAT_BOUND))
    for h in socks.values():
        h.close()
    pending = {n for c, n in names.items()}
    for _ in range(6):
        try:
            mon, by, lat, ok = bus.sync()
        except Exception:
            ok = False
        if not ok:
            problem("violation", "after the script: bus no longer answers")
            break
        for m in mon:
            if m.fields.get(F_SENDER) == DRIVER and m.fields.get(F_MEMBER) == "NameOwnerChanged" and len(m.body) == 3 and m.body[2] == "":
                pending.discard(m.body[0])
        # all byes may already have been seen during the script
        if not pending or all(("bye:%s" % n) in sum(observed, []) for n in pending):
            break
    if idle_check and not problems and bus.d.alive():
        # the resource side: with every client gone or idle the daemon must be asleep in poll()
        frac = bus.idle_cpu(idle_interval)
        if frac is not None and frac > SPIN_FRACTION:
            frac = bus.idle_cpu(0.6)          # once more, longer: a neighbour's load must not be mistaken for a spin
        stats["idle_cpu_max"] = max(stats.get("idle_cpu_max", 0.0), frac or 0.0)
        if frac is not None and frac > SPIN_FRACTION:
            problem("violation", "after the script, with all clients gone or idle, the daemon burns %.0f %% of a CPU (threshold %.0f %%): it spins" % (100 * frac, 100 * SPIN_FRACTION))
    if not bus.d.alive():
        problem("violation", "the daemon died")
    return {"problems": problems, "observed": observed, "stats": stats}
