"""History generator and hand-written scenarios for the monitor check (C18).
Event syntax: see ml/monitor/driver.ml."""

N_NAMES = 3           # well-known names n0..n2 are requested; n3 is never owned
ACTIVATABLE = (4, 5)  # names with a service file
IFACES = [6, 6, 6, 7, 4, 5, 2]
MEMBERS = [20, 20, 21, 10]


def scenarios():
    """(name, events) boundary cases aimed at the case splits of the model / proofs"""
    S = []
    add = lambda n, e: S.append((n, e.split()))
    # empty filter monitor sees calls, replies, signals, errors
    add("basic", "C C C B.2.2.- A.1.2.s/-/-/-/- R.0.2.1.0 S.0.s.-.6.20.3.0.0.0.0 S.0.c.u1.6.20.4.0.0.0.0 S.1.r.u0.0.0.2.4.0.0.0 "
                 "S.0.c.n3.6.20.5.0.0.0.0 S.0.c.n3.6.20.6.0.0.0.1 D.0")
    # switch while owning two names, queued for a third, with a waiter behind it, observers of NameOwnerChanged
    add("switch-owning", "C C C C A.3.2.s/d/-/1/7 R.0.2.0.0 R.0.3.1.0 R.1.2.2.0 R.0.4.2.0 R.1.3.0.0 R.2.2.1.0 B.0.5.- S.1.c.n0.6.20.4.0.0.0.0 "
                         "S.2.c.u0.6.20.3.0.0.0.0 G.1.5")
    # second monitor present while the first switch happens, the switching connection listens to NameOwnerChanged itself
    add("switch-two-monitors", "C C C C B.3.2.- A.0.2.s/-/-/-/7 R.0.3.0.0 R.0.4.1.0 R.1.2.0.0 B.0.5.- S.1.s.-.6.20.3.0.0.0.0 D.3 S.1.s.-.6.21.4.0.0.0.0")
    # calls outstanding in both directions at the switch
    add("switch-pending", "C C C B.2.2.- S.0.c.u1.6.20.2.0.0.0.0 S.1.c.u0.6.20.2.0.0.0.0 S.1.c.u0.6.21.3.0.0.0.0 B.0.3.- S.1.r.u0.0.0.4.2.0.0.0 G.1.5")
    # monitor sends: each kind of message closes it, except Peer without destination
    add("monitor-sends-signal", "C C B.1.2.- S.1.s.-.6.20.3.0.0.0.0 G.0.2")
    add("monitor-sends-call", "C C B.1.2.- S.1.c.u0.6.20.3.0.0.0.0 G.0.2")
    add("monitor-sends-driver", "C C B.1.2.- G.1.3 G.0.2")
    add("monitor-requests-name", "C C B.1.2.- R.1.3.0.0 G.0.2")
    add("monitor-become-again", "C C B.1.2.- B.1.3.- G.0.2")
    add("monitor-sends-reply", "C C B.1.2.- S.1.r.u0.0.0.3.7.0.0.0 G.0.2")
    add("monitor-peer-ping", "C C B.1.2.- S.1.c.-.2.10.3.0.0.0.0 S.1.s.-.2.20.4.0.0.0.0 S.1.c.-.2.11.5.0.0.0.0 G.0.2 S.1.c.-.6.20.6.0.0.0.0 G.0.3")
    # messages the bus answers itself
    add("unrouted", "C C B.1.2.- S.0.c.-.6.20.2.0.0.0.0 S.0.c.-.2.10.3.0.0.0.0 S.0.r.-.0.0.4.9.0.0.0 S.0.e.-.0.0.5.9.10.0.0 S.0.s.-.2.20.6.0.0.0.0 S.0.c.-.0.20.7.0.0.1.0")
    # refused messages
    add("denied", "C C C C A.1.2.s/-/-/-/- A.2.2.-/-/-/5/- A.2.3.-/-/-/4/- B.3.2.- S.0.c.u1.4.20.2.0.0.0.0 S.0.c.u1.5.20.3.0.0.0.0 S.0.s.-.5.20.4.0.0.0.0 "
                  "S.0.s.-.4.20.5.0.0.0.0 S.0.s.u1.5.20.6.0.0.0.0 S.0.c.d.4.20.7.0.0.0.0 S.0.c.d.6.20.8.0.0.0.0 S.0.c.d.0.20.9.0.0.0.0 S.0.s.d.6.20.10.0.0.0.0")
    # selective filters: sender / destination by unique and well-known name, type, interface, member
    add("selective", "C C C C C R.0.2.0.0 R.1.2.1.0 B.2.2.-/n0/-/-/- B.3.2.-/-/n1/-/-,s/-/-/-/- B.4.2.c/u1/-/6/20 S.0.c.n1.6.20.3.0.0.0.0 S.1.c.n0.6.20.3.0.0.0.0 "
                     "S.1.r.u0.0.0.4.3.0.0.0 S.0.s.-.6.21.5.0.0.0.0 S.1.c.u0.6.20.5.0.0.0.0 S.1.c.u0.7.20.6.0.0.0.0 L.0.6.0 S.0.c.n1.6.20.7.0.0.0.0 D.1")
    # destination filter by string when nobody is addressed; rules naming a monitor's unique name are collected when it leaves
    add("dest-string", "C C C C B.1.2.- B.2.2.-/-/u1/-/-,-/-/n3/-/-,-/-/u3/-/- S.0.c.u1.6.20.2.0.0.0.0 S.0.c.n3.6.20.3.0.0.0.0 D.1 S.0.c.u1.6.20.4.0.0.0.0 D.3 "
                       "S.0.c.u3.6.20.5.0.0.0.0")
    add("driver-sender-filter", "C C C B.2.2.-/d/-/-/-,e/-/-/-/- R.0.2.0.0 S.0.c.n3.6.20.3.0.0.0.0 S.0.s.-.6.20.4.0.0.0.0 L.0.5.0")
    # queueing and DO_NOT_QUEUE
    add("queue", "C C C B.2.2.- R.0.2.0.0 R.1.2.0.0 R.1.3.0.1 R.1.4.0.0 R.1.5.0.0 L.0.3.0 L.0.4.0 L.1.6.0 L.1.7.0 L.1.8.3")
    add("duplicate-serial", "C C C B.2.2.- S.0.c.u1.6.20.2.0.0.0.0 S.0.c.u1.6.20.2.0.0.0.0 S.0.c.u1.6.20.3.0.0.1.0 S.0.c.u1.6.20.3.0.0.1.0 D.1")
    add("self-call", "C C B.1.2.- S.0.c.u0.6.20.2.0.0.0.0 S.0.r.u0.0.0.3.2.0.0.0 S.0.c.u0.6.20.4.0.0.0.0 D.0")
    # an unanswered call to itself (by unique name / by a name it owns) at the switch: the record is forgotten, no NoReply to the monitor
    add("switch-self-call", "C C C B.2.2.- S.0.c.u0.6.20.2.0.0.0.0 B.0.3.- G.1.2")
    add("switch-self-call-by-name", "C C R.0.2.1.0 S.0.c.n1.6.20.3.0.0.0.0 S.1.c.n1.6.21.2.0.0.0.0 B.0.4.- G.1.3")
    # messages held for activation: captured when received, delivered (not captured again) when the name appears
    add("held-basic", "C C C B.2.2.- S.0.c.n4.6.20.2.0.0.0.0 S.0.s.n4.6.21.3.0.0.0.0 R.1.2.4.0 S.1.r.u0.0.0.3.2.0.0.0 D.1")
    add("held-noauto-and-denied", "C C C B.2.2.- S.0.c.n4.6.20.2.0.0.0.1 S.0.c.n4.4.20.3.0.0.0.0 S.0.c.n4.0.20.4.0.0.0.0 S.0.c.n5.5.20.5.0.0.0.0 "
                                  "R.1.2.4.0 R.1.3.5.0 L.1.4.5 S.0.c.n5.6.20.6.0.0.0.0 R.1.5.5.0")
    add("held-sender-left", "C C C B.2.2.- S.0.c.n4.6.20.2.0.0.0.0 S.1.c.n4.6.20.2.0.0.0.0 D.0 R.1.3.4.0")
    add("held-monitor-joins-later", "C C C S.0.c.n4.6.20.2.0.0.0.0 B.2.2.- R.1.2.4.0 S.1.r.u0.0.0.3.2.0.0.0")
    # F18e: a connection with a call held for activation becomes a monitor; the call is delivered later, and so is the NoReply
    add("held-then-monitor", "C C C B.2.2.- S.0.c.n4.6.20.2.0.0.0.0 B.0.3.- R.1.2.4.0 D.1 G.2.9")
    add("held-then-monitor-selective", "C C C S.0.c.n5.6.20.2.0.0.0.0 B.0.3.s/-/-/-/- R.1.2.5.0 D.1")
    # refused BecomeMonitor calls change nothing: unprivileged caller, bad rule (alone, after good ones), flags, signature
    add("become-refusals", "C Cu C B.2.2.- R.0.2.0.0 A.0.3.s/-/-/-/- S.1.c.u0.6.20.2.0.0.0.0 B.1.3.- B.0.4.! B.0.5.s/-/-/-/-,c/-/-/6/-,! B.0.6.!,-/-/-/-/- "
                           "B.0.7.-.1.1 B.0.8.-.4294967295.1 B.0.9.-.0.0 B.0.10.!.1.0 S.2.s.-.6.20.3.0.0.0.0 S.0.r.u1.0.0.11.2.0.0.0 G.0.12 B.0.13.-/-/-/-/- G.1.4")
    add("unprivileged-ordinary", "C Cu B.0.2.- S.1.s.-.6.20.2.0.0.0.0 R.1.3.0.0 B.1.4.- D.1")
    # message types the specification does not define: shown to monitors like any refused message, through every rule list
    add("undefined-type", "C C C C C B.2.2.-/-/-/6/- B.3.2.-/-/-/-/20,c/-/-/6/- B.4.2.- S.0.t5.u1.6.20.2.0.0.0.0 S.0.t5.u1.7.20.3.0.0.0.0 "
                          "S.0.t9.n4.6.21.4.0.0.0.0 S.0.t9.n3.6.20.5.0.0.0.1 S.0.t255.d.6.20.6.0.0.0.0 S.0.t5.-.6.20.7.0.0.0.0 S.0.t5.-.2.20.8.0.0.0.0 "
                          "S.0.t5.u1.0.0.9.0.0.0.0 S.0.c.u1.6.20.10.0.0.0.0 S.1.t5.u0.6.20.2.10.0.0.0 D.1 S.3.t5.u0.6.20.3.0.0.0.0")
    add("index-paths", "C C C C C C B.2.2.-/-/-/7/- B.3.2.s/-/-/-/- B.4.2.s/-/-/7/- B.5.2.-/-/-/-/21 S.0.s.-.7.21.2.0.0.0.0 S.0.c.u1.7.21.3.0.0.0.0 "
                       "S.0.s.-.6.20.4.0.0.0.0 S.0.t5.u1.7.21.5.0.0.0.0 S.1.r.u0.0.0.2.3.0.0.0")
    add("no-monitor", "C C A.1.2.s/-/-/-/- S.0.s.-.6.20.2.0.0.0.0 R.0.3.0.0 D.0")
    add("monitor-disconnects", "C C C B.1.2.- B.2.2.- D.1 S.0.s.-.6.20.2.0.0.0.0 D.2 S.0.s.-.6.20.3.0.0.0.0")
    return S


def rand_name(rnd, st, allow_driver=True):
    opts = ["n%d" % rnd.randrange(N_NAMES + 1)] * 3
    if st["ever"]:
        opts += ["u%d" % rnd.choice(st["ever"])] * 3
    if allow_driver:
        opts.append("d")
    return rnd.choice(opts)


def rand_filter(rnd, st, monitor):
    if monitor and rnd.random() < 0.15:
        return "-/-/-/-/-"
    if monitor and rnd.random() < 0.4:
        # one key only, or type plus one: every rule list of the matchmaker's index gets used by monitors
        k = rnd.choice(["i", "i", "i", "m", "t", "s", "d", "ti", "ti", "tm"])
        t = rnd.choice("scre") if "t" in k else "-"
        i = str(rnd.choice([6, 6, 7, 1, 4, 5])) if "i" in k else "-"
        m = str(rnd.choice([20, 20, 21, 7, 8])) if "m" in k else "-"
        sd = rand_name(rnd, st) if "s" in k else "-"
        d = rand_name(rnd, st) if "d" in k else "-"
        return "/".join([t, sd, d, i, m])
    t = rnd.choice(["-", "-", "-", "s", "s", "c", "r", "e"]) if monitor else rnd.choice(["s", "s", "-", "c"])
    sd = rand_name(rnd, st) if rnd.random() < (0.45 if monitor else 0.3) else "-"
    d = rand_name(rnd, st) if rnd.random() < (0.4 if monitor else 0.08) else "-"
    i = str(rnd.choice([1, 6, 6, 7, 4, 5])) if rnd.random() < 0.3 else "-"
    m = str(rnd.choice([7, 7, 8, 9, 20, 20, 21])) if rnd.random() < 0.3 else "-"
    return "/".join([t, sd, d, i, m])


def gen_history(rnd, n_events):
    st = {"live": [], "ever": [], "mons": [], "serial": {}, "next": 0, "pending": [], "owners": {}, "unpriv": set(), "held": set(), "held_names": set()}
    ev = []

    def ser(c, reuse=False):
        if reuse and st["serial"].get(c, 1) > 2 and rnd.random() < 0.5:
            return rnd.randint(2, st["serial"][c])
        st["serial"][c] = st["serial"].get(c, 1) + 1
        return st["serial"][c]

    def connect():
        c = st["next"]
        st["next"] += 1
        st["live"].append(c)
        st["ever"].append(c)
        st["serial"][c] = 1
        if rnd.random() < 0.15:
            st["unpriv"].add(c)
            ev.append("Cu")
        else:
            ev.append("C")

    def ordinary():
        return [c for c in st["live"] if c not in st["mons"]]

    def drop(c):
        if c in st["live"]:
            st["live"].remove(c)
        if c in st["mons"]:
            st["mons"].remove(c)
        st["pending"] = [p for p in st["pending"] if c not in p[:2]]
        for n in list(st["owners"]):
            st["owners"][n] = [x for x in st["owners"][n] if x != c]

    def dest_for_call():
        r = rnd.random()
        live = st["live"]
        if r < 0.45 and live:
            return "u%d" % rnd.choice(live)
        if r < 0.58:
            return "n%d" % rnd.randrange(N_NAMES)
        if r < 0.72:
            return "n%d" % rnd.choice(ACTIVATABLE)        # a name with a service file: held for activation if nobody owns it
        if r < 0.78:
            return "n%d" % N_NAMES
        if r < 0.86 and st["ever"]:
            return "u%d" % rnd.choice(st["ever"])
        if r < 0.93:
            return "d"
        return "-"

    def send(c):
        r = rnd.random()
        iface = rnd.choice(IFACES)
        member = rnd.choice(MEMBERS) if iface == 2 else rnd.choice([20, 20, 21])
        if r < 0.05:         # a message whose type byte is none of the four defined ones: captured, refused, never delivered
            ty = rnd.choice(["t5", "t5", "t9", "t255"])
            ev.append("S.%d.%s.%s.%d.%d.%d.%d.0.0.%d" % (c, ty, dest_for_call(), rnd.choice([6, 6, 7, 0, 2, 5]), rnd.choice([20, 21, 0]), ser(c),
                                                         rnd.choice([0, 0, 0, 3]), rnd.choice([0, 0, 1])))
        elif r < 0.3:        # broadcast signal
            ev.append("S.%d.s.-.%d.%d.%d.0.0.0.0" % (c, iface, member, ser(c)))
        elif r < 0.38:       # unicast signal
            ev.append("S.%d.s.%s.%d.%d.%d.0.0.0.0" % (c, dest_for_call(), iface if iface != 2 else 6, member, ser(c)))
        elif r < 0.75:       # method call
            d = dest_for_call()
            if d == "d":
                iface = rnd.choice([0, 1, 6, 4, 5])
                member = rnd.choice([20, 21])
            elif d != "-" and iface == 2:
                member = 10
            if rnd.random() < 0.1:
                iface = 0 if d != "-" or rnd.random() < 0.5 else iface
            s = ser(c, reuse=rnd.random() < 0.1)
            nr = 1 if rnd.random() < 0.15 else 0
            na = 1 if rnd.random() < 0.3 else 0
            ev.append("S.%d.c.%s.%d.%d.%d.0.0.%d.%d" % (c, d, iface, member, s, nr, na))
            if d in ("n4", "n5") and not na and not st["owners"].get(d):
                st["held"].add(c)
                st["held_names"].add(int(d[1:]))
            if d.startswith("u") and int(d[1:]) in st["live"] and not nr:
                st["pending"].append((c, int(d[1:]), s))
            elif d.startswith("n") and st["owners"].get(d) and not nr:
                st["pending"].append((c, st["owners"][d][0], s))
        else:                # reply (genuine if something is pending for c)
            mine = [p for p in st["pending"] if p[1] == c]
            ty = rnd.choice("rre")
            err = 10 if ty == "e" else 0
            if mine and rnd.random() < 0.8:
                p = rnd.choice(mine)
                st["pending"].remove(p)
                ev.append("S.%d.%s.u%d.0.0.%d.%d.%d.0.0" % (c, ty, p[0], ser(c), p[2], err))
            else:
                d = dest_for_call()
                ev.append("S.%d.%s.%s.0.0.%d.%d.%d.0.0" % (c, ty, d, ser(c), rnd.randint(2, 6), err))

    for _ in range(rnd.randint(2, 4)):
        connect()
    want_monitors = rnd.choice([0, 1, 1, 1, 1, 2, 2, 3])
    switch_at = sorted(rnd.randrange(0, n_events) for _ in range(want_monitors))
    for i in range(n_events):
        ords = ordinary()
        if switch_at and switch_at[0] <= i and len(ords) >= 2:
            switch_at.pop(0)
            # prefer a connection that owns / waits for names or is party to a pending call
            busy = [c for c in ords if any(c in q for q in st["owners"].values()) or any(c in p[:2] for p in st["pending"])]
            c = rnd.choice(busy) if busy and rnd.random() < 0.7 else rnd.choice(ords)
            # often make sure something is outstanding right at the switch: a call to it, a call by it, a name behind it
            k = rnd.random()
            others = [o for o in ords if o != c]
            if k < 0.2 and others:
                o = rnd.choice(others)
                sv = ser(o)
                ev.append("S.%d.c.u%d.6.20.%d.0.0.0.0" % (o, c, sv))
                st["pending"].append((o, c, sv))
            elif k < 0.35 and others:
                o = rnd.choice(others)
                sv = ser(c)
                ev.append("S.%d.c.u%d.6.21.%d.0.0.0.0" % (c, o, sv))
                st["pending"].append((c, o, sv))
            elif k < 0.43:
                sv = ser(c)
                ev.append("S.%d.c.u%d.6.20.%d.0.0.0.0" % (c, c, sv))          # an unanswered call to itself
                st["pending"].append((c, c, sv))
            elif k < 0.55 and others:
                n = rnd.randrange(N_NAMES)
                ev.append("R.%d.%d.%d.0" % (c, ser(c), n))
                ev.append("R.%d.%d.%d.0" % (rnd.choice(others), ser(rnd.choice(others)), n))
            elif k < 0.62:
                sv = ser(c)
                ev.append("S.%d.c.n%d.6.20.%d.0.0.0.0" % (c, rnd.choice(ACTIVATABLE), sv))   # a call of its own held for activation
            r = rnd.random()
            fs = "-" if r < 0.45 else ",".join(rand_filter(rnd, st, True) for _ in range(rnd.choice([1, 1, 2, 3])))
            # refusals: every one of them must leave the connection exactly as it was
            v = rnd.random()
            if v < 0.07:
                items = [] if fs == "-" else fs.split(",")
                items.insert(rnd.randint(0, len(items)), "!")
                ev.append("B.%d.%d.%s" % (c, ser(c), ",".join(items)))
            elif v < 0.12:
                ev.append("B.%d.%d.%s.%d.1" % (c, ser(c), fs, rnd.choice([1, 2, 4294967295])))
            elif v < 0.16:
                ev.append("B.%d.%d.%s.0.0" % (c, ser(c), fs))
            if v < 0.16 and rnd.random() < 0.5:
                switch_at.insert(0, i + 1)          # and then properly
                continue
            ev.append("B.%d.%d.%s" % (c, ser(c), fs))
            if c in st["unpriv"]:
                continue
            st["mons"].append(c)
            st["pending"] = [p for p in st["pending"] if c not in p[:2]]
            for n in list(st["owners"]):
                st["owners"][n] = [x for x in st["owners"][n] if x != c]
            continue
        r = rnd.random()
        if not ords or (r < 0.06 and len(st["ever"]) < 7):
            connect()
        elif r < 0.14:
            c = rnd.choice(ords)
            ev.append("A.%d.%d.%s" % (c, ser(c), rand_filter(rnd, st, False)))
        elif r < 0.27:
            c = rnd.choice(ords)
            n = rnd.randrange(N_NAMES) if rnd.random() < 0.8 else rnd.choice(ACTIVATABLE)
            if st["held_names"] and rnd.random() < 0.5:
                n = rnd.choice(sorted(st["held_names"]))          # somebody provides the awaited service
                st["held_names"].discard(n)
            dnq = 1 if rnd.random() < 0.25 else 0
            ev.append("R.%d.%d.%d.%d" % (c, ser(c), n, dnq))
            q = st["owners"].setdefault("n%d" % n, [])
            if c not in q and (not dnq or not q):
                q.append(c)
            elif dnq and q and q[0] != c and c in q:
                q.remove(c)
        elif r < 0.34:
            c = rnd.choice(ords)
            n = rnd.randrange(N_NAMES) if rnd.random() < 0.85 else rnd.choice(ACTIVATABLE)
            ev.append("L.%d.%d.%d" % (c, ser(c), n))
            q = st["owners"].get("n%d" % n, [])
            if c in q:
                q.remove(c)
        elif r < 0.38:
            c = rnd.choice(ords)
            ev.append("G.%d.%d" % (c, ser(c)))
        elif r < 0.46 and st["mons"]:
            # a monitor sends something
            c = rnd.choice(st["mons"])
            k = rnd.random()
            if k < 0.3:
                ev.append("S.%d.c.-.2.%d.%d.0.0.0.0" % (c, rnd.choice([10, 10, 11, 20]), ser(c)))     # Peer, no destination
            else:
                if k < 0.5:
                    ev.append("G.%d.%d" % (c, ser(c)))
                elif k < 0.6:
                    ev.append("R.%d.%d.%d.0" % (c, ser(c), rnd.randrange(N_NAMES)))
                else:
                    send(c)
                last = ev[-1].split(".")
                if not (last[0] == "S" and last[3] == "-" and last[4] == "2"):
                    drop(c)
        elif r < 0.53 and st["live"]:
            c = rnd.choice(st["live"])
            ev.append("D.%d" % c)
            drop(c)
        else:
            send(rnd.choice(ords))
    return ev


def switch_succeeds(f, unpriv):
    """BecomeMonitor by an ordinary connection: privileged caller, signature asu, flags 0, every rule parses"""
    if int(f[1]) in unpriv or "!" in f[3].split(","):
        return False
    return len(f) < 5 or (f[4] == "0" and f[5] == "1")


def paired(events):
    """history B: every successful switch becomes a plain disconnect of that connection"""
    live, mons, nxt, out, unpriv = set(), set(), 0, [], set()
    for e in events:
        f = e.split(".")
        if f[0] in ("C", "Cu"):
            live.add(nxt)
            if f[0] == "Cu":
                unpriv.add(nxt)
            nxt += 1
            out.append(e)
        elif f[0] == "D":
            live.discard(int(f[1]))
            mons.discard(int(f[1]))
            out.append(e)
        elif f[0] == "B" and int(f[1]) in live and int(f[1]) not in mons and switch_succeeds(f, unpriv):
            mons.add(int(f[1]))
            out.append("D.%s" % f[1])
        else:
            k = int(f[1])
            if k in mons and not (f[0] == "S" and f[3] == "-" and f[4] == "2"):
                live.discard(k)
                mons.discard(k)
            out.append(e)
    return out
