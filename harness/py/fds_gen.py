"""History generator for C15 (text format: ml/fds/driver.ml).

A history is (name, cfg, [event]) with cfg = (max_message_unix_fds, pending_fd_timeout ms,
policy min_fds or -1, read cap).  The generator only tracks what a client knows about its own
stream (the message in progress and how much of it is written); whether the daemon has
disconnected a client is found by running the extracted model, and events the model calls
ill-formed are removed (clean())."""
import os, sys
sys.path.insert(0, os.path.dirname(os.path.abspath(__file__)))
import fds_msg

def _read_cap():
    """socket_transport->max_bytes_read_per_iteration as lifted from /repo by tools/gen/fds.py"""
    import re
    p = os.path.join(os.path.dirname(os.path.abspath(__file__)), "..", "..", "coq", "Gen", "FdsTables.v")
    m = re.search(r"max_bytes_read_per_iteration : N := (\d+)\.", open(p).read())
    return int(m.group(1))


CAP = _read_cap()
TIMEOUT = 600
TICK_SHORT, TICK_MID, TICK_LONG = 100, 400, 1000   # generated histories use MID and LONG only: every sum is >= 200 ms away from TIMEOUT
UNTIMED = 60000


class Hist:
    def __init__(self, rnd, cfg):
        self.rnd, self.cfg = rnd, cfg
        self.ev = []
        self.nconn = 0
        self.neg = {}
        self.live = set()
        self.tok = 0
        self.fd = 0
        self.plan = {}          # conn -> list of pending (parts text, nfds to attach) for a split message
        self.cur = {}           # conn -> bytes still to write of the message in progress
        self.short_ticks = 0
        self.lib = False
        self.pend = {}          # conn -> estimate of descriptors pending in the bus's loader

    def connect(self, neg, listen):
        self.ev.append("C%d%d" % (neg, listen))
        self.neg[self.nconn] = neg
        self.live.add(self.nconn)
        self.nconn += 1

    def newfds(self, n):
        out = list(range(self.fd + 1, self.fd + 1 + n))
        self.fd += n
        return out

    def desc(self, nfds, dest, pad=0, fixed_ok=True, valid=True, denied=False, in_header=None):
        self.tok += 1
        if in_header is not None and pad >= fds_msg.BIG and (self.tok % 2 == 0) != in_header:
            self.tok += 1                         # fds_msg puts long padding into the header for even tokens

        d = {"len": 0, "fixed_ok": fixed_ok, "valid": valid, "nfds": nfds, "dest": dest, "denied": denied, "token": self.tok}
        d["len"] = fds_msg.min_len(d) + pad
        return d

    def write(self, c, parts, nfds):
        self.ev.append("W.%d.%s.%s" % (c, ",".join(parts) if parts else "-", ",".join(map(str, self.newfds(nfds))) or "-"))

    # ---- choices
    def pick_dest(self, c):
        if self.lib:
            return "u1"
        r = self.rnd.random()
        others = [x for x in range(self.nconn) if x != c]
        if r < 0.62 and others:
            negs = [x for x in others if self.neg[x]]
            if negs and self.rnd.random() < 0.7:
                return "u%d" % self.rnd.choice(negs)
            return "u%d" % self.rnd.choice(others)
        if r < 0.70:
            return "u%d" % c                      # to itself
        if r < 0.78:
            return "m"
        if r < 0.86:
            return "d"
        if r < 0.96:
            return "b"
        return "u9"                               # never existed

    def pick_counts(self, c):
        """(announced, attached) aimed at the case splits of load_message / _dbus_read_socket_with_unix_fds, using the
        generator's own estimate of what is pending on c (exact unless the bus dropped something)"""
        m, pm = self.cfg[0], self.cfg[2]
        pend = self.pend.get(c, 0) if self.neg.get(c) else 0
        room = max(0, m - pend)
        r = self.rnd.random()
        small = lambda hi: min(hi, self.rnd.choice([0, 0, 1, 1, 1, 2, 2, 3, hi, hi]))
        if pm >= 0 and r < 0.10:
            a = self.rnd.choice([pm, max(0, pm - 1)])           # count policy boundary
            att = max(0, a - pend)
        elif r < 0.52:
            a = small(room)                                     # exactly what is announced
            att = a
        elif r < 0.68 and pend > 0:
            a = self.rnd.randint(1, min(m, pend + room))        # served (partly) from the pending surplus
            att = max(0, a - pend)
        elif r < 0.88:
            a = small(room)                                     # surplus that still fits (up to exactly filling the array)
            att = a + (self.rnd.choice([1, 1, room - a]) if room > a else 0)
        elif r < 0.91:
            a = small(room)
            att = room + self.rnd.choice([1, 1, 2])             # more than the control buffer takes: MSG_CTRUNC
        elif r < 0.94:
            a = self.rnd.randint(1, m)                          # fewer than announced
            att = max(0, a - pend - self.rnd.choice([1, 1, 2]))
            if att + pend >= a:
                a = att + pend + 1
        elif r < 0.965:
            a = m + 1                                           # beyond the per-message maximum
            att = self.rnd.choice([m + 1, room, 0])
        else:
            a, att = self.rnd.randint(0, m + 1), self.rnd.randint(0, m + 2)
        if self.neg.get(c):
            if att <= room and att + pend >= a:
                self.pend[c] = pend + att - a
        return a, att

    def new_message(self, c, big=False):
        r = self.rnd.random()
        fixed_ok, valid = True, True
        if r < 0.015:
            fixed_ok = False
        elif r < 0.035:
            valid = False
        pad = self.rnd.choice([0, 0, 0, 3, 40, 400]) if not big else self.rnd.choice([1900, 2048, 3000, 5000])
        a, att = self.pick_counts(c)
        d = self.desc(a, self.pick_dest(c), pad, fixed_ok, valid, self.rnd.random() < 0.08 and not self.lib)
        d["_att"] = att
        return d

    # ---- actions
    def act_whole(self, c, big=False):
        d = self.new_message(c, big)
        self.write(c, [fds_msg.desc_str(d, d["len"])], d["_att"])

    def act_two(self, c):
        self.pend_before = self.pend.get(c, 0)
        d1, d2 = self.new_message(c), self.new_message(c)
        n = d1["_att"] + d2["_att"]
        if self.rnd.random() < 0.8:
            n = min(n, max(d1["_att"], self.cfg[0] - self.pend_before))        # one control buffer for the whole write
        self.write(c, [fds_msg.desc_str(d1, d1["len"]), fds_msg.desc_str(d2, d2["len"])], n)

    def act_split(self, c, big=False):
        d = self.new_message(c, big)
        L = d["len"]
        cuts = sorted(set(self.rnd.sample([1, 8, 15, 16, 17, 20, L // 2, L - 1, L - 8, self.rnd.randint(1, L - 1)], self.rnd.choice([1, 1, 2]))))
        cuts = [x for x in cuts if 0 < x < L]
        sizes = [b - a for a, b in zip([0] + cuts, cuts + [L])]
        total = d["_att"]
        where = self.rnd.random()
        per = [0] * len(sizes)
        if where < 0.55:
            per[0] = total
        elif where < 0.8:
            per[-1] = total
        else:
            for _ in range(total):
                per[self.rnd.randrange(len(sizes))] += 1
        pieces = [([fds_msg.desc_str(d, sizes[0])], per[0])] + [(["P:%d" % s], n) for s, n in zip(sizes[1:], per[1:])]
        if self.rnd.random() < 0.15 and len(pieces) >= 2:
            # the tail of this message and a whole next message in one write
            d2 = self.new_message(c)
            last = pieces[-1]
            pieces[-1] = (last[0] + [fds_msg.desc_str(d2, d2["len"])], last[1] + d2["_att"])
        first = pieces.pop(0)
        self.write(c, first[0], first[1])
        self.plan[c] = pieces

    def continue_plan(self, c):
        parts, n = self.plan[c].pop(0)
        if not self.plan[c]:
            del self.plan[c]
        self.write(c, parts, n)

    def act_disconnect(self, c):
        self.ev.append("D.%d" % c)
        self.live.discard(c)
        self.plan.pop(c, None)

    def act_tick(self):
        self.ev.append("T.%d" % (TICK_MID if self.rnd.random() < 0.65 else TICK_LONG))

    def finish(self):
        for c in range(self.nconn):
            self.ev.append("D.%d" % c)


def gen_lib_history(rnd, cfg, nsteps):
    """library side (harness/c/fds_h.c): connection 0 is the peer the library reads from, connection 1 stands for the
    application that pops the messages; every message is addressed to 1, no policy, no clock"""
    h = Hist(rnd, cfg)
    h.lib = True
    h.connect(1 if rnd.random() < 0.85 else 0, 0)
    h.connect(1, 0)
    for _ in range(nsteps):
        if 0 in h.plan:
            if rnd.random() < 0.85:
                h.continue_plan(0)
                continue
        if 0 in h.plan:
            h.act_disconnect(0)
            break
        r = rnd.random()
        if r < 0.03:
            h.act_disconnect(0)
            break
        elif r < 0.50:
            h.act_whole(0)
        elif r < 0.56:
            h.act_whole(0, big=True)
        elif r < 0.68:
            h.act_two(0)
        elif r < 0.95:
            h.act_split(0)
        else:
            h.act_split(0, big=True)
    h.finish()
    return h.ev


def gen_history(rnd, cfg, nsteps):
    h = Hist(rnd, cfg)
    timed = cfg[1] < UNTIMED
    n = rnd.choice([2, 3, 3, 4])
    for i in range(n):
        h.connect(1 if (i == 0 or rnd.random() < 0.65) else 0, 1 if rnd.random() < 0.4 else 0)
    for _ in range(nsteps):
        live = sorted(h.live)
        if not live:
            break
        planned = [c for c in live if c in h.plan]
        r = rnd.random()
        if planned and r < 0.6:
            h.continue_plan(rnd.choice(planned))
            continue
        free = [c for c in live if c not in h.plan] or live
        senders = [c for c in free if h.neg[c]]
        c = rnd.choice(senders) if senders and rnd.random() < 0.85 else rnd.choice(free)
        if c in h.plan:
            h.continue_plan(c)
            continue
        r = rnd.random()
        if timed and r < 0.22:
            h.act_tick()
        elif r < 0.08:
            h.act_disconnect(rnd.choice(live))
        elif r < 0.12 and h.nconn < 5:
            h.connect(rnd.randint(0, 1), rnd.randint(0, 1))
        elif r < 0.50:
            h.act_whole(c)
        elif r < 0.56:
            h.act_whole(c, big=True)
        elif r < 0.66:
            h.act_two(c)
        elif r < 0.94:
            h.act_split(c)
        else:
            h.act_split(c, big=True)
    h.finish()
    return h.ev


def gen_long_history(rnd, cfg, nsteps):
    """aimed at do_writing: descriptor-carrying messages whose header (a very long object path) or body is larger than a
    socket buffer, for recipients that negotiated descriptor passing and read nothing until the bus has written what the
    socket takes; the bus needs several sendmsg calls for one message"""
    h = Hist(rnd, cfg)
    m = cfg[0]
    h.connect(1, rnd.randint(0, 1)); h.connect(1, rnd.randint(0, 1))
    if rnd.random() < 0.4:
        h.connect(rnd.randint(0, 1), 1)
    for _ in range(nsteps):
        c = rnd.choice([0, 0, 1])
        if c not in h.live:
            continue
        if c in h.plan:
            h.continue_plan(c)
            continue
        pend = h.pend.get(c, 0)
        r = rnd.random()
        if r < 0.6:
            a = rnd.randint(1, max(1, m - pend))
            big = rnd.choice([300000, 450000, 700000, 1000000])
            dest = rnd.choice(["u%d" % (1 - c)] * 4 + ["u%d" % c, "b"] + (["u2"] if h.nconn > 2 else []))
            d = h.desc(a, dest, pad=big, in_header=(rnd.random() < 0.7 and cfg[2] < 0))
            if rnd.random() < 0.25:
                cut = rnd.choice([16, 5000, 250000, d["len"] - 8])
                h.write(c, [fds_msg.desc_str(d, cut)], a)
                h.plan[c] = [(["P:%d" % (d["len"] - cut)], 0)]
            else:
                h.write(c, [fds_msg.desc_str(d, d["len"])], a)
        elif r < 0.75 and pend < m:
            d = h.desc(0, "u%d" % (1 - c))
            h.write(c, [fds_msg.desc_str(d, d["len"])], 1)     # a surplus descriptor ahead of a long message
            h.pend[c] = pend + 1
        else:
            h.act_whole(c)
    h.finish()
    return h.ev


def gen_timed_history(rnd, cfg, nsteps):
    """aimed at check_pending_fds_cb: the count of pending descriptors goes up and down between ticks"""
    h = Hist(rnd, cfg)
    m = cfg[0]
    nsend = rnd.choice([1, 1, 2])
    for i in range(nsend):
        h.connect(1, 0)
    h.connect(rnd.randint(0, 1), 0)
    rcpt = "u%d" % nsend
    last = None
    for _ in range(nsteps):
        c = rnd.randrange(nsend)
        if c not in h.live:
            continue
        pend = h.pend.get(c, 0)
        r = rnd.random()
        # the interesting orders: tick, then the count changes without reaching 0, then tick again
        if last == "tick" and 0 < pend < m and c not in h.plan and rnd.random() < 0.6:
            r = 0.4
        elif last == "up" and rnd.random() < 0.6:
            r = 0.0
        last = None
        if r < 0.34:
            h.act_tick()
            last = "tick"
        elif c in h.plan:
            h.continue_plan(c)
        elif r < 0.58 and pend < m:                       # one or more surplus descriptors (count goes up)
            k = rnd.randint(1, m - pend)
            d = h.desc(0, rcpt)
            h.write(c, [fds_msg.desc_str(d, d["len"])], k)
            h.pend[c] = pend + k
            last = "up"
        elif r < 0.76 and pend > 0:                       # a message served from the surplus (count goes down, maybe to 0)
            k = rnd.randint(1, pend)
            d = h.desc(k, "u%d" % c)                      # to itself: always deliverable
            h.write(c, [fds_msg.desc_str(d, d["len"])], 0)
            h.pend[c] = pend - k
        elif r < 0.88 and pend == 0:                      # half a message with its descriptors: pending until the rest comes
            d = h.desc(1, "u%d" % c)
            cut = rnd.choice([1, 16, 20, d["len"] - 1])
            h.write(c, [fds_msg.desc_str(d, cut)], 1)
            h.plan[c] = [(["P:%d" % (d["len"] - cut)], 0)]
        else:
            h.act_whole(c)
    h.finish()
    return h.ev


def configs(tier):
    out = []
    for m in (1, 2, 3, 4):
        for pm in (-1, 2):
            out.append((m, UNTIMED, pm, CAP))
    out.append((16, UNTIMED, 3, CAP))
    return out


TIMED_CFGS = [(2, TIMEOUT, -1, CAP), (3, TIMEOUT, -1, CAP)]


# ------------------------------------------------------------------ hand-written boundary scenarios
def scenarios():
    import random
    out = []

    def mk(name, cfg, build):
        h = Hist(random.Random(0), cfg)
        build(h)
        h.finish()
        out.append((name, cfg, h.ev))

    def W(h, c, nfds, dest, attach=None, n=None, **kw):
        d = h.desc(nfds, dest, **kw)
        h.write(c, [fds_msg.desc_str(d, d["len"] if n is None else n)], nfds if attach is None else attach)
        return d
    cfg = (4, UNTIMED, -1, CAP)

    def exact(h):
        h.connect(1, 0); h.connect(1, 1); h.connect(0, 1)
        for k in range(0, 6):
            W(h, 0, k, "u1")
    mk("exact-0-to-beyond-max", cfg, exact)

    def recipients(h):
        h.connect(1, 0); h.connect(1, 1); h.connect(0, 1)
        W(h, 0, 2, "u1"); W(h, 0, 2, "u2"); W(h, 0, 0, "u2"); W(h, 0, 2, "b"); W(h, 0, 1, "m"); W(h, 0, 1, "d")
        W(h, 0, 1, "u1", denied=True); W(h, 0, 1, "u9"); W(h, 0, 2, "u0")
    mk("recipient-kinds", cfg, recipients)

    def surplus(h):
        h.connect(1, 0); h.connect(1, 0)
        W(h, 0, 1, "u1", attach=3)        # 2 held
        W(h, 0, 2, "u1", attach=0)        # uses the surplus
        W(h, 0, 0, "u1", attach=4)        # fills the array
        W(h, 0, 0, "u1", attach=0)
        W(h, 0, 0, "u1", attach=1)        # one more than fits: truncation, disconnect
    mk("surplus-fill-then-truncate", cfg, surplus)

    def trunc_partial(h):
        h.connect(1, 0); h.connect(1, 0)
        W(h, 0, 0, "u1", attach=2)
        W(h, 0, 0, "u1", attach=3)        # room 2, 3 sent
    mk("truncation-partial-room", cfg, trunc_partial)

    def deficit(h):
        h.connect(1, 0); h.connect(1, 0)
        W(h, 0, 2, "u1", attach=1)
    mk("fewer-than-announced", cfg, deficit)

    def nonneg_sender(h):
        h.connect(0, 0); h.connect(1, 0)
        W(h, 0, 0, "u1", attach=2)        # discarded by the kernel
        W(h, 0, 1, "u1", attach=1)        # announced but never received
    mk("sender-without-negotiation", cfg, nonneg_sender)

    def split_first(h):
        h.connect(1, 0); h.connect(1, 0)
        d = W(h, 0, 2, "u1", n=16)
        h.write(0, ["P:%d" % (d["len"] - 16)], 0)
        d = W(h, 0, 2, "u1", attach=0, n=15)
        h.write(0, ["P:1"], 0)
        h.write(0, ["P:%d" % (d["len"] - 16)], 2)     # descriptors on the last piece, nothing pending: accepted
    mk("split-fds-first-or-last", cfg, split_first)

    def split_slow(h):
        h.connect(1, 0); h.connect(1, 0)
        W(h, 0, 0, "u1", attach=1)                    # one pending
        d = W(h, 0, 2, "u1", attach=0, n=20)
        h.write(0, ["P:%d" % (d["len"] - 20)], 1)     # slow path: read without control buffer, descriptor lost, message short of one
    mk("split-while-pending", cfg, split_slow)

    def split_slow15(h):
        h.connect(1, 0); h.connect(1, 0)
        W(h, 0, 0, "u1", attach=2)
        d = W(h, 0, 1, "u1", attach=0, n=15)
        h.write(0, ["P:1"], 1)
        h.write(0, ["P:%d" % (d["len"] - 16)], 1)
        W(h, 0, 1, "u1", attach=0)
    mk("split-while-pending-below-header", cfg, split_slow15)

    def disconnects(h):
        h.connect(1, 0); h.connect(1, 0)
        W(h, 0, 2, "u1", n=30)
        h.act_disconnect(1)
        h.write(0, ["P:10"], 0)
        h.act_disconnect(0)
    mk("disconnect-mid-message", cfg, disconnects)

    def recipient_gone(h):
        h.connect(1, 0); h.connect(1, 0)
        d = W(h, 0, 2, "u1", n=30)
        h.act_disconnect(1)
        h.write(0, ["P:%d" % (d["len"] - 30)], 0)
    mk("recipient-leaves-mid-message", cfg, recipient_gone)

    def malformed(h):
        h.connect(1, 0); h.connect(1, 0); h.connect(1, 0)
        W(h, 0, 1, "u1", attach=3)
        W(h, 0, 1, "u1", valid=False)
        W(h, 2, 0, "u1", attach=2)
        W(h, 2, 1, "u1", fixed_ok=False, n=16)
    mk("malformed-with-fds", cfg, malformed)

    def two_then_bad(h):
        h.connect(1, 0); h.connect(1, 0)
        d1 = h.desc(1, "u1"); d2 = h.desc(1, "u1", valid=False)
        h.write(0, [fds_msg.desc_str(d1, d1["len"]), fds_msg.desc_str(d2, d2["len"])], 3)
    mk("good-then-bad-in-one-write", cfg, two_then_bad)

    def big(h):
        h.connect(1, 0); h.connect(1, 0)
        W(h, 0, 2, "u1", pad=5000)
        W(h, 0, 0, "u1", attach=1)
        W(h, 0, 1, "u1", attach=1, pad=3000)
    mk("longer-than-one-read", cfg, big)

    def count_policy(h):
        h.connect(1, 1); h.connect(1, 1)
        for k in (1, 2, 3):
            W(h, 0, k, "u1")
        W(h, 0, 2, "b"); W(h, 0, 1, "b"); W(h, 0, 3, "d"); W(h, 0, 2, "m")
    mk("count-policy", (4, UNTIMED, 2, CAP), count_policy)

    def timeout(h):
        h.connect(1, 0); h.connect(1, 0)
        W(h, 0, 0, "u1", attach=1)
        h.ev.append("T.%d" % TICK_SHORT)
        W(h, 0, 0, "u1", attach=1)                    # does not restart the timer
        h.ev.append("T.%d" % TICK_LONG)
    mk("pending-timeout", (3, TIMEOUT, -1, CAP), timeout)

    def timeout_rearm(h):
        h.connect(1, 0); h.connect(1, 0)
        W(h, 0, 0, "u1", attach=1)
        h.ev.append("T.%d" % TICK_SHORT)
        W(h, 0, 1, "u1", attach=0)                    # pending back to 0: timer off
        h.ev.append("T.%d" % TICK_LONG)
        W(h, 0, 1, "u1", n=20)                        # half a message with its descriptor
        h.ev.append("T.%d" % TICK_LONG)
    mk("pending-timeout-disarm", (3, TIMEOUT, -1, CAP), timeout_rearm)

    def timeout_no_restart(h):
        h.connect(1, 0); h.connect(0, 0)
        W(h, 0, 0, "u1", attach=1)
        h.ev.append("T.%d" % TICK_MID)
        W(h, 0, 0, "u1", attach=1)                    # still pending: the timer keeps running from the first descriptor
        W(h, 0, 1, "u1", attach=0)                    # one taken, one left: still running
        h.ev.append("T.%d" % TICK_MID)                # 800 ms since it was armed
    mk("pending-timeout-not-restarted", (3, TIMEOUT, -1, CAP), timeout_no_restart)

    def timeout_two_conns(h):
        h.connect(1, 0); h.connect(1, 0)
        W(h, 0, 0, "u1", attach=1)
        h.ev.append("T.%d" % TICK_MID)
        W(h, 1, 0, "u0", attach=2)
        h.ev.append("T.%d" % TICK_MID)                # only connection 0 has waited long enough
        h.ev.append("T.%d" % TICK_MID)
    mk("pending-timeout-per-connection", (3, TIMEOUT, -1, CAP), timeout_two_conns)

    def long_header(h):
        h.connect(1, 0); h.connect(1, 0)
        W(h, 0, 1, "u1", pad=400000, in_header=True)          # header alone needs several writes
        W(h, 0, 2, "u1", pad=1000000, in_header=True)
        W(h, 0, 2, "u1", pad=400000, in_header=False)         # long body: the header goes out with the first write
        W(h, 0, 1, "u1")
    mk("long-header-partial-writes", cfg, long_header)

    def long_header_surplus(h):
        h.connect(1, 1); h.connect(1, 1)
        W(h, 0, 0, "u1", attach=2)                            # two descriptors ahead
        W(h, 0, 3, "u1", attach=1, pad=600000, in_header=True)
        W(h, 0, 2, "b", pad=300000, in_header=True)           # broadcast: both listeners, the sender included
    mk("long-header-surplus-and-broadcast", cfg, long_header_surplus)
    return out


# ------------------------------------------------------------------ message API sequences (coq/Fds/MsgApi.v, harness/c/fds_h.c `api`)
def gen_api_sequence(rnd, nops):
    """ops in the text format of ml/fds/driver.ml run_api; aimed at the case splits of the proofs: dup failing at every
    position of a copy / get_args, get_args asking for fewer, exactly, more descriptors than the message has, with and without
    a trailing type mismatch, several references, copies of copies, the application closing originals and handed-out dups"""
    ops = []
    msgs = {}            # handle -> [refs, nfds]
    app = []             # open? per acquired descriptor
    nexth = 1

    def open_app():
        ops.append("O"); app.append(True)
    open_app()
    for _ in range(nops):
        live = [h for h in msgs]
        openapp = [i for i, o in enumerate(app) if o]
        r = rnd.random()
        if r < 0.10 or not openapp:
            if len(app) < 60:
                open_app()
        elif r < 0.20 or not live:
            if nexth < 40:
                ops.append("N.%d" % nexth); msgs[nexth] = [1, 0]; nexth += 1
        elif r < 0.45:
            h = rnd.choice(live)
            ok = 0 if rnd.random() < 0.12 else 1
            ops.append("A.%d.%d.%d" % (h, rnd.choice(openapp), ok))
            if ok:
                msgs[h][1] += 1
        elif r < 0.58:
            h = rnd.choice(live); n = msgs[h][1]
            if nexth < 40:
                fa = rnd.choice(["-", "-", "-"] + [str(k) for k in range(0, n + 2)])
                ops.append("C.%d.%d.%s" % (h, nexth, fa))
                if fa == "-" or int(fa) >= n:
                    msgs[nexth] = [1, n]
                    nexth += 1
                # a failed copy leaves the handle unused; the next op may reuse the number
        elif r < 0.68:
            h = rnd.choice(live); n = msgs[h][1]
            if n and len(app) < 60:
                ok = 0 if rnd.random() < 0.15 else 1
                ops.append("G.%d.%d.%d" % (h, rnd.randrange(n), ok))
                if ok:
                    app.append(True)
        elif r < 0.82:
            h = rnd.choice(live); n = msgs[h][1]
            want = rnd.choice([0, 1, 2, n, n, max(0, n - 1), n + 1])
            want = min(want, 4)
            fa = rnd.choice(["-", "-", "-"] + [str(k) for k in range(0, want + 1)])
            mm = 1 if rnd.random() < 0.3 else 0
            if len(app) + want < 60:
                ops.append("R.%d.%d.%s.%d" % (h, want, fa, mm))
                if want <= n and not mm and (fa == "-" or int(fa) >= want):
                    app.extend([True] * want)
        elif r < 0.87:
            h = rnd.choice(live)
            ops.append("F.%d" % h); msgs[h][0] += 1
        elif r < 0.95:
            h = rnd.choice(live)
            if msgs[h][0] > 1:
                ops.append("U.%d" % h); msgs[h][0] -= 1
            else:
                ops.append("V.%d" % h); del msgs[h]
        else:
            i = rnd.choice(openapp)
            ops.append("X.%d" % i); app[i] = False
    for h in list(msgs):
        while msgs[h][0] > 1:
            ops.append("U.%d" % h); msgs[h][0] -= 1
        ops.append("V.%d" % h)
    return ops
