"""Correspondence run for the bus part of C19: every history goes through the
extracted model (ml/activation) and through the real dbus-daemon
(activation_impl.py); the per-event tokens are canonicalised and compared."""
import json, multiprocessing, os, sys
sys.path.insert(0, os.path.dirname(os.path.abspath(__file__)))
sys.path.insert(0, os.path.join(os.path.dirname(os.path.abspath(__file__)), "..", "..", "tools"))
import vlib
import activation_impl as ai


def svc_text(services):
    return ",".join("%s:%d:%d" % (n, x, 0 if k == 0 else 1) for n, x, k in services) or "-"


def hist_line(case, cmd="hist"):
    label, maxp, services, timed, events = case
    lim = "%d/%d" % tuple(maxp) if isinstance(maxp, (tuple, list)) else "%d" % maxp
    return "%s %s %s %s" % (cmd, lim, svc_text(services), " ".join(events))


def canon_step(tok, drop=(), dead=()):
    """order between recipients and between spawn/kill notes is not observable; per recipient the order of
    forwarded messages is, the rest is compared as a multiset.  NoReply errors (C09's subject) are dropped."""
    if tok in ("-", "!", "~"):
        return tok
    sp, per = [], {}
    for t in tok.split("+"):
        if t in ("-", "~", ""):
            continue
        if t.startswith("k.") and int(t[2:]) in dead:
            continue                                     # killing a process that has already exited shows nowhere
        if t.startswith("sp.") or t.startswith("k."):
            sp.append(t)
            continue
        r, rest = t.split(":", 1)
        if rest.endswith(".NoReply") or int(r) in drop:
            continue
        per.setdefault(int(r), []).append(rest)
    parts = sorted(sp)
    for r in sorted(per):
        f = [x for x in per[r] if x.startswith("f.")]
        o = sorted(x for x in per[r] if not x.startswith("f."))
        parts.append("%d:%s" % (r, ",".join(f + o)))
    return "+".join(parts) if parts else "-"


def _work(args):
    exe, case, hints = args
    label, maxp, services, timed, events = case
    try:
        toks, info = ai.run_history(exe, maxp, services, timed, events, hints)
    except Exception as e:                                  # daemon did not start, ...
        return None, {"aborted": "exception: %r" % (e,), "notes": [], "stderr": "", "rc": None, "starts_logged": 0, "registered": 0}
    return toks, info


def run_model(model_exe, cases, cmd="hist"):
    res, crashes = vlib.run_lines(model_exe, [hist_line(c, cmd) for c in cases], shards=1)
    out = []
    for r in res:
        if " | " not in r:
            out.append((None, r))
        else:
            t, pend = r.split(" | ")
            out.append((t.split(" "), pend))
    return out, crashes


def drops_for(events, mtoks):
    """per step: connections whose output is unobservable (processes killed by that tick, per the model)"""
    conn_of_sid, nconn = {}, 0
    for ev in events:
        if ev in ("C", "CF"):
            nconn += 1
        elif ev.startswith("K.") or ev.startswith("KF."):
            conn_of_sid[int(ev.split(".")[1])] = nconn
            nconn += 1
    res = []
    for ev, t in zip(events, mtoks):
        d = []
        if ev == "T":
            d = [conn_of_sid[int(x[2:])] for x in t.split("+") if x.startswith("k.") and int(x[2:]) in conn_of_sid]
        res.append(d)
    return res


def canon_pair(events, mtoks, itoks):
    drops = drops_for(events, mtoks)
    cm, ci = [], []
    dead = set()
    for i, ev in enumerate(events):
        m, t = mtoks[i], itoks[i]
        if ev[0] in "XG" and m != "!":
            dead.add(int(ev.split(".")[1]))
        if ev.startswith("F.") and i > 0 and m != "!":
            m = mtoks[i - 1] + "+" + m
            t = itoks[i - 1] + "+" + t
            cm[-1] = ci[-1] = "~"
        cm.append(canon_step(m, drops[i], dead))
        ci.append(canon_step(t, drops[i], dead))
    return cm, ci


def run_bus(daemon_exe, model_exe, cases, procs=None):
    """returns a list of dicts per case: model tokens, impl tokens (canonical), info, agree flag"""
    model, crashes = run_model(model_exe, cases)
    jobs = []
    for c, (mt, pend) in zip(cases, model):
        jobs.append((daemon_exe, c, mt if mt is not None else []))
    procs = procs or max(2, min(8, (os.cpu_count() or 4) // 2))
    with multiprocessing.Pool(procs) as pool:
        impl = pool.map(_work, jobs, chunksize=1)
    out = []
    for c, (mt, pend), (it, info) in zip(cases, model, impl):
        rec = {"case": c, "model_raw": mt, "impl_raw": it, "info": info, "pending_at_end": pend}
        if mt is None:
            rec["status"] = "model-error"
        elif it is None:
            rec["status"] = "aborted"
        else:
            cm, ci = canon_pair(c[4], mt, it)
            rec["model"], rec["impl"] = cm, ci
            rec["status"] = "agree" if cm == ci else "differ"
        out.append(rec)
    return out, crashes
