"""Implementation side of the C15 check: replays a history (the text the extracted model
reads, see ml/fds/driver.ml) against the real dbus-daemon with raw-wire clients and returns
one canonical token per step, plus a final "end" token.

What is observed after every event, behind ordering barriers (round trips of a control
connection; two of them, because the reply to the first may be written in the same main-loop
iteration that reads the event's bytes, before they are dispatched):
  * every message each live client received, with the identity of every descriptor that came
    with it (all descriptors are fresh opens of one scratch file, positioned at offset
    OFFSET+id, so the same open file description is recognised by (st_dev, st_ino, offset));
  * which clients the daemon disconnected;
  * the number of entries in /proc/<daemon pid>/fd minus the baseline minus one socket per
    live client = descriptors the daemon holds.
Every descriptor the harness receives is closed at once."""
import os, select, socket, sys, time
sys.path.insert(0, os.path.dirname(os.path.abspath(__file__)))
import rawbus, fds_msg
from rawbus import METHOD_RETURN, ERROR, SIGNAL, F_MEMBER, F_ERROR_NAME, F_REPLY_SERIAL, F_SENDER

BUS = "org.freedesktop.DBus"
ERRP = "org.freedesktop.DBus.Error."
HIGH = 1000000
OFFSET = 100000
ERRCLASS = {"NotSupported": "NotSupported", "AccessDenied": "AccessDenied", "ServiceUnknown": "NoDest", "NameHasNoOwner": "NoDest"}


def policy_text(polmin):
    p = rawbus.ALLOW_ALL + '\n  <policy context="default">\n    <deny send_interface="x.Denied"/>\n'
    if polmin >= 0:
        p += '    <deny send_path="/x" min_fds="%d"/>\n' % polmin
    return p + "  </policy>"


class Bus:
    """one daemon configured for cfg = (max_fds, timeout_ms, policy_min_fds, read_cap) plus the control connection"""

    def __init__(self, exe, cfg):
        self.cfg = cfg
        maxfds, tmo, polmin, cap = cfg
        # max_incoming_unix_fds is a flow-control threshold (the bus stops reading a connection while that many descriptors of
        # its messages are alive); it is set low so that a history passes it several times over
        limits = ('<limit name="max_message_unix_fds">%d</limit><limit name="pending_fd_timeout">%d</limit>'
                  '<limit name="max_message_size">%d</limit><limit name="max_incoming_unix_fds">%d</limit>'
                  % (maxfds, tmo, fds_msg.MAX_MESSAGE_SIZE, 3 * maxfds + 1))
        self.d = rawbus.Daemon(exe, policy=policy_text(polmin), limits=limits)
        self.k = self.connect()
        self.k.serial = HIGH
        self.k.hello()
        self.scratch = os.path.join(self.d.dir, "scratch")
        open(self.scratch, "w").close()
        st = os.stat(self.scratch)
        self.ident = (st.st_dev, st.st_ino)
        self.sync()
        self.base = self.d.nfds()

    def connect(self, **kw):
        t_end = time.time() + 10
        while True:
            try:
                return self.d.connect(**kw)
            except (ConnectionRefusedError, FileNotFoundError):
                if time.time() > t_end or not self.d.alive():
                    raise
                time.sleep(0.005)

    def sync(self, n=2):
        for _ in range(n):
            if self.k.barrier(timeout=20.0) is None:
                raise IOError("control connection got no reply")
        self.k.inbox = []

    def stop(self):
        try:
            self.k.close()
        except Exception:
            pass
        return self.d.stop()


def send_all(conn, data, fds):
    """one sendmsg with the descriptors; whatever the socket did not take at once follows without ancillary data
    (the kernel attaches SCM_RIGHTS to the first byte of a sendmsg anyway)"""
    import array
    if not fds:
        conn.sock.sendall(data)
        return
    n = conn.sock.sendmsg([data], [(socket.SOL_SOCKET, socket.SCM_RIGHTS, array.array("i", fds))])
    if n < len(data):
        conn.sock.sendall(data[n:])


def poll_all(conn, waited=None):
    """read whatever is already in the socket buffer.  Waits only while a message is half-received: the bus could not
    write it in one piece (longer than the socket buffer) and continues as we read."""
    t_end = time.time() + 20
    while not conn.closed:
        r, _, _ = select.select([conn.sock], [], [], 0)
        if not r:
            if conn.buf and time.time() < t_end:
                if waited is not None:
                    waited.append(1)
                conn._pump(2.0)
                continue
            break
        conn._pump(0)
    out, conn.inbox = conn.inbox, []
    return out


def run_history(bus, events):
    """returns (tokens, notes)"""
    notes = {"id_bad": [], "step_ms": [], "nontick_ms": 0.0}
    conns = {}        # model id -> RawConn (live)
    uniq = {}         # unique name -> model id
    tx = {}           # model id -> [bytes of the message in progress, offset]
    kind = {}         # token -> dest letter
    nxt = 0
    toks = []
    cap = bus.cfg[3]
    bus.sync()
    start_extra = bus.d.nfds() - bus.base

    def observe(skip=None):
        outs, gone = [], []
        waited = []
        for cid in sorted(conns):
            c = conns[cid]
            for m in poll_all(c, waited):
                snd = m.fields.get(F_SENDER)
                rs = m.fields.get(F_REPLY_SERIAL)
                if snd == BUS and m.mtype == SIGNAL:
                    continue
                if rs is not None and rs >= HIGH:
                    continue
                ids = []
                for f in m.fds:
                    try:
                        st = os.fstat(f)
                        off = os.lseek(f, 0, os.SEEK_CUR)
                        ids.append(str(off - OFFSET) if (st.st_dev, st.st_ino) == bus.ident else "?")
                    except OSError:
                        ids.append("?")
                    finally:
                        try:
                            os.close(f)
                        except OSError:
                            pass
                if snd == BUS and m.mtype == ERROR:
                    if kind.get(rs) == "d":
                        outs.append("%d:D.%d" % (cid, rs))
                    else:
                        e = m.fields.get(F_ERROR_NAME, "")
                        e = e[len(ERRP):] if e.startswith(ERRP) else e
                        outs.append("%d:E.%s.%d" % (cid, ERRCLASS.get(e, e), rs))
                elif snd == BUS and m.mtype == METHOD_RETURN:
                    outs.append("%d:D.%d" % (cid, rs))
                else:
                    outs.append("%d:M.%s.%d.%s" % (cid, uniq.get(snd, "?"), m.serial, ",".join(ids) if ids else "-"))
                if len(m.fds) != m.fields.get(rawbus.F_UNIX_FDS, 0):
                    notes["id_bad"].append((len(toks), "message %d arrived with %d descriptors, header says %s" % (m.serial, len(m.fds), m.fields.get(rawbus.F_UNIX_FDS, 0))))
            if c.fdq:
                notes["id_bad"].append((len(toks), "connection %d received %d descriptor(s) beyond what the messages it received announce "
                                                   "(descriptors must accompany a message exactly once, however the bus splits its writes)" % (cid, len(c.fdq))))
                outs.append("%d:X.extra-descriptors.%d" % (cid, len(c.fdq)))
                for f in c.fdq:
                    os.close(f)
                c.fdq = []
            if c.closed:
                gone.append(cid)
        for cid in gone:
            conns[cid].close()
            del conns[cid]
            tx.pop(cid, None)
        if waited:
            # a long message was only now taken off the bus's hands: let it finalise the message before counting
            notes["partial_writes"] = notes.get("partial_writes", 0) + 1
            bus.sync()
            for cid in sorted(conns):
                late = poll_all(conns[cid])
                if any(not (x.fields.get(F_SENDER) == BUS and x.mtype == SIGNAL) and not (x.fields.get(F_REPLY_SERIAL) or 0) >= HIGH for x in late):
                    notes["id_bad"].append((len(toks), "connection %d received a message after the step was over" % cid))
                for x in late:
                    for f in x.fds:
                        os.close(f)
        held = bus.d.nfds() - bus.base - len(conns)
        return "%s/%s/%d" % ("+".join(outs) if outs else "-", ",".join(str(g) for g in gone) if gone else "-", held)

    try:
        for ev in events:
            t0 = time.time()
            nsync = 2
            if ev[0] == "C":
                neg, listen = ev[1] == "1", ev[2] == "1"
                c = bus.connect(want_fds=neg)
                if neg and not c.can_fds:
                    raise IOError("daemon refused NEGOTIATE_UNIX_FD")
                c.serial = HIGH
                c.hello()
                r = c.call("RequestName", "su", (fds_msg.conn_name(nxt), 4))
                if r is None or r.mtype != METHOD_RETURN or r.body[0] != 1:
                    raise IOError("RequestName failed: %r" % (r,))
                if listen:
                    r = c.call("AddMatch", "s", (fds_msg.BCAST_RULE,))
                    if r is None or r.mtype != METHOD_RETURN:
                        raise IOError("AddMatch failed")
                c.inbox = []
                conns[nxt] = c
                uniq[c.unique] = nxt
                nxt += 1
            elif ev[0] == "W":
                _, cid, ps, fl = ev.split(".")
                cid = int(cid)
                data = b""
                for p in ([] if ps == "-" else ps.split(",")):
                    if p[0] == "H":
                        d = fds_msg.parse_desc(p)
                        n = int(p.split(":")[8])
                        kind[d["token"]] = d["dest"][0]
                        raw = fds_msg.build(d)
                        data += raw[:n]
                        tx[cid] = [raw, n]
                    else:
                        n = int(p.split(":")[1])
                        if cid not in tx:
                            continue          # the daemon has already dropped this client (only possible when timing went wrong)
                        raw, off = tx[cid]
                        data += raw[off:off + n]
                        tx[cid][1] = off + n
                ids = [] if fl == "-" else [int(x) for x in fl.split(",")]
                real = []
                for i in ids:
                    f = os.open(bus.scratch, os.O_RDONLY)
                    os.lseek(f, OFFSET + i, os.SEEK_SET)
                    real.append(f)
                try:
                    if cid in conns:
                        try:
                            send_all(conns[cid], data, real)
                        except OSError:
                            pass
                finally:
                    for f in real:
                        os.close(f)
                nsync = 2 + len(data) // max(1, cap)
            elif ev[0] == "D":
                cid = int(ev[2:])
                if cid in conns:
                    conns[cid].close()
                    del conns[cid]
                    tx.pop(cid, None)
            elif ev[0] == "T":
                time.sleep(int(ev[2:]) / 1000.0)
            else:
                raise ValueError("event " + ev)
            bus.sync(nsync)
            toks.append(observe())
            dt = (time.time() - t0) * 1000.0
            notes["step_ms"].append(round(dt, 1))
            # everything that is not the requested idle time counts against the timing assumption (overshoot of a tick included)
            notes["nontick_ms"] += dt - (int(ev[2:]) if ev[0] == "T" else 0)
        # teardown: everything closed -> the daemon must be back at its baseline
        for cid in list(conns):
            conns[cid].close()
            del conns[cid]
        bus.sync()
        toks.append("end/%d/%d" % (start_extra, bus.d.nfds() - bus.base))
        return toks, notes
    finally:
        for c in conns.values():
            c.close()


def run_chunk(arg):
    """(daemon exe, cfg, [(index, events)]) -> ([(index, tokens|None, notes)], (rc, stderr))"""
    exe, cfg, hists = arg
    res = []
    bus = Bus(exe, cfg)
    try:
        for idx, ev in hists:
            if not bus.d.alive():
                res.append((idx, None, {"daemon_alive": False, "stderr": bus.d.stderr()[-3000:]}))
                continue
            try:
                best = None
                for attempt in range(3):
                    toks, notes = run_history(bus, ev)
                    best = (toks, notes)
                    # timing assumption (ticks only): everything that is not a tick must be short against the timeout
                    if not any(e[0] == "T" for e in ev) or notes["nontick_ms"] <= cfg[1] * 0.2:
                        break
                    notes["tainted"] = True
                res.append((idx, best[0], best[1]))
                if best[0] and best[0][-1].startswith("end/") and best[0][-1] != "end/0/0" and bus.d.alive():
                    # a leak must not be charged to the histories that follow: fresh daemon
                    bus.stop()
                    bus = Bus(exe, cfg)
            except Exception as e:
                import traceback
                res.append((idx, None, {"exception": traceback.format_exc()[-1500:], "daemon_alive": bus.d.alive(),
                                        "stderr": bus.d.stderr()[-3000:] if not bus.d.alive() else ""}))
                if bus.d.alive():
                    # start from a clean daemon after a harness problem
                    bus.stop()
                    bus = Bus(exe, cfg)
    finally:
        rc_err = bus.stop()
    return res, rc_err


def run_blocked(exe, nfds=3, max_incoming=6):
    """Exploration outside the model: a recipient that never reads.  Descriptor-carrying messages pile up in the
    recipient's outgoing queue until the sender's max_incoming_unix_fds quota stops the bus from reading; then the
    recipient leaves, then the sender.  Returns the observed descriptor counts (relative to the baseline)."""
    limits = ('<limit name="max_message_unix_fds">8</limit><limit name="max_incoming_unix_fds">%d</limit>'
              '<limit name="max_outgoing_unix_fds">12</limit>' % max_incoming)
    d = rawbus.Daemon(exe, limits=limits)
    res = {}
    try:
        t_end = time.time() + 10
        while True:
            try:
                k = d.connect()
                break
            except (ConnectionRefusedError, FileNotFoundError):
                if time.time() > t_end:
                    raise
                time.sleep(0.005)
        k.serial = HIGH
        k.hello(); k.barrier(); k.barrier()
        base = d.nfds()
        a = d.connect(want_fds=True); a.serial = HIGH; a.hello()
        b = d.connect(want_fds=True); b.serial = HIGH; b.hello()
        scratch = os.path.join(d.dir, "scratch")
        open(scratch, "w").close()
        sent = 0
        a.sock.settimeout(0.3)
        for i in range(2000):
            m = rawbus.Msg(rawbus.METHOD_CALL, 1, i + 1, {rawbus.F_PATH: "/x", rawbus.F_INTERFACE: "x.I", rawbus.F_MEMBER: "M",
                                                          rawbus.F_DESTINATION: b.unique, rawbus.F_UNIX_FDS: nfds},
                           "h" * nfds + "s", tuple(range(nfds)) + ("p" * 3000,))
            F = [os.open(scratch, os.O_RDONLY) for _ in range(nfds)]
            try:
                a.send(m, F)
                sent += 1
            except (TimeoutError, OSError):
                break
            finally:
                for f in F:
                    os.close(f)
        res["sent"] = sent
        k.barrier(); k.barrier()
        res["blocked"] = d.nfds() - base
        b.close()
        # everything the sender still had in its socket is read now, at most two reads of 2048 bytes per main-loop iteration
        for _ in range(3 + sent * 3300 // 2048):
            k.barrier()
        res["after_recipient_left"] = d.nfds() - base
        a.close()
        k.barrier(); k.barrier(); k.barrier()
        res["after_sender_left"] = d.nfds() - base
        k.close()
    finally:
        rc, err = d.stop()
        res["rc"], res["stderr"] = rc, err[-2000:]
    return res
