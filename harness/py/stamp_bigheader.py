"""Replay of C03-D1 (not part of the check: takes ~20 minutes with the ASan daemon, whose reads are slow).

A client sends a signal whose header-field array is 11 bytes short of the wire format's 2^26 limit and has
no SENDER field; the bus appends SENDER when it stamps the message, does not re-check the limit, and relays a
message whose field array exceeds 2^26.  libdbus' own loader (dbus_message_demarshal) rejects those bytes
("Array length exceeds maximum"), i.e. a libdbus receiver would treat its stream as corrupted and disconnect.
Needs a bus that accepts 64 MiB messages (session bus: max_message_size 1000000000; system bus default 32 MiB: no).

usage: python3 harness/py/stamp_bigheader.py <dbus-daemon> [<libdbus-1.so.3 for the loader check>]"""
import ctypes, os, struct, sys, time
sys.path.insert(0, os.path.dirname(os.path.abspath(__file__)))
import rawbus
from rawbus import Msg, SIGNAL, F_PATH, F_INTERFACE, F_MEMBER, F_DESTINATION, F_SENDER

LIMIT = 2 ** 26


def main():
    exe = sys.argv[1]
    d = rawbus.Daemon(exe, limits='<limit name="max_message_size">134217728</limit><limit name="max_incoming_bytes">500000000</limit>'
                                  '<limit name="max_outgoing_bytes">500000000</limit>')
    time.sleep(0.3)
    a, b = d.connect(timeout=3000), d.connect(timeout=3000)
    a.hello(), b.hello()
    b.drain(0.1)
    m = Msg(SIGNAL, 0, 100001, {F_PATH: "/" + "a" * (LIMIT - 68), F_INTERFACE: "t.I", F_MEMBER: "M", F_DESTINATION: b.unique})
    raw = m.encode()
    print("written: header field array length %d (limit %d), message %d bytes" % (struct.unpack_from("<I", raw, 12)[0], LIMIT, len(raw)))
    a.send_raw(raw)
    a.barrier(timeout=3000)
    t_end = time.time() + 600
    while time.time() < t_end and not b.inbox and not b.closed:
        b._pump(1.0)
    got = b.inbox[0]
    flen = struct.unpack_from("<I", got.raw, 12)[0]
    print("relayed: header field array length %d, sender %s, message %d bytes -> %s" % (
        flen, got.fields.get(F_SENDER), len(got.raw), "EXCEEDS the limit" if flen > LIMIT else "within the limit"))
    d.stop()
    if len(sys.argv) > 2:
        lib = ctypes.CDLL(sys.argv[2])

        class DBusError(ctypes.Structure):
            _fields_ = [("name", ctypes.c_char_p), ("message", ctypes.c_char_p), ("d1", ctypes.c_uint), ("pad", ctypes.c_void_p)]
        lib.dbus_message_demarshal.restype = ctypes.c_void_p
        lib.dbus_message_demarshal.argtypes = [ctypes.c_char_p, ctypes.c_int, ctypes.POINTER(DBusError)]
        e = DBusError()
        lib.dbus_error_init(ctypes.byref(e))
        r = lib.dbus_message_demarshal(got.raw, len(got.raw), ctypes.byref(e))
        print("libdbus loader on the relayed bytes:", "loaded" if r else "REJECTED: %s: %s" % (e.name.decode(), e.message.decode()))
    return 0 if flen <= LIMIT else 1


if __name__ == "__main__":
    sys.exit(main())
