"""End-to-end runner for C07 (package `match`): plays one scenario (a history of
Hello / RequestName / AddMatch / RemoveMatch / send / disconnect on several raw
connections) against a fresh ASan dbus-daemon and returns one observation line
per event, in the same vocabulary as ml/match/driver.ml prints for the model.

Scenario = {"limit": int, "events": [[op, conn, ...], ...]} with
  ["hello", c]            connect + Hello (conn 0, the controller, is implicit and first);
  ["hello", c, "fd"]      the same, negotiating NEGOTIATE_UNIX_FD during authentication
  ["own", c, name]        RequestName, flags 0 (primary owner, or queued behind the current owner)
  ["release", c, name]    ReleaseName
  ["add", c, text]        AddMatch
  ["rm", c, text]         RemoveMatch
  ["send", c, type, path, iface, member, dest, args]   args = [["s", str] | ["o", str] | ["x"] | ["h"]]  (["h"] = one unix fd, sent with SCM_RIGHTS)
  ["disc", c]             close the socket, wait until the bus has processed it
Strings may contain "{Uk}" = unique name of connection k (":1.k'" by Hello order).
Trusted glue; no sleeps: ordering comes from GetId round trips and from the
controller's NameOwnerChanged subscription."""
import os, re, sys, time
sys.path.insert(0, os.path.dirname(os.path.abspath(__file__)))
from rawbus import (Daemon, RawConn, Msg, METHOD_CALL, METHOD_RETURN, ERROR, SIGNAL, F_PATH, F_INTERFACE, F_MEMBER, F_ERROR_NAME,
                    F_REPLY_SERIAL, F_DESTINATION, F_SENDER, F_UNIX_FDS, ALLOW_ALL)

DBUS = "org.freedesktop.DBus"
CTRL_RULE = "type='signal',sender='org.freedesktop.DBus',interface='org.freedesktop.DBus',member='NameOwnerChanged',path='/org/freedesktop/DBus'"
ERR = "org.freedesktop.DBus.Error."
NO_REPLY = 1


def hx(b):
    if isinstance(b, str):
        b = b.encode("utf-8", "surrogateescape")
    return bytes(b).hex()


class Names:
    """unique names are assigned ':1.<n>' in Hello order on a fresh daemon"""

    def __init__(self):
        self.by_conn = {}
        self.next = 0

    def assign(self, c):
        self.by_conn[c] = ":1.%d" % self.next
        self.next += 1
        return self.by_conn[c]

    def subst(self, s, plan):
        # plan: conn -> index in Hello order (known up front from the scenario)
        def rep(m):
            k = int(m.group(1))
            return ":1.%d" % plan[k] if k in plan else ":1.99999"
        return re.sub(r"\{U(\d+)\}", rep, s)


def hello_plan(sc):
    plan, n = {0: 0}, 1
    for e in sc["events"]:
        if e[0] == "hello" and e[1] not in plan:
            plan[e[1]] = n
            n += 1
    return plan


def expand(sc):
    """substitute {Uk}; returns a new scenario with concrete strings"""
    plan = hello_plan(sc)
    nm = Names()

    def s(x):
        return nm.subst(x, plan) if isinstance(x, str) else x
    out = []
    for e in sc["events"]:
        if e[0] == "send":
            out.append(["send", e[1], e[2], s(e[3]), s(e[4]), s(e[5]), s(e[6]), [[a[0]] + [s(v) for v in a[1:]] for a in e[7]]])
        else:
            out.append([s(x) for x in e])
    # every history ends with the remaining connections leaving one by one (modelled events), so that the
    # daemon is shut down with only the controller attached
    live = []
    for e in out:
        if e[0] == "hello":
            live.append(e[1])
        elif e[0] == "disc" and e[1] in live:
            live.remove(e[1])
    for c in live:
        out.append(["disc", c])
    return {"limit": sc["limit"], "events": out, "plan": plan}


def model_lines(sc):
    """the command lines for ml/match/driver.ml corresponding to an expanded scenario (controller included)"""
    plan = sc["plan"]
    lines = ["reset %d" % sc["limit"], "hello 0 " + hx(":1.0"), "add 0 " + hx(CTRL_RULE)]
    for e in sc["events"]:
        op = e[0]
        if op == "hello":
            lines.append("hello %d %s%s" % (e[1], hx(":1.%d" % plan[e[1]]), " fd" if len(e) > 2 and e[2] == "fd" else ""))
        elif op in ("own", "release", "add", "rm"):
            lines.append("%s %d %s" % (op, e[1], hx(e[2]) or "-"))
        elif op == "send":
            lines.append("send %d %s" % (e[1], msg_desc(e[2:])))
        elif op == "disc":
            lines.append("disc %d" % e[1])
    return lines


def msg_desc(f):
    t, path, iface, member, dest, args = f

    def o(x):
        return "-" if x is None else hx(x)
    a = ",".join((x[0] if x[0] in ("x", "h") else x[0] + hx(x[1])) for x in args) or "-"
    return "%d %s %s %s %s %s" % (t, o(path), o(iface), o(member), o(dest), a)


def fmt_conns(counts):
    l = []
    for c in sorted(counts):
        l += [str(c)] * counts[c]
    return ",".join(l) or "-"


class Runner:
    def __init__(self, daemon_exe, sc):
        self.sc = sc
        limits = '<limit name="max_match_rules_per_connection">%d</limit>' % sc["limit"]
        self.d = Daemon(daemon_exe, policy=ALLOW_ALL, limits=limits)
        self.conns = {}
        self.unique = {}
        self.owned = {}
        self.queue = {}          # well-known name -> connections in queue order (first = primary owner)
        self.dead = False

    # -- helpers -----------------------------------------------------------------
    def alive(self):
        return self.d.alive()

    def call(self, c, member, sig="", body=(), flags=0):
        conn = self.conns[c]
        m = Msg(METHOD_CALL, flags, conn.next_serial(), {F_PATH: "/org/freedesktop/DBus", F_MEMBER: member, F_INTERFACE: DBUS, F_DESTINATION: DBUS}, sig, body)
        conn.send(m)
        return m.serial

    def barrier_all(self):
        """one GetId round trip on every live connection; False if the daemon went away"""
        for c, conn in sorted(self.conns.items()):
            try:
                r = conn.barrier()
            except (OSError, IOError):
                r = None
            if r is None:
                return False
        return True

    def take(self, pred):
        """remove and count, per connection, the queued messages satisfying pred"""
        counts = {}
        for c, conn in self.conns.items():
            keep = []
            for m in conn.inbox:
                if pred(m):
                    counts[c] = counts.get(c, 0) + 1
                    for fd in m.fds:
                        try:
                            os.close(fd)
                        except OSError:
                            pass
                    m.fds = []
                else:
                    keep.append(m)
            conn.inbox = keep
        return counts

    def replies(self, c, serial):
        conn = self.conns[c]
        out = [m for m in conn.inbox if m.fields.get(F_REPLY_SERIAL) == serial and m.mtype in (METHOD_RETURN, ERROR)]
        conn.inbox = [m for m in conn.inbox if m not in out]
        return out

    @staticmethod
    def is_noc(m, name):
        return (m.mtype == SIGNAL and m.fields.get(F_SENDER) == DBUS and m.fields.get(F_MEMBER) == "NameOwnerChanged"
                and m.fields.get(F_DESTINATION) is None and len(m.body) == 3 and m.body[0] == name)

    # -- events ---------------------------------------------------------------------
    def connect(self, want_fds=False):
        # the socket file exists after bind(); listen() may not have happened yet: retry (startup only)
        t_end = time.time() + 10
        while True:
            try:
                return self.d.connect(want_fds=want_fds)
            except ConnectionRefusedError:
                if time.time() > t_end or not self.alive():
                    raise
                time.sleep(0.002)

    def ev_hello(self, c, fd=False):
        conn = self.connect(want_fds=fd)
        if conn.can_fds != fd:
            return "?fd-negotiation %s" % conn.can_fds
        self.conns[c] = conn
        try:
            r = conn.hello()
        except (OSError, IOError):
            r = None
        if r is None:
            return "F"               # the caller distinguishes a dead daemon from a lost connection
        if r.mtype != METHOD_RETURN:
            return "?hello-failed"
        self.unique[c] = conn.unique
        self.owned[c] = []
        want = ":1.%d" % self.sc["plan"][c]
        if conn.unique != want:
            return "?unique-name %s expected %s" % (conn.unique, want)
        if not self.barrier_all():
            return "F"
        return "S " + fmt_conns(self.take(lambda m: self.is_noc(m, conn.unique)))

    def ev_own(self, c, name):
        """RequestName with flags 0: reply code 1 (primary owner), 2 (queued), 4 (already owner)"""
        s = self.call(c, "RequestName", "su", (name, 0))
        if not self.barrier_all():
            return "F"
        rs = self.replies(c, s)
        if len(rs) != 1 or rs[0].mtype != METHOD_RETURN or len(rs[0].body) != 1:
            return "?requestname %r" % (rs,)
        code = rs[0].body[0]
        q = self.queue.setdefault(name, [])
        if c not in q:
            q.append(c)
        return "O%d %s" % (code, fmt_conns(self.take(lambda m: self.is_noc(m, name) and m.body[1] == "")))

    def ev_release(self, c, name):
        """ReleaseName: reply code 1 (released), 2 (non-existent), 3 (not owner)"""
        s = self.call(c, "ReleaseName", "s", (name,))
        if not self.barrier_all():
            return "F"
        rs = self.replies(c, s)
        if len(rs) != 1 or rs[0].mtype != METHOD_RETURN or len(rs[0].body) != 1:
            return "?releasename %r" % (rs,)
        q = self.queue.get(name, [])
        if c in q:
            q.remove(c)
        me = self.unique[c]
        return "O%d %s" % (rs[0].body[0], fmt_conns(self.take(lambda m: self.is_noc(m, name) and m.body[1] == me)))

    def ev_match(self, c, member, text):
        s = self.call(c, member, "s", (text,))
        if not self.barrier_all():
            return "F"
        rs = self.replies(c, s)
        kinds = []
        for m in rs:
            if m.mtype == METHOD_RETURN:
                kinds.append("ok")
            else:
                en = m.fields.get(F_ERROR_NAME, "")
                kinds.append({ERR + "LimitsExceeded": "limits", ERR + "MatchRuleInvalid": "invalid", ERR + "AccessDenied": "denied",
                              ERR + "MatchRuleNotFound": "notfound"}.get(en, "?" + en))
        return "R " + ("".join(kinds) or "none")

    def ev_send(self, c, t, path, iface, member, dest, args):
        conn = self.conns[c]
        fields = {}
        if path is not None:
            fields[F_PATH] = path
        if iface is not None:
            fields[F_INTERFACE] = iface
        if member is not None:
            fields[F_MEMBER] = member
        if dest is not None:
            fields[F_DESTINATION] = dest
        if t == ERROR:
            fields[F_ERROR_NAME] = "t.Err"
        if t in (ERROR, METHOD_RETURN):
            fields[F_REPLY_SERIAL] = 4000000
        sig, body, nfds = "", [], 0
        for a in args:
            if a[0] == "x":
                sig += "u"
                body.append(7)
            elif a[0] == "h":
                sig += "h"
                body.append(nfds)
                nfds += 1
            else:
                sig += a[0]
                body.append(a[1])
        fds = []
        if nfds:
            fields[F_UNIX_FDS] = nfds
            for _ in range(nfds):
                r, w = os.pipe()
                os.close(w)
                fds.append(r)
        m = Msg(t, NO_REPLY, conn.next_serial(), fields, sig, tuple(body))
        try:
            conn.send(m, fds)
        except (OSError, IOError):
            return "F"
        finally:
            for fd in fds:
                os.close(fd)
        if not self.barrier_all():
            return "F"
        me = self.unique[c]
        counts = self.take(lambda x: x.fields.get(F_SENDER) == me and x.serial == m.serial and x.mtype == t)
        # whatever the bus itself answered to the probe (errors for undeliverable calls) is not a copy
        self.replies(c, m.serial)
        return "D " + fmt_conns(counts)

    def ev_disc(self, c):
        conn = self.conns.pop(c)
        name = self.unique[c]
        # names whose PRIMARY owner leaves are announced; a queued entry just disappears
        released = [n for n, q in self.queue.items() if q and q[0] == c] + [name]
        for q in self.queue.values():
            if c in q:
                q.remove(c)
        conn.close()
        ctrl = self.conns[0]
        t_end = time.time() + 10
        seen = False
        while not seen and time.time() < t_end and not ctrl.closed:
            for m in ctrl.inbox:
                if self.is_noc(m, name) and m.body[2] == "":
                    seen = True
            if not seen:
                ctrl._pump(0.5)
        if not seen:
            return "F" if not self.alive() or ctrl.closed else "?disconnect-not-observed"
        if not self.barrier_all():
            return "F"
        parts = []
        for n in released:
            parts.append(hx(n) + ":" + fmt_conns(self.take(lambda m, n=n: self.is_noc(m, n) and m.body[1] == name)))
        return "G " + ";".join(parts)

    def run(self):
        """returns (observations, exit_status, sanitizer_text)"""
        obs = []
        try:
            r = self.ev_hello(0)
            obs.append(r)
            if r.startswith("S"):
                obs.append(self.ev_match(0, "AddMatch", CTRL_RULE))
                for e in self.sc["events"]:
                    op = e[0]
                    if op == "hello":
                        r = self.ev_hello(e[1], len(e) > 2 and e[2] == "fd")
                    elif op == "own":
                        r = self.ev_own(e[1], e[2])
                    elif op == "release":
                        r = self.ev_release(e[1], e[2])
                    elif op == "add":
                        r = self.ev_match(e[1], "AddMatch", e[2])
                    elif op == "rm":
                        r = self.ev_match(e[1], "RemoveMatch", e[2])
                    elif op == "send":
                        r = self.ev_send(e[1], *e[2:])
                    elif op == "disc":
                        r = self.ev_disc(e[1])
                    else:
                        r = "?bad-event"
                    if r == "F":
                        # distinguish a dead daemon from a dropped connection
                        t_end = time.time() + 3
                        while self.alive() and time.time() < t_end:
                            time.sleep(0.01)      # only reached on the failure path: wait for the exit status
                        if self.alive():
                            r = "?connection-lost"
                    obs.append(r)
                    if r == "F" or r.startswith("?"):
                        break
        except Exception as ex:       # glue failure: report, never hide
            obs.append("?exception %r" % (ex,))
        finally:
            for conn in self.conns.values():
                for fd in list(conn.fdq) + [f for m in conn.inbox for f in getattr(m, "fds", [])]:
                    try:
                        os.close(fd)
                    except OSError:
                        pass
                conn.close()
            rc, err = self.d.stop()
        return obs, rc, err


def run_scenario(daemon_exe, sc):
    return Runner(daemon_exe, sc).run()


if __name__ == "__main__":
    import json
    sc = expand(json.load(open(sys.argv[2])))
    print("\n".join(model_lines(sc)))
    o, rc, err = run_scenario(sys.argv[1], sc)
    print(o, rc, err[-2000:])
