"""History generator for the C03 check (package stamp).  A history is a list of event strings
(C.<c>, D.<c>, S.<c>.<hex>), see stamp_run.py.  Every message is built here byte by byte, so
forged SENDER fields, unknown header fields with arbitrary variant payloads and
CONTAINER_INSTANCE can sit anywhere in the header field array, in either byte order.

The generator keeps a small prediction of who is registered (only to aim destinations and to
avoid wasting events on dead sockets); nothing in the check relies on that prediction."""
import os, struct, sys
sys.path.insert(0, os.path.dirname(os.path.abspath(__file__)))
import rawbus
from rawbus import Variant, METHOD_CALL, METHOD_RETURN, ERROR, SIGNAL, F_PATH, F_INTERFACE, F_MEMBER, F_ERROR_NAME, \
    F_REPLY_SERIAL, F_DESTINATION, F_SENDER, F_SIGNATURE, FIELD_SIG

BUS = "org.freedesktop.DBus"
BUS_PATH = "/org/freedesktop/DBus"
PEER = "org.freedesktop.DBus.Peer"
F_CONTAINER = 10
OBS_RULE = "type='signal'"


def encode(le, mtype, flags, serial, fl, sig, body):
    """fl: list of (code, Variant) in wire order (SIGNATURE included by the caller)"""
    e = "<" if le else ">"
    b = bytearray()
    for t, v in zip(rawbus.split_sig(sig), body):
        rawbus.marshal(b, t, v, le)
    buf = bytearray([ord("l") if le else ord("B"), mtype, flags, 1])
    buf += struct.pack(e + "II", len(b), serial)
    rawbus.marshal(buf, "a(yv)", fl, le)
    rawbus.pad(buf, 8)
    return bytes(buf + b)


def build(le, mtype, flags, serial, fields, sig="", body=(), extra=(), order=None):
    """fields: dict code -> value of the defined fields; extra: list of (position, code, Variant) inserted at
    the given positions of the field array (position counted in the array being built)"""
    f = dict(fields)
    if sig:
        f[F_SIGNATURE] = sig
    fl = [(c, Variant(FIELD_SIG[c], f[c])) for c in (order or sorted(f))]
    for pos, code, var in extra:
        fl.insert(min(pos, len(fl)), (code, var))
    return encode(le, mtype, flags, serial, fl, sig, body)


# ---- random ingredients ------------------------------------------------------------------------
VARIANT_POOL = [
    ("y", lambda r: r.randrange(256)), ("b", lambda r: r.random() < 0.5), ("n", lambda r: r.randrange(-32768, 32768)),
    ("q", lambda r: r.randrange(65536)), ("i", lambda r: r.randrange(-2 ** 31, 2 ** 31)), ("u", lambda r: r.randrange(2 ** 32)),
    ("x", lambda r: r.randrange(-2 ** 63, 2 ** 63)), ("t", lambda r: r.randrange(2 ** 64)), ("d", lambda r: float(r.randrange(-1000, 1000)) / 8),
    ("s", lambda r: r.choice(["", "x", ":1.0", BUS, "forged sender", "é中"])), ("o", lambda r: r.choice(["/", "/a", "/a/b_1"])),
    ("g", lambda r: r.choice(["", "s", "a{sv}", "(ii)"])), ("as", lambda r: [r.choice(["a", BUS, ":1.1"]) for _ in range(r.randrange(4))]),
    ("ai", lambda r: [r.randrange(-5, 5) for _ in range(r.randrange(5))]), ("ay", lambda r: bytes(r.randrange(256) for _ in range(r.randrange(9)))),
    ("(is)", lambda r: (r.randrange(100), "st")), ("(yx)", lambda r: (r.randrange(256), r.randrange(2 ** 40))),
    ("a{sv}", lambda r: [("k%d" % i, Variant("u", r.randrange(9))) for i in range(r.randrange(3))]),
    ("v", lambda r: Variant("s", ":1.%d" % r.randrange(9))), ("a(yv)", lambda r: [(7, Variant("s", ":1.0"))][:r.randrange(2)]),
    ("aai", lambda r: [[1, 2], []][:r.randrange(3)]), ("a{us}", lambda r: [(i, "v") for i in range(r.randrange(3))]),
]
BODIES = [("", ()), ("s", ("payload",)), ("su", ("NameOwnerChanged", 7)), ("sss", ("com.example.X", "", ":1.0")), ("ai", ([1, 2, 3],)),
          ("a{sv}", ([("a", Variant("i", -1))],)), ("v", (Variant("(ss)", ("a", "b")),)), ("yt", (255, 2 ** 63))]
FORGED = [BUS, ":1.0", ":1.1", ":1.2", ":1.3", ":1.9999", ":not.active.yet", "com.example.Forged", ":9.9", ":1.2147483647"]


def rand_variant(rnd):
    sig, f = rnd.choice(VARIANT_POOL)
    return Variant(sig, f(rnd))


def decorate(rnd, level):
    """list of (position, code, Variant): forged SENDER, unknown fields, CONTAINER_INSTANCE"""
    ex = []
    if level == 0:
        return ex
    if rnd.random() < 0.6:
        ex.append((rnd.randrange(8), F_SENDER, Variant("s", rnd.choice(FORGED))))
    for _ in range(rnd.choice((0, 1, 1, 2, 3))):
        code = rnd.choice((11, 12, 13, 64, 127, 128, 200, 254, 255, rnd.randrange(11, 256)))
        ex.append((rnd.randrange(9), code, rand_variant(rnd)))
    if rnd.random() < 0.35:
        ex.append((rnd.randrange(9), F_CONTAINER, Variant("o", rnd.choice(["/org/freedesktop/DBus/Containers1/c1", "/", "/x/y"]))))
    return ex


SPAWN_FAILED = "org.freedesktop.DBus.Error.Spawn.ChildExited"


class Gen:
    def __init__(self, rnd, maxc=50, acts=()):
        self.rnd = rnd
        self.maxc = maxc
        self.acts = [list(a) for a in acts]     # [name, "hold" | "fail"]
        self.kept = {}                          # activatable name -> clients predicted to have a message kept
        self.departed = []                      # unique names of clients that have left
        self.events = []
        self.serial = rawbus_gen_lo()
        self.live = {}        # c -> predicted unique name or None
        self.minted = 0
        self.monitors = set()
        self.wk = {}          # well-known name -> predicted owner

    def next_serial(self):
        self.serial += self.rnd.randrange(1, 4)
        return self.serial

    # -- primitive events
    def connect(self, c):
        self.events.append("C.%d" % c)
        self.live[c] = None

    def act_fail(self, name):
        self.events.append("A.%s.%s" % (name.encode().hex(), SPAWN_FAILED.encode().hex()))
        self.kept.pop(name, None)

    def disconnect(self, c):
        self.events.append("D.%d" % c)
        if self.live.get(c):
            self.departed.append(self.live[c])
        self.live.pop(c, None)
        self.monitors.discard(c)
        for n in [n for n, o in self.wk.items() if o == c]:
            del self.wk[n]

    def send(self, c, raw):
        self.events.append("S.%d.%s" % (c, raw.hex()))

    # -- messages
    def msg(self, c, mtype, fields, sig="", body=(), level=1, flags=None, le=None, order=None, serial=None):
        rnd = self.rnd
        le = (rnd.random() < 0.7) if le is None else le
        flags = rnd.choice((0, 0, 1, 2, 3, 4, 0x80 | 1)) if flags is None else flags
        fl = dict(fields)
        codes = sorted(set(fl) | ({F_SIGNATURE} if sig else set()))
        if order is None and rnd.random() < 0.3:
            rnd.shuffle(codes)
            order = codes
        raw = build(le, mtype, flags, serial or self.next_serial(), fl, sig, body, decorate(rnd, level), order)
        self.send(c, raw)
        # prediction only
        dest = fl.get(F_DESTINATION)
        kinds = dict(self.acts)
        if self.live.get(c) and dest in kinds and dest not in self.wk and not (flags & 2):
            if kinds[dest] == "fail":
                self.act_fail(dest)             # the failure is reported right away: pair it with the message
            else:
                self.kept.setdefault(dest, []).append(c)
        if self.live.get(c, 0) is None:
            if dest == BUS or (dest is None and (mtype != SIGNAL or fl.get(F_INTERFACE) == PEER)):
                pass
            else:
                self.live.pop(c, None)

    def hello(self, c, variant=0, level=0, le=None):
        f = {F_PATH: BUS_PATH, F_INTERFACE: BUS, F_MEMBER: "Hello", F_DESTINATION: BUS}
        sig, body, mtype = "", (), METHOD_CALL
        if variant == 1:
            del f[F_INTERFACE]
        elif variant == 2:
            f[F_PATH] = self.rnd.choice(["/", "/not/the/bus"])
        elif variant == 3:
            sig, body = "s", ("extra",)
        elif variant == 4:
            f[F_INTERFACE] = self.rnd.choice([PEER, "org.freedesktop.DBus.Introspectable", "com.example.I"])
        elif variant == 5:
            del f[F_DESTINATION]
        elif variant == 6:
            mtype = SIGNAL
        ok = variant in (0, 1, 2) and c in self.live and self.live[c] is None and \
            sum(1 for v in self.live.values() if v is not None) < self.maxc
        self.msg(c, mtype, f, sig, body, level=level, flags=self.rnd.choice((0, 0, 1)), le=le)
        if ok:
            self.live[c] = ":1.%d" % self.minted
            self.minted += 1

    def driver_call(self, c, member, sig="", body=(), iface=BUS, level=0):
        self.msg(c, METHOD_CALL, {F_PATH: BUS_PATH, F_INTERFACE: iface, F_MEMBER: member, F_DESTINATION: BUS}, sig, body, level=level, flags=0)

    def add_match(self, c, rule):
        self.driver_call(c, "AddMatch", "s", (rule,))

    def become_monitor(self, c):
        self.driver_call(c, "BecomeMonitor", "asu", ([], 0), iface="org.freedesktop.DBus.Monitoring")
        if self.live.get(c):
            self.monitors.add(c)

    def request_name(self, c, name, flags=0, level=0):
        self.driver_call(c, "RequestName", "su", (name, flags), level=level)
        if self.live.get(c) and not name.startswith(":") and name not in self.wk:
            self.wk[name] = c
            self.kept.pop(name, None)

    def release_name(self, c, name, level=0):
        self.driver_call(c, "ReleaseName", "s", (name,), level=level)

    def colon_name(self, c):
        """a name beginning with ':': somebody else's (live), one's own, a departed one, a never minted one"""
        rnd = self.rnd
        others = [n for k, n in self.live.items() if n and k != c]
        r = rnd.random()
        if r < 0.45 and others:
            return rnd.choice(others)
        if r < 0.6 and self.live.get(c):
            return self.live[c]
        if r < 0.8 and self.departed:
            return rnd.choice(self.departed)
        return rnd.choice([":1.%d" % (self.minted + rnd.randrange(3)), ":2.0", ":1.999", ":x.y"])

    def pick_dest(self, c):
        rnd = self.rnd
        if self.departed and rnd.random() < 0.08:
            return rnd.choice(self.departed)
        names = [n for k, n in self.live.items() if n and k not in self.monitors]
        if self.acts and rnd.random() < 0.22:
            return rnd.choice(self.acts)[0]
        r = rnd.random()
        if r < 0.55 and names:
            return rnd.choice(names)
        if r < 0.7 and self.wk:
            return rnd.choice(sorted(self.wk))
        if r < 0.8:
            return rnd.choice([":1.%d" % (self.minted + rnd.randrange(3)), ":1.999", "com.example.Nobody"])
        if r < 0.88:
            return BUS
        return None

    def random_message(self, c, level=1):
        rnd = self.rnd
        mtype = rnd.choice((METHOD_CALL, METHOD_CALL, METHOD_RETURN, ERROR, SIGNAL, SIGNAL))
        dest = self.pick_dest(c)
        f = {}
        if mtype in (METHOD_CALL, SIGNAL):
            f[F_PATH] = rnd.choice(["/", "/t/p", BUS_PATH])
            f[F_MEMBER] = rnd.choice(["M", "Ping", "NameOwnerChanged", "Hello", "GetMachineId"])
            iface = rnd.choice(["t.I", "t.I", BUS, PEER, None])
            if iface is not None or mtype == SIGNAL:
                f[F_INTERFACE] = iface or "t.J"
        else:
            f[F_REPLY_SERIAL] = rnd.choice((1, 2, 1001, rnd.randrange(1, 5000)))
            if mtype == ERROR:
                f[F_ERROR_NAME] = rnd.choice(["t.Error.E", "org.freedesktop.DBus.Error.Failed"])
            if rnd.random() < 0.2:
                f[F_INTERFACE] = rnd.choice([PEER, "t.I"])
        if dest is not None:
            f[F_DESTINATION] = dest
        sig, body = rnd.choice(BODIES)
        self.msg(c, mtype, f, sig, body, level=level)

    def prefix(self, monitor):
        self.connect(0)
        self.hello(0)
        self.add_match(0, OBS_RULE)
        if monitor:
            self.connect(1)
            self.hello(1)
            self.become_monitor(1)


def rawbus_gen_lo():
    return 100000


ACTS = (("t.A1", "hold"), ("t.A2", "hold"), ("t.F1", "fail"))


def gen_history(rnd, length):
    maxc = rnd.choice((50, 50, 50, 3, 4, 2))
    acts = ACTS if rnd.random() < 0.55 else ()
    g = Gen(rnd, maxc, acts)
    monitor = rnd.random() < 0.45
    g.prefix(monitor)
    next_id = 2
    for _ in range(length):
        clients = [c for c in g.live if c != 0 and c not in g.monitors]
        r = rnd.random()
        if not clients or r < 0.12:
            if len(g.live) >= 7:
                continue
            if rnd.random() < 0.3 and next_id > 2:
                c = rnd.choice([k for k in range(2, next_id) if k not in g.live] or [next_id])
            else:
                c = next_id
            if c == next_id:
                next_id += 1
            g.connect(c)
            if rnd.random() < 0.75:
                g.hello(c, variant=rnd.choice((0, 0, 0, 0, 1, 2)), level=rnd.choice((0, 0, 1)))
            continue
        c = rnd.choice(clients)
        if r < 0.2:
            g.disconnect(c)
        elif r < 0.32:
            g.hello(c, variant=rnd.choice((0, 0, 0, 1, 2, 3, 4, 5, 6)), level=rnd.choice((0, 1)))
        elif r < 0.38:
            if g.acts and (rnd.random() < 0.5 or any(g.kept.values())):
                kept = [n for n, cs in g.kept.items() if cs]
                g.request_name(c, rnd.choice(kept or ["t.A1", "t.A2"]), 4, level=rnd.choice((0, 1)))
            elif rnd.random() < 0.6:
                # other connections' unique names: all flag combinations, release, queries
                k = rnd.random()
                if k < 0.55:
                    g.request_name(c, g.colon_name(c), rnd.randrange(8), level=rnd.choice((0, 0, 1)))
                elif k < 0.7:
                    g.release_name(c, g.colon_name(c), level=rnd.choice((0, 1)))
                elif k < 0.85:
                    g.driver_call(c, "GetNameOwner", "s", (g.colon_name(c),))
                else:
                    g.driver_call(c, "ListQueuedOwners", "s", (g.colon_name(c),))
            else:
                g.request_name(c, rnd.choice(["t.N1", "t.N2"]), rnd.choice((0, 0, 4)), level=rnd.choice((0, 1)))
        elif r < 0.42:
            g.add_match(c, rnd.choice([OBS_RULE, "type='signal',interface='t.I'", "eavesdrop='true'", "sender='%s'" % BUS]))
        elif r < 0.45:
            g.driver_call(c, rnd.choice(["ListNames", "GetId", "NoSuchMethod"]), level=1)
        elif r < 0.47:
            g.driver_call(c, "GetNameOwner", "s", (rnd.choice([":1.0", ":1.%d" % rnd.randrange(g.minted + 1), BUS]),), level=1)
        else:
            g.random_message(c, level=rnd.choice((1, 1, 1, 0)))
    return maxc, g.events, [list(a) for a in acts]


def scenarios():
    """hand-written boundary histories: (name, maxc, events)"""
    import random
    out = []

    def mk(name, fn, maxc=50, monitor=False, acts=()):
        g = Gen(random.Random(name), maxc, acts)
        g.prefix(monitor)
        fn(g)
        out.append((name, maxc, g.events, [list(a) for a in acts]))

    def call(dest):
        f = {F_PATH: "/t/p", F_INTERFACE: "t.I", F_MEMBER: "M"}
        if dest:
            f[F_DESTINATION] = dest
        return f

    def f13(g):
        g.connect(2)
        # before Hello: no destination, forged sender; the daemon's own libdbus connection answers
        g.send(2, build(True, METHOD_CALL, 0, 200001, call(None), extra=[(0, F_SENDER, Variant("s", ":1.0")), (1, 77, Variant("u", 5))]))
        g.send(2, build(True, METHOD_CALL, 0, 200002, {F_PATH: "/", F_INTERFACE: PEER, F_MEMBER: "Ping"}))
        g.send(2, build(False, METHOD_CALL, 0, 200003, {F_PATH: "/", F_INTERFACE: PEER, F_MEMBER: "GetMachineId"}))
        g.send(2, build(True, SIGNAL, 0, 200004, {F_PATH: "/", F_INTERFACE: PEER, F_MEMBER: "Zap"}, extra=[(0, F_SENDER, Variant("s", BUS))]))
        g.send(2, build(True, METHOD_RETURN, 0, 200005, {F_REPLY_SERIAL: 4, F_INTERFACE: PEER}))
        g.send(2, build(True, ERROR, 0, 200006, {F_REPLY_SERIAL: 4, F_ERROR_NAME: "t.E.X"}))
        g.send(2, build(True, METHOD_RETURN, 0, 200007, {F_REPLY_SERIAL: 4}))
        g.hello(2)
        g.send(2, build(True, METHOD_CALL, 0, 200010, {F_PATH: "/", F_MEMBER: "Hello"}))
        g.send(2, build(True, METHOD_CALL, 1, 200011, call(None), extra=[(2, F_SENDER, Variant("s", ":1.0")), (0, F_CONTAINER, Variant("o", "/c"))]))
        g.send(2, build(True, SIGNAL, 0, 200012, {F_PATH: "/", F_INTERFACE: PEER, F_MEMBER: "Ping"}))
    mk("f13", f13)
    mk("f13-monitor", f13, monitor=True)

    def double_hello(g):
        g.connect(2)
        g.hello(2)
        g.hello(2)
        g.hello(2, variant=1)
        g.hello(2, variant=3)
        g.connect(3)
        g.hello(3, variant=3)
        g.hello(3, variant=4)
        g.hello(3, variant=6)
        g.hello(3, variant=1, level=1, le=False)
        g.hello(3)
    mk("double-hello", double_hello)
    mk("double-hello-monitor", double_hello, monitor=True)

    def limit(g):
        for c in (2, 3, 4):
            g.connect(c)
            g.hello(c)
        g.hello(4)
        g.disconnect(2)
        g.hello(4)
        g.hello(4)
        g.connect(2)
        g.hello(2)
        g.disconnect(3)
        g.hello(2, variant=2)
    mk("limit", limit, maxc=3)

    def cycles(g):
        for i in range(12):
            g.connect(2)
            if i % 3 != 1:
                g.hello(2)
            if i % 4 == 0:
                g.hello(2)
            g.disconnect(2)
        g.connect(3)
        g.hello(3)
    mk("reconnect-cycles", cycles)
    mk("reconnect-cycles-monitor", cycles, monitor=True)

    def no_hello(g):
        g.connect(2)
        g.hello(2)
        g.connect(3)
        g.send(3, build(True, METHOD_CALL, 0, 200001, call(":1.1")))
        g.connect(3)
        g.send(3, build(True, SIGNAL, 0, 200002, call(None), extra=[(0, F_SENDER, Variant("s", ":1.1"))]))
        g.connect(3)
        g.driver_call(3, "ListNames")
        g.driver_call(3, "RequestName", "su", ("t.N1", 0))
        g.send(3, build(False, METHOD_RETURN, 0, 200003, {F_REPLY_SERIAL: 1, F_DESTINATION: ":1.1"}))
        g.connect(3)
        g.hello(3)
    mk("no-hello", no_hello)
    mk("no-hello-monitor", no_hello, monitor=True)

    def spoof(g):
        g.connect(2)
        g.hello(2)
        g.add_match(2, OBS_RULE)
        g.connect(3)
        g.hello(3)
        noc = {F_PATH: BUS_PATH, F_INTERFACE: BUS, F_MEMBER: "NameOwnerChanged"}
        for le in (True, False):
            for pos in (0, 2, 9):
                g.send(3, build(le, SIGNAL, 0, g.next_serial(), noc, "sss", ("com.example.X", "", ":1.1"), extra=[(pos, F_SENDER, Variant("s", BUS))]))
                g.send(3, build(le, SIGNAL, 0, g.next_serial(), {**noc, F_DESTINATION: ":1.1"}, "sss", (":1.1", ":1.1", ""),
                                extra=[(pos, F_SENDER, Variant("s", BUS)), (pos, 255, Variant("s", BUS)), (0, F_CONTAINER, Variant("o", "/c"))]))
        for code in (11, 12, 127, 128, 254, 255):
            g.send(3, build(True, METHOD_CALL, 1, g.next_serial(), call(":1.1"), "s", ("x",), extra=[(1, code, Variant("v", Variant("s", ":1.1"))), (3, code, Variant("ay", b"\0\1"))]))
        g.request_name(2, "t.N1")
        g.send(3, build(True, METHOD_CALL, 1, g.next_serial(), call("t.N1"), extra=[(1, F_SENDER, Variant("s", ":1.1"))]))
        g.send(3, build(True, ERROR, 0, g.next_serial(), {F_ERROR_NAME: "t.E.X", F_REPLY_SERIAL: 5, F_DESTINATION: ":1.1", F_SENDER: ":1.0"}))
        g.request_name(3, ":1.7")
        g.request_name(3, ":1.3")
    mk("spoof", spoof)
    mk("spoof-monitor", spoof, monitor=True)

    def hold(g):
        # messages for a service that is being started are kept; the writers' fates differ before the
        # name is finally claimed: one stays, one leaves, one leaves and its id is taken by a new client
        for c in (2, 3, 4, 5):
            g.connect(c)
            g.hello(c)
        g.add_match(5, "eavesdrop='true'")
        for le in (True, False):
            for c in (2, 3, 4):
                g.send(c, build(le, rnd_type(c), 0, g.next_serial(), call("t.A1") if rnd_type(c) != METHOD_RETURN else {F_REPLY_SERIAL: 9, F_DESTINATION: "t.A1"}, "s", ("kept",),
                                extra=[(0, F_SENDER, Variant("s", ":1.0")), (2, 200, Variant("u", 1)), (1, F_CONTAINER, Variant("o", "/c"))]))
        g.send(2, build(True, METHOD_CALL, 2, g.next_serial(), call("t.A1")))          # NO_AUTO_START: not kept
        g.send(2, build(True, SIGNAL, 0, g.next_serial(), call("t.A2"), extra=[(0, F_SENDER, Variant("s", BUS))]))
        g.disconnect(3)
        g.disconnect(4)
        g.connect(4)
        g.hello(4)
        g.request_name(5, ":1.2", 4)
        g.request_name(5, "t.A1", 4)
        g.request_name(5, "t.A1", 4)
        g.disconnect(2)
        g.request_name(4, "t.A2", 4)
        g.send(4, build(True, METHOD_CALL, 0, g.next_serial(), call("t.A1")))
        g.disconnect(5)
        g.send(4, build(True, METHOD_CALL, 0, g.next_serial(), call("t.A1")))
        g.request_name(4, "t.A1", 4)

    def rnd_type(c):
        return {2: METHOD_CALL, 3: SIGNAL, 4: METHOD_RETURN}[c]
    mk("hold-release", hold, acts=ACTS)
    mk("hold-release-monitor", hold, monitor=True, acts=ACTS)

    def fail(g):
        for c in (2, 3):
            g.connect(c)
            g.hello(c)
        g.send(2, build(True, METHOD_CALL, 0, g.next_serial(), call("t.F1"), extra=[(0, F_SENDER, Variant("s", ":1.2"))]))
        g.act_fail("t.F1")
        g.send(3, build(False, SIGNAL, 0, g.next_serial(), call("t.F1"), extra=[(1, 255, Variant("s", "x"))]))
        g.act_fail("t.F1")
        g.send(3, build(True, METHOD_CALL, 1, g.next_serial(), call("t.F1")))
        g.act_fail("t.F1")
    def squat(g):
        # nobody gets at somebody else's unique name, whatever the flags, whatever happens to its holder
        for c in (2, 3, 4):
            g.connect(c)
            g.hello(c)
        a = g.live[2]
        for flags in range(8):
            g.request_name(3, a, flags)
        g.request_name(2, a, 1)                 # the holder itself, ALLOW_REPLACEMENT
        g.request_name(3, a, 2)                 # REPLACE_EXISTING
        g.request_name(3, g.live[3], 0)
        g.release_name(3, a)
        g.release_name(2, a)
        g.driver_call(4, "GetNameOwner", "s", (a,))
        g.driver_call(4, "ListQueuedOwners", "s", (a,))
        g.send(4, build(True, METHOD_CALL, 1, g.next_serial(), call(a)))
        g.disconnect(2)
        g.driver_call(4, "GetNameOwner", "s", (a,))
        g.driver_call(4, "ListQueuedOwners", "s", (a,))
        g.send(4, build(True, METHOD_CALL, 1, g.next_serial(), call(a)))
        g.send(4, build(False, SIGNAL, 0, g.next_serial(), call(a), extra=[(0, F_SENDER, Variant("s", a))]))
        for flags in (0, 1, 2, 4, 7):
            g.request_name(3, a, flags)
        g.release_name(3, a)
        g.connect(2)
        g.hello(2)
        g.request_name(2, a, 0)
        g.send(4, build(True, METHOD_CALL, 1, g.next_serial(), call(a)))
        g.request_name(4, ":1.%d" % g.minted, 0)
        g.connect(5)
        g.hello(5)
        g.driver_call(4, "GetNameOwner", "s", (g.live[5],))
    mk("squat", squat)
    mk("squat-monitor", squat, monitor=True)

    mk("start-fails", fail, acts=ACTS)
    mk("start-fails-monitor", fail, monitor=True, acts=ACTS)
    return out
