"""Message construction shared by the C15 generator and the implementation runner.

A history (the text the extracted model reads, see ml/fds/driver.ml) names a message by its
descriptor  H:<len>:<fixed_ok>:<valid>:<nfds>:<dest>:<denied>:<token>.  build(desc) turns the
descriptor into the bytes a raw client writes; the bytes are a function of the descriptor only
(connections are addressed by the well-known name every test connection owns, so the length
does not depend on the unique names the daemon hands out)."""
import os, struct, sys
sys.path.insert(0, os.path.dirname(os.path.abspath(__file__)))
import rawbus
from rawbus import Msg, METHOD_CALL, SIGNAL, F_PATH, F_INTERFACE, F_MEMBER, F_DESTINATION, F_UNIX_FDS

BUS = "org.freedesktop.DBus"
MAX_MESSAGE_SIZE = 4 * 1024 * 1024  # <limit name="max_message_size"> of the test configuration
BIG = 100000                       # padding from here on goes into the HEADER (object path) for even tokens, into the body otherwise
BCAST_RULE = "type='signal',member='B'"


def conn_name(k):
    return "x.C%03d" % k


def parse_desc(s):
    """'H:len:fx:va:nf:dest:den:tok[:n]' -> dict"""
    f = s.split(":")
    return {"len": int(f[1]), "fixed_ok": f[2] == "1", "valid": f[3] == "1", "nfds": int(f[4]), "dest": f[5],
            "denied": f[6] == "1", "token": int(f[7])}


def desc_str(d, n=None):
    s = "H:%d:%d:%d:%d:%s:%d:%d" % (d["len"], d["fixed_ok"], d["valid"], d["nfds"], d["dest"], d["denied"], d["token"])
    return s if n is None else s + ":%d" % n


def _build(d, pad):
    tok, nf, dest = d["token"], d["nfds"], d["dest"]
    iface = "x.Denied" if d["denied"] else "x.I"
    k = min(nf, 3)
    sig = "h" * k + "s"
    # long messages: even tokens carry the padding in the header (a legal, very long object path; a multiple of 8 so that
    # every later field keeps its alignment and the header grows by exactly that much), odd tokens in the body
    hpad = (pad // 8) * 8 if (pad >= BIG and tok % 2 == 0 and dest != "d") else 0
    pad -= hpad
    body = tuple(range(k)) + ("p" * pad,)
    path = "/x" + ("/" + "a" * (hpad - 1) if hpad else "")
    if dest == "d":
        f = {F_PATH: "/org/freedesktop/DBus", F_INTERFACE: BUS, F_MEMBER: "GetId", F_DESTINATION: BUS}
        mtype, flags = METHOD_CALL, 0
    elif dest == "b":
        f = {F_PATH: path, F_INTERFACE: iface, F_MEMBER: "B"}
        mtype, flags = SIGNAL, 0
    else:
        f = {F_PATH: path, F_INTERFACE: iface, F_MEMBER: "T%d" % tok,
             F_DESTINATION: ("x.Missing" if dest == "m" else conn_name(int(dest[1:])))}
        mtype, flags = (METHOD_CALL, 1) if tok % 2 else (SIGNAL, 0)
    if nf or tok % 3 == 0:
        f[F_UNIX_FDS] = nf
    if not d["valid"]:
        # accepted by the 16-byte peek, rejected by header/body validation once complete
        v = tok % 4
        if v == 0:
            del f[F_PATH]                                   # required field missing
        elif v == 1:
            del f[F_MEMBER]
        elif v == 2:
            body = tuple(range(k)) + (b"\xff\xfe" + b"p" * pad,)   # invalid UTF-8 in a string
    raw = bytearray(Msg(mtype, flags, tok, f, sig, body).encode())
    if not d["valid"] and tok % 4 == 3:
        raw[3] = 2                                          # protocol version (not looked at by the 16-byte peek)
    if not d["fixed_ok"]:
        v = tok % 3
        if v == 0:
            struct.pack_into("<I", raw, 12, MAX_MESSAGE_SIZE + 4096)  # header fields array longer than max_message_size
        elif v == 1:
            raw[0] = ord("x")                               # byte order mark
        else:
            struct.pack_into("<I", raw, 4, MAX_MESSAGE_SIZE + 4096)   # body longer than max_message_size
    return bytes(raw)


def min_len(d):
    return len(_build(d, 0))


def build(d):
    """bytes for descriptor d (d['len'] must be >= min_len(d))"""
    pad = d["len"] - min_len(d)
    if pad < 0:
        raise ValueError("descriptor shorter than its message: %r" % (d,))
    raw = _build(d, pad)
    assert len(raw) == d["len"], (len(raw), d)
    return raw
