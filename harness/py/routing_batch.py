"""Schedules in which the callee's close and other clients' writes reach the bus in ONE main-loop iteration (C09).

A history contains one frozen batch  Z <sends / H.k> Y : the harness SIGSTOPs the daemon (by pid), lets the clients write
(without waiting) and connection k close its socket, SIGCONTs, waits for k's NameOwnerChanged and drains every live client behind
a round trip.  After SIGCONT the bus reads all sockets first (k's transport sees EOF: k is 'not connected' but still registered)
and then dispatches connection by connection, each connection's messages in order; which connection comes first is not ours to
choose.  So the model is run on every permitted order  H.k <connections in some order, k's turn being D.k>  and the implementation
must show the outcome of one of them (outputs of the batch compared as a bag per recipient; what is addressed to k reaches nobody).
In EVERY order a reply-expecting call routed to k earns its caller exactly one error with its serial: NoReply if k's
Disconnected was dispatched after it, NameHasNoOwner / ServiceUnknown if before -- that is the property-level check applied to the
daemon's output when no order matches."""
import itertools, os, sys
sys.path.insert(0, os.path.dirname(os.path.abspath(__file__)))
sys.path.insert(0, os.path.join(os.path.dirname(os.path.abspath(__file__)), "..", "..", "tools"))
import vlib
import routing_impl as ri


def gen_case(rnd, cfg):
    ev = ["C0", "C0", "C0", "C0"]
    k = 1                                   # the callee that closes
    if rnd.random() < 0.6:
        ev.append("R.1.20.0.0")             # it also owns t.N0
    if rnd.random() < 0.3:
        ev.append("R.2.21.0.0")             # ... with connection 2 queued behind it
    tok, ser = 0, 30
    if rnd.random() < 0.4:                  # a call already outstanding before the batch
        tok += 1; ser += 1
        ev.append("S.%d.c.0.0.%d.0.u1.0.%d" % (rnd.choice((0, 2)), ser, tok))
    batch = []
    senders = rnd.sample((0, 2, 3), rnd.choice((1, 1, 2, 3)))
    for c in senders:
        for _ in range(rnd.randint(1, 3)):
            tok += 1; ser += 1
            ty = rnd.choice("cccs")
            nr = 1 if ty == "s" or rnd.random() < 0.25 else 0
            dst = rnd.choice(("u1", "u1", "u1", "n0", "u2" if c != 2 else "u0"))
            batch.append("S.%d.%s.%d.%d.%d.0.%s.0.%d" % (c, ty, nr, rnd.random() < 0.5, ser, dst, tok))
    pos = rnd.randint(0, len(batch))
    batch.insert(pos, "H.%d" % k)
    ev += ["Z"] + batch + ["Y"]
    for _ in range(rnd.randint(0, 2)):
        tok += 1; ser += 1
        ev.append("S.%d.c.0.0.%d.0.%s.0.%d" % (rnd.choice((0, 2, 3)), ser, rnd.choice(("u1", "n0", "u2")), tok))
    return ev


def variants(ev):
    """model histories for every permitted dispatch order of the batch; returns (list of event lists, z, y)"""
    z, y = ev.index("Z"), ev.index("Y")
    batch = ev[z + 1:y]
    k = next(e for e in batch if e[0] == "H").split(".")[1]
    per = {}
    for e in batch:
        if e[0] == "S":
            per.setdefault(e.split(".")[1], []).append(e)
    units = [per[c] for c in per] + [["D." + k]]
    out = []
    for p in itertools.permutations(range(len(units))):
        mid = ["H." + k]
        for i in p:
            mid += units[i]
        out.append(ev[:z] + mid + ev[y + 1:])
    return out, z, y, int(k)


def bag(tokens, k):
    items = []
    for t in tokens:
        if t not in ("-", "!", "~"):
            items += [x for x in t.split("+") if int(x.split(":")[0]) != k]
    return sorted(items)


def unanswered_calls(ev, z, y, k, merged):
    """property reading: reply-expecting calls of the batch that are routed to k must get exactly one error with their serial"""
    bad = []
    items = [] if merged in ("-", "~") else merged.split("+")
    for e in ev[z + 1:y]:
        f = e.split(".")
        if f[0] == "S" and f[2] == "c" and f[3] == "0" and f[7] in ("u%d" % k,):
            n = sum(1 for x in items if x.split(":")[0] == f[1] and x.split(":")[1].startswith("E.") and x.split(".")[-1] == f[5])
            if n != 1:
                bad.append((e, n))
    return bad


def run_batch_check(ctx, prop_id, n_cases, only=None):
    """only = (cfg, events): replay a single batch history"""
    import random
    rep, info = ctx["rep"], ctx["info"]
    rnd = random.Random(ctx["seed"] + 777)
    stats = {"batch_histories": 0, "batch_orders_tried": 0, "close_dispatched_after_call": 0, "close_dispatched_first": 0, "batch_disagreements": 0}
    for cfg in (((1, 50, -1), (1, 50, 60000)) if only is None else (tuple(only[0]),)):
        bus = ri.Bus(info["daemon"], cfg)
        try:
            for i in range(n_cases // 2 if only is None else 1):
                ev = gen_case(rnd, cfg) if only is None else list(only[1])
                vs, z, y, k = variants(ev)
                lines = ["hist %d %d %d %s" % (cfg + (" ".join(v),)) for v in vs]
                mres, _ = vlib.run_lines(info["model_routing"], lines)
                try:
                    it, notes = ri.run_history(bus, ev)
                except Exception as e:
                    alive = bus.d.alive()
                    rc, err = bus.stop()
                    rep.violation("batch history could not be replayed (%r); daemon alive=%s: %s" % (e, alive, err[-500:]),
                                  {"cfg": list(cfg), "events": ev, "names": "harness/py/routing_batch.py"}, found_input=not alive)
                    bus = ri.Bus(info["daemon"], cfg)
                    continue
                stats["batch_histories"] += 1
                stats["batch_orders_tried"] += len(vs)
                nb = y - z + 1                       # impl tokens of the batch region: Z, actions, Y
                ibag = bag([it[y]], k)
                match = None
                for v, m in zip(vs, mres):
                    mt = m.split()
                    mlen = len(v) - (len(ev) - nb)   # model steps standing for the batch
                    pre_ok = [ri.canon_model_token(t, e[0] in "DT") for e, t in zip(v[:z], mt[:z])] == it[:z]
                    suf_ok = [ri.canon_model_token(t, e[0] in "DT") for e, t in zip(v[z + mlen:], mt[z + mlen:])] == it[y + 1:]
                    if pre_ok and suf_ok and bag(mt[z:z + mlen], k) == ibag:
                        match = v
                        break
                if match is not None:
                    d = match.index("D.%d" % k)
                    first_send = next((j for j in range(z, len(match)) if match[j][0] == "S"), len(match))
                    stats["close_dispatched_first" if d < first_send else "close_dispatched_after_call"] += 1
                    continue
                stats["batch_disagreements"] += 1
                replay = {"cfg": list(cfg), "events": ev, "impl": it, "model_orders": [dict(events=" ".join(v), model=m) for v, m in zip(vs, mres)],
                          "how": "harness/py/routing_batch.py: Z = SIGSTOP the daemon, H.k = k closes, Y = SIGCONT + drain"}
                bad = unanswered_calls(ev, z, y, k, it[y])
                if bad:
                    rep.violation("callee %d closed in the same main-loop iteration in which calls to it were written: call `%s` got %d errors with its serial instead of "
                                  "exactly one (NoReply or NameHasNoOwner/ServiceUnknown); outputs of the batch: `%s`" % (k, bad[0][0], bad[0][1], it[y]), replay)
                else:
                    rep.violation("frozen batch: the daemon's outcome `%s` is not the outcome of any permitted dispatch order of the model (%d orders); every call to the "
                                  "closing callee still got exactly one answer" % (it[y], len(vs)),
                                  dict(replay, names="correspondence harness/py/routing_batch.py vs Routing.step over the permitted orders"), found_input=False)
        finally:
            rc, err = bus.stop()
            if rc != 0 or "Sanitizer" in err:
                rep.violation("dbus-daemon ended with status %s / sanitizer output during the batch histories: %s" % (rc, err[-600:]), {"cfg": list(cfg), "stderr": err})
    return stats
