"""History generator for the activation check (C19), bus part.

A small simulator mirrors just enough of the model (coq/Activation/Activation.v) to
number connections and started processes, so that generated histories are
well-formed (events name live connections, K/X/G name live processes, F follows
the start of a command that cannot be executed).  It is not an oracle: if it is
wrong the history merely contains events that the model flags '!' or the harness
refuses, and those histories are counted as ill-formed."""

NAMES = ["w1", "w2", "w3", "w4", "w9"]


class Sim:
    def __init__(self, maxp, services):
        self.maxp = maxp
        self.svc = {}
        for n, x, kind in services:
            self.svc.setdefault(n, (x, kind))
        self.conns = []          # {"alive", "stub"}
        self.owners = {}         # k -> conn
        self.pend = []           # {"name", "exec", "sid", "n"}
        self.stubs = []          # {"alive", "conn", "used", "kind", "name"}
        self.serial = {}
        self.events = []

    def next_serial(self, c):
        self.serial[c] = self.serial.get(c, 0) + 1
        return self.serial[c]

    def live(self):
        return [i for i, c in enumerate(self.conns) if c["alive"]]

    def owner(self, name):
        if name[0] == "u":
            c = int(name[1:])
            return c if c < len(self.conns) and self.conns[c]["alive"] else None
        return self.owners.get(int(name[1:]))

    def npend(self):
        return sum(p["n"] for p in self.pend)

    def activate(self, name, auto, cl):
        """returns the sid if a process is started"""
        if self.npend() >= self.maxp or name not in self.svc:
            return None
        if auto and (cl % 4 == 1 or (cl % 4 == 3 and name == "w9")):
            return None
        if not auto and self.owner(name) is not None:
            return None
        for p in self.pend:
            if p["name"] == name:
                p["n"] += 1
                return None
        x, kind = self.svc[name]
        if kind == 0:
            return None
        sid = len(self.stubs)
        self.pend.append({"name": name, "exec": x, "sid": sid, "n": 1})
        self.stubs.append({"alive": kind == 1, "conn": None, "used": False, "kind": kind, "name": name})
        return sid

    def emit(self, tok):
        self.events.append(tok)

    # ---- events
    def connect(self, sid=None, fd=False):
        """fd: the connection negotiates unix-fd passing"""
        self.conns.append({"alive": True, "stub": sid, "fd": fd})
        if sid is None:
            self.emit("CF" if fd else "C")
        else:
            self.stubs[sid]["conn"] = len(self.conns) - 1
            self.stubs[sid]["used"] = True
            self.emit(("KF.%d" if fd else "K.%d") % sid)
        return len(self.conns) - 1

    def msg_class(self, rnd, c, pol, signal=False, heavy=False):
        """policy class + 4 (carries a unix fd: only fd-capable clients of the harness itself send those) + 8 (reply expected)"""
        cl = pol
        if self.conns[c]["fd"] and self.conns[c]["stub"] is None and rnd.random() < (0.5 if heavy else 0.25):
            cl += 4
        if not signal and rnd.random() < (0.7 if heavy else 0.4):
            cl += 8
        return cl

    def send(self, c, name, cl=0, noauto=False, signal=False):
        s = self.next_serial(c)
        self.emit("%s.%d.%d.%s.%d" % ("U" if noauto else ("B" if signal else "A"), c, s, name, cl))
        if self.owner(name) is None and not noauto:
            self.after_activate(self.activate(name, True, cl))

    def start(self, c, name):
        s = self.next_serial(c)
        self.emit("S.%d.%d.%s" % (c, s, name))
        self.after_activate(self.activate(name, False, 0))

    def after_activate(self, sid):
        if sid is not None and self.stubs[sid]["kind"] == 2:
            self.emit("F.%d" % sid)                        # the exec failure follows by itself
            x = [p for p in self.pend if p["sid"] == sid][0]["exec"]
            self.pend = [p for p in self.pend if p["exec"] != x]

    def request(self, c, k):
        s = self.next_serial(c)
        self.emit("R.%d.%d.%d" % (c, s, k))
        if k not in self.owners:
            self.owners[k] = c
            self.pend = [p for p in self.pend if p["name"] != "w%d" % k]

    def release(self, c, k):
        s = self.next_serial(c)
        self.emit("L.%d.%d.%d" % (c, s, k))
        if self.owners.get(k) == c:
            del self.owners[k]

    def disconnect(self, c):
        self.emit("D.%d" % c)
        self.conns[c]["alive"] = False
        self.owners = {k: o for k, o in self.owners.items() if o != c}

    def child_exit(self, sid, status=None):
        st = self.stubs[sid]
        if st["conn"] is not None and self.conns[st["conn"]]["alive"]:
            self.disconnect(st["conn"])
        self.emit("G.%d" % sid if status is None else "X.%d.%d" % (sid, status))
        st["alive"] = False
        if status != 0:
            mine = [p for p in self.pend if p["sid"] == sid]
            if mine:
                self.pend = [p for p in self.pend if p["exec"] != mine[0]["exec"]]

    def reload(self, c):
        s = self.next_serial(c)
        self.emit("Z.%d.%d" % (c, s))

    def set_services(self, services):
        """the service directory is changed to hold exactly these files"""
        self.svc = {}
        for n, x, kind in services:
            self.svc.setdefault(n, (x, kind))
        self.emit("V." + (",".join("%s:%d:%d" % (n, x, kind) for n, x, kind in services) or "-"))

    def services(self):
        return [(n, x, k) for n, (x, k) in self.svc.items()]

    def churn(self, rnd):
        """install or remove one .service file; what is pending must not care"""
        cur = self.services()
        r = rnd.random()
        pend_names = [p["name"] for p in self.pend]
        if cur and r < 0.45:
            victim = rnd.choice([s for s in cur if s[0] in pend_names] or cur) if rnd.random() < 0.6 else rnd.choice(cur)
            cur = [s for s in cur if s != victim]
        else:
            absent = [n for n in ("w1", "w2", "w3", "w4") if n not in self.svc]
            if absent:
                n = rnd.choice(absent)
                cur = cur + [(n, int(n[1:]) + 10, 1)]
            elif cur:
                cur = cur[1:]
        self.set_services(cur)

    def tick(self):
        self.emit("T")
        dead = []
        for p in self.pend:
            st = self.stubs[p["sid"]]
            if st["alive"]:
                st["alive"] = False
                if st["conn"] is not None and self.conns[st["conn"]]["alive"]:
                    dead.append(st["conn"])
        self.pend = []
        for c in dead:
            self.disconnect(c)


def gen_history(rnd, flavour="plain", length=None):
    """flavour: plain | timed | limit | uniq"""
    length = length or rnd.randint(8, 22)
    timed = flavour == "timed"
    services = []
    shared = rnd.random() < 0.5
    for n in NAMES:
        r = rnd.random()
        if n == "w9":
            if r < 0.5:
                services.append((n, 9, 1))
        elif n == "w3":
            if r < 0.75:
                services.append((n, 3, rnd.choice((1, 0, 0, 2, 2))))
        elif n == "w4":
            if r < 0.5:
                services.append((n, 4, 1))      # w4 often has no service file at all
        else:
            services.append((n, 1 if shared else int(n[1:]), 1))
    if flavour == "uniq":
        services.append(("u%d" % rnd.randint(2, 5), 7, 1))
    maxp = rnd.choice((1, 2, 3)) if flavour == "limit" else rnd.choice((4, 8, 50, 50))
    maxrep = rnd.choice((1, 2, 3)) if rnd.random() < 0.2 else 1000
    s = Sim(maxp, services)
    for _ in range(rnd.randint(1, 3)):
        s.connect(fd=rnd.random() < 0.35)
    ticks = 0
    while len(s.events) < length:
        live = s.live()
        local = [c for c in live if s.conns[c]["stub"] is None]
        r = rnd.random()
        names = [n for n, _, _ in services] + ["w4", "w1", "w2"]
        if timed and ticks < 2 and s.pend and rnd.random() < 0.1:
            s.tick()
            ticks += 1
            continue
        if live and rnd.random() < (0.12 if s.pend else 0.03):
            if rnd.random() < 0.6:
                s.reload(rnd.choice(live))
            else:
                s.churn(rnd)
            continue
        if not local or (r < 0.06 and len(local) < 5):
            s.connect(fd=rnd.random() < 0.35)
        elif r < 0.36:
            c = rnd.choice(live)
            sig = rnd.random() < 0.15
            cl = s.msg_class(rnd, c, rnd.choice((0, 0, 0, 0, 0, 1, 2, 2, 3, 3)), signal=sig)
            s.send(c, rnd.choice(names), cl, noauto=rnd.random() < 0.07, signal=sig)
        elif r < 0.50:
            s.start(rnd.choice(live), rnd.choice(names))
        elif r < 0.60:
            cand = [i for i, st in enumerate(s.stubs) if st["alive"] and not st["used"]]
            if cand:
                s.connect(rnd.choice(cand), fd=rnd.random() < 0.4)
        elif r < 0.76:
            # somebody takes a name: preferably a started process its own, sometimes another one, sometimes a bystander
            stubc = [(i, st) for i, st in enumerate(s.stubs) if st["alive"] and st["conn"] is not None and s.conns[st["conn"]]["alive"]]
            if stubc and rnd.random() < 0.8:
                i, st = rnd.choice(stubc)
                k = int(st["name"][1:]) if st["name"][0] == "w" and rnd.random() < 0.75 else rnd.choice((1, 2, 3, 4, 9))
                s.request(st["conn"], k)
            else:
                pn = [int(p["name"][1:]) for p in s.pend if p["name"][0] == "w"]
                s.request(rnd.choice(live), rnd.choice(pn) if pn and rnd.random() < 0.7 else rnd.choice((1, 2, 3, 4, 9)))
        elif r < 0.80:
            own = list(s.owners.items())
            if own and rnd.random() < 0.8:
                k, c = rnd.choice(own)
                s.release(c, k)
            else:
                s.release(rnd.choice(live), rnd.choice((1, 2, 3)))
        elif r < 0.87:
            # prefer senders that are waiting or owners
            s.disconnect(rnd.choice(live))
        elif r < 0.97:
            cand = [i for i, st in enumerate(s.stubs) if st["alive"]]
            if cand:
                sid = rnd.choice(cand)
                if rnd.random() < 0.12:
                    s.child_exit(sid, None)
                else:
                    s.child_exit(sid, rnd.choice((0, 0, 1, 1, 2, 77, 255)))
    if timed and ticks == 0 and s.pend:
        s.tick()
    if rnd.random() < 0.6:
        # probes: what a fresh caller is told about every name shows which activations are still pending
        c = s.connect()
        for n in sorted(set(n for n, _, _ in services) | set(s.svc)):
            s.start(c, n)
    return ((maxp, maxrep) if maxrep != 1000 else maxp), services, timed, s.events


def gen_burst(rnd):
    """several callers queue up behind one or two activations, then the activations are resolved one way or another:
    the order of the held messages, the two kinds of waiters, waiters that leave, policy at delivery time"""
    shared = rnd.random() < 0.4
    services = [("w1", 1, 1), ("w2", 1 if shared else 2, 1)]
    if rnd.random() < 0.4:
        services.append(("w9", 9, 1))
    timed = rnd.random() < 0.15
    maxrep = rnd.choice((1, 1, 1, 2, 2)) if rnd.random() < 0.55 else 1000
    s = Sim(rnd.choice((6, 50, 50)), services)
    for _ in range(rnd.randint(2, 4)):
        s.connect(fd=rnd.random() < 0.5)
    targets = ["w1"] if rnd.random() < 0.5 else ["w1", "w2"]
    for _ in range(rnd.randint(3, 9)):
        live = s.live()
        if len(live) < 2:
            s.connect()
            continue
        r = rnd.random()
        n = rnd.choice(targets)
        if r < 0.62:
            c = rnd.choice(live)
            sig = rnd.random() < 0.2
            s.send(c, n, s.msg_class(rnd, c, rnd.choice((0, 0, 0, 0, 2, 2, 3, 1)), signal=sig, heavy=True), signal=sig)
        elif r < 0.85:
            s.start(rnd.choice(live), n)
        elif r < 0.93:
            s.disconnect(rnd.choice(live))
        else:
            s.connect()
    # the configuration is reloaded / the service directory changes while the callers wait
    for _ in range(rnd.choice((0, 1, 1, 2))):
        if s.live() and rnd.random() < 0.6:
            s.reload(rnd.choice(s.live()))
        else:
            s.churn(rnd)
        if rnd.random() < 0.3 and s.live():
            s.send(rnd.choice(s.live()), rnd.choice(targets), 0)
    # resolve what is pending, oldest first or newest first
    pend = list(s.pend)
    if rnd.random() < 0.3:
        pend.reverse()
    for p in pend:
        if p not in s.pend:
            continue
        sid, name = p["sid"], p["name"]
        st = s.stubs[sid]
        r = rnd.random()
        if r < 0.6 and st["alive"]:
            c = s.connect(sid, fd=rnd.random() < 0.4)
            if rnd.random() < 0.3 and ("w9", 9, 1) in services:
                s.request(c, 9)                         # the service also owns t.N9: class 3 is refused at delivery
            if rnd.random() < 0.15:
                s.request(c, 3 - int(name[1:]) if name in ("w1", "w2") else 1)     # the wrong name first
            s.request(c, int(name[1:]))
        elif r < 0.7:
            s.request(rnd.choice(s.live()), int(name[1:]))          # a bystander takes the name
        elif r < 0.9 and st["alive"]:
            s.child_exit(sid, rnd.choice((0, 1, 3, 255)) if rnd.random() < 0.85 else None)
        elif timed:
            s.tick()
    if timed and s.pend:
        s.tick()
    live = s.live()
    if live:
        for n in targets:
            s.send(rnd.choice(live), n, 0)
            s.start(rnd.choice(live), n)
    return ((s.maxp, maxrep) if maxrep != 1000 else s.maxp), services, timed, s.events


def scenarios():
    """hand-written boundary histories: (label, maxp, services, timed, events)"""
    S = []
    two = [("w1", 1, 1), ("w2", 2, 1)]
    same = [("w1", 1, 1), ("w2", 1, 1)]
    # several waiters of both kinds, the started process takes the name: replies, held messages in order, policy at delivery time
    S.append(("order", 50, two, False, "C C C A.0.1.w1.0 A.1.1.w1.0 S.2.1.w1 A.0.2.w1.2 A.1.2.w1.0 S.0.3.w1 A.2.2.w1.0 K.0 R.3.1.1 A.0.4.w1.0 S.1.3.w1".split()))
    # a bystander takes the name; the started process then exits with an error: nobody is told anything
    S.append(("bystander", 50, two, False, "C C A.0.1.w1.0 A.0.2.w1.0 R.1.1.1 X.0.1 A.0.3.w1.0".split()))
    # exit status 0 is ignored, a later exit status != 0 of another process is not
    S.append(("exit0", 50, two, False, "C C A.0.1.w1.0 S.1.1.w2 X.0.0 A.1.2.w1.0 X.1.2 S.1.3.w2 S.1.4.w1".split()))
    # same Exec: one failure answers the waiters of both names; the surviving process takes its name to no effect
    S.append(("same-exec", 50, same, False, "C C A.0.1.w1.0 A.1.1.w2.0 S.0.2.w2 X.0.3 K.1 R.2.1.2 A.0.3.w2.0 S.1.2.w1".split()))
    S.append(("diff-exec", 50, two, False, "C C A.0.1.w1.0 A.1.1.w2.0 S.0.2.w2 X.0.3 K.1 R.2.1.2 A.0.3.w2.0".split()))
    # a waiter disconnects before the resolution
    S.append(("waiter-gone", 50, two, False, "C C C A.0.1.w1.0 A.1.1.w1.0 S.1.2.w1 D.1 A.2.1.w1.0 K.0 R.3.1.1".split()))
    S.append(("waiter-gone-fail", 50, two, False, "C C A.0.1.w1.0 A.1.1.w1.0 D.0 X.0.1 D.1 S.1.9.w1".split()))
    # the limit counts entries, not names
    S.append(("limit", 2, two, False, "C A.0.1.w1.0 A.0.2.w1.0 A.0.3.w1.0 S.0.4.w2 X.0.1 S.0.5.w2 A.0.6.w1.0 A.0.7.w2.0".split()))
    # the wrong name, then release and re-activation
    S.append(("wrong-name", 50, two, False, "C A.0.1.w1.0 K.0 R.1.1.2 A.0.2.w2.0 L.1.2.2 A.0.3.w2.0 R.1.3.1 D.1 A.0.4.w1.0".split()))
    # policy: refused at activation time (1, and 3 for t.N9), refused at delivery time (2, and 3 if the owner also owns t.N9)
    pol = [("w1", 1, 1), ("w9", 9, 1)]
    S.append(("policy", 50, pol, False, "C C A.0.1.w1.1 A.0.2.w1.2 A.0.3.w1.3 A.0.4.w9.3 A.0.5.w1.0 K.0 R.2.1.9 R.2.2.1 A.0.6.w1.3 A.0.7.w1.2".split()))
    # command line that does not parse / cannot be executed
    bad = [("w1", 1, 0), ("w2", 2, 2), ("w3", 3, 1)]
    S.append(("bad-exec", 50, bad, False, "C C A.0.1.w1.0 S.1.1.w1 A.0.2.w3.0 A.1.2.w2.0 F.1 S.0.3.w3 S.0.4.w2 F.2".split()))
    # NO_AUTO_START while an activation is pending; unknown names; killed by a signal
    # held messages that cannot be delivered for reasons other than policy, each on its own: a unix fd for a service without fd
    # passing (NotSupported), a sender out of reply slots (LimitsExceeded); the others are delivered, RequestName succeeds
    S.append(("release-mixed", (50, 2), [("w1", 1, 1)], False,
              "CF C A.0.1.w1.8 A.0.2.w1.12 A.1.1.w1.8 A.0.3.w1.8 A.0.4.w1.0 A.0.9.w1.8 S.1.2.w1 K.0 R.2.1.1 A.0.5.w1.12 A.0.6.w1.8 D.2 A.0.7.w1.8".split()))
    S.append(("release-fd-ok", (50, 1), [("w1", 1, 1)], False, "CF CF A.0.1.w1.12 A.1.1.w1.4 A.0.2.w1.8 A.1.2.w1.14 KF.0 R.2.1.1 A.0.3.w1.4".split()))
    S.append(("release-fd-first", 50, [("w1", 1, 1)], False, "CF C A.0.1.w1.4 A.1.1.w1.0 S.1.2.w1 K.0 R.2.1.1 A.1.3.w1.0".split()))
    # directed signals auto-start too and are held and replayed like method calls
    S.append(("signals", 50, two, False, "C C B.0.1.w1.0 A.1.1.w1.0 B.0.2.w1.2 K.0 R.2.1.1 B.1.2.w1.0 B.0.3.w2.1 B.0.4.w4.0".split()))
    S.append(("misc", 50, two, False, "C A.0.1.w1.0 U.0.2.w1.0 A.0.3.w4.0 S.0.4.w4 A.0.5.u7.0 G.0 A.0.6.w1.0".split()))
    # timeouts: everybody waiting is told once; a process that connected but never took the name is killed
    S.append(("timeout", 50, two, True, "C C A.0.1.w1.0 S.1.1.w1 A.1.2.w2.0 K.0 R.2.1.2 T D.2 A.0.2.w1.0 S.1.3.w2".split()))
    S.append(("timeout-exit0", 50, two, True, "C A.0.1.w1.0 X.0.0 S.0.2.w1 T S.0.3.w1".split()))
    # a reload of the configuration (ReloadConfig; a .service file installed or removed) between the start and its resolution
    S.append(("reload-then-name", 50, two, False, "C C C A.0.1.w1.0 S.1.1.w1 A.0.2.w1.0 Z.2.1 A.1.2.w1.0 K.0 R.3.1.1 A.0.3.w1.0".split()))
    S.append(("reload-then-fail", 50, two, False, "C C A.0.1.w1.0 S.1.1.w1 Z.0.2 X.0.1 A.0.3.w1.0".split()))
    S.append(("reload-then-timeout", 50, two, True, "C C A.0.1.w1.0 S.1.1.w2 Z.1.2 T A.0.2.w1.0 S.1.3.w2".split()))
    S.append(("file-removed-while-pending", 50, two, False, "C C A.0.1.w1.0 S.1.1.w1 V.w2:2:1 A.1.2.w1.0 S.0.2.w1 K.0 R.2.1.1 A.0.3.w1.0 D.2 A.0.4.w1.0".split()))
    S.append(("file-added-while-pending", 50, [("w1", 1, 1)], False, "C C A.0.1.w1.0 A.1.1.w2.0 V.w1:1:1,w2:2:1 A.1.2.w2.0 A.0.2.w1.0 K.0 R.2.1.1 K.1 R.3.1.2".split()))
    S.append(("reload-twice", 50, same, False, "C C A.0.1.w1.0 A.1.1.w2.0 Z.0.2 V.w1:1:1 Z.1.2 K.1 R.2.1.2 X.0.2".split()))
    return S


def uniq_scenarios():
    """activatable *unique* names (finding F19.1): a service file may declare Name=:1.<n>"""
    S = []
    sv = [("u2", 7, 1), ("w1", 1, 1)]
    S.append(("uniq-start", 50, sv, True, "C C S.0.1.u2 A.1.1.u2.0 C A.1.2.u2.0 T S.0.2.u2".split()))
    S.append(("uniq-start-exit", 50, sv, False, "C C S.0.1.u2 C X.0.1".split()))
    return S
