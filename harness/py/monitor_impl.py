"""Implementation side of the monitor check (C18): replays a history of events (the text the extracted
model reads, see ml/monitor/driver.ml) against the real dbus-daemon with raw-wire clients and returns,
per step, what every connection read from its socket as canonical message tokens.

Synchronisation is by round trips only.  After every event each live ordinary client does a GetId round
trip (serial >= HIGH) to the driver: per-connection output of the bus is FIFO, so whatever the bus queued
for that client while processing the event has been read when the reply arrives.  Monitors cannot send;
the bus writes their copies to the socket while it executes the transaction, i.e. before it writes the
reply of the round trip that follows, so after the round trips a non-blocking read of the monitor sockets
returns everything of this step.  The harness's own round-trip traffic (serial or reply serial >= HIGH) is
removed from what monitors saw.  A disconnect is awaited through NameOwnerChanged at a separate observer
connection (ordinary client) or two observer round trips (monitor; closing is handled within one main-loop
iteration).  The observer is not part of the model: it only listens to NameOwnerChanged."""
import os, re, shutil, socket, sys, tempfile, time
sys.path.insert(0, os.path.dirname(os.path.abspath(__file__)))
import rawbus
from rawbus import Msg, METHOD_CALL, METHOD_RETURN, ERROR, SIGNAL, F_PATH, F_INTERFACE, F_MEMBER, F_ERROR_NAME, \
    F_REPLY_SERIAL, F_DESTINATION, F_SENDER, F_SIGNATURE

POLICY = """<policy context="default">
    <allow user="*"/>
    <allow send_destination="*" eavesdrop="true"/>
    <allow eavesdrop="true"/>
    <allow own="*"/>
    <deny send_interface="t.DenySend"/>
    <deny receive_interface="t.DenyRecv"/>
  </policy>"""

BUS = "org.freedesktop.DBus"
BUS_PATH = "/org/freedesktop/DBus"
ERRP = "org.freedesktop.DBus.Error."
HIGH = 1000000
TYPES = {"c": METHOD_CALL, "r": METHOD_RETURN, "e": ERROR, "s": SIGNAL}
TYPE_CH = {METHOD_CALL: "c", METHOD_RETURN: "r", ERROR: "e", SIGNAL: "s"}
IFACES = {1: BUS, 2: BUS + ".Peer", 3: BUS + ".Monitoring", 4: "t.DenySend", 5: "t.DenyRecv"}
MEMBERS = {1: "Hello", 2: "RequestName", 3: "ReleaseName", 4: "AddMatch", 5: "BecomeMonitor", 6: "GetId", 7: "NameOwnerChanged",
           8: "NameLost", 9: "NameAcquired", 10: "Ping", 11: "GetMachineId"}
ERRORS = {1: ERRP + "AccessDenied", 2: ERRP + "ServiceUnknown", 3: ERRP + "NameHasNoOwner", 4: ERRP + "NoReply",
          5: ERRP + "UnknownMethod", 6: ERRP + "UnknownInterface", 7: ERRP + "InvalidArgs", 8: ERRP + "MatchRuleInvalid"}
ACTIVATABLE = (4, 5)          # well-known names with a service file (Exec exits 0 without claiming the name: the activation stays pending)
UNPRIV_UID, UNPRIV_GID = 1, 1
INVALID_RULE = "type='signal',bogus_key='x'"
IFACE_CODE = {v: k for k, v in IFACES.items()}
MEMBER_CODE = {v: k for k, v in MEMBERS.items()}
ERROR_CODE = {v: k for k, v in ERRORS.items()}
TYPE_WORD = {"c": "method_call", "r": "method_return", "e": "error", "s": "signal"}


def iface_str(k):
    return IFACES.get(k, "t.I%d" % k)


def member_str(k):
    return MEMBERS.get(k, "M%d" % k)


def error_str(k):
    return ERRORS.get(k, "t.Error.E%d" % k)


def code_of(s, table, prefix):
    if s is None:
        return 0
    if s in table:
        return table[s]
    if s.startswith(prefix) and s[len(prefix):].isdigit():
        return int(s[len(prefix):])
    return 999999


def wk_name(k):
    return "t.N%d" % k


class World:
    """name <-> token mapping of one history"""

    def __init__(self):
        self.uniq = {}        # model id -> unique name
        self.by_unique = {}

    def name_str(self, tok):
        if tok == "d":
            return BUS
        if tok[0] == "u":
            return self.uniq.get(int(tok[1:]), ":1.999999")
        return wk_name(int(tok[1:]))

    def name_tok(self, s):
        if s is None:
            return "-"
        if s == BUS:
            return "d"
        if s in self.by_unique:
            return "u%d" % self.by_unique[s]
        if s.startswith("t.N") and s[3:].isdigit():
            return "n" + s[3:]
        return "?" + s

    def rule_text(self, ftok):
        if ftok == "!":
            return INVALID_RULE
        t, sd, d, i, m = ftok.split("/")
        parts = []
        if t != "-":
            parts.append("type='%s'" % TYPE_WORD[t])
        if sd != "-":
            parts.append("sender='%s'" % self.name_str(sd))
        if d != "-":
            parts.append("destination='%s'" % self.name_str(d))
        if i != "-":
            parts.append("interface='%s'" % iface_str(int(i)))
        if m != "-":
            parts.append("member='%s'" % member_str(int(m)))
        return ",".join(parts)

    def msg_token(self, m):
        """canonical token of a message read from a socket (same shape as ml/monitor/driver.ml show_msg)"""
        s = m.fields.get(F_SENDER)
        busmade = s is None or s == BUS
        sender = "x" if s is None else self.name_tok(s)
        args = "_"
        if busmade and m.mtype != ERROR and m.body:
            out = []
            for v in m.body:
                if isinstance(v, int):
                    out.append("#%d" % v)
                elif isinstance(v, str):
                    if v == "" or re.fullmatch(r"[0-9a-f]{32}", v):
                        out.append("e")
                    else:
                        out.append(self.name_tok(v))
                else:
                    out.append("?")
            args = ",".join(out)
        return "/".join([TYPE_CH.get(m.mtype, "t%d" % m.mtype), sender, self.name_tok(m.fields.get(F_DESTINATION)),
                         str(code_of(m.fields.get(F_INTERFACE), IFACE_CODE, "t.I")),
                         str(code_of(m.fields.get(F_MEMBER), MEMBER_CODE, "M")),
                         "0" if busmade else str(m.serial), str(m.fields.get(F_REPLY_SERIAL, 0)),
                         str(code_of(m.fields.get(F_ERROR_NAME), ERROR_CODE, "t.Error.E")),
                         str(m.flags & 3), args])


def is_harness_traffic(m):
    s = m.fields.get(F_SENDER)
    if s is not None and s != BUS and m.serial >= HIGH:
        return True
    return m.fields.get(F_REPLY_SERIAL, 0) >= HIGH


def socket_as(path, uid, gid):
    """connect to `path` from a forked child that first drops to (uid, gid); the connected socket comes back over a socketpair"""
    import array
    a, b = socket.socketpair(socket.AF_UNIX, socket.SOCK_STREAM)
    pid = os.fork()
    if pid == 0:
        try:
            a.close()
            os.setgroups([gid])
            os.setresgid(gid, gid, gid)
            os.setresuid(uid, uid, uid)
            s = socket.socket(socket.AF_UNIX, socket.SOCK_STREAM)
            s.connect(path)
            b.sendmsg([b"x"], [(socket.SOL_SOCKET, socket.SCM_RIGHTS, array.array("i", [s.fileno()]))])
        except BaseException as e:
            try:
                b.sendall(("E" + repr(e)).encode()[:200])
            except BaseException:
                pass
        finally:
            os._exit(0)
    b.close()
    a.settimeout(30)
    try:
        data, anc, _, _ = a.recvmsg(256, socket.CMSG_LEN(4))
    finally:
        os.waitpid(pid, 0)
        a.close()
    if not anc:
        raise IOError("could not connect as uid %d: %s" % (uid, data.decode("latin-1", "replace")))
    fd = array.array("i")
    fd.frombytes(anc[0][2][:4])
    return socket.socket(fileno=fd[0])


class UidConn(rawbus.RawConn):
    def __init__(self, path, uid, gid, timeout=5.0):
        self.sock = socket_as(path, uid, gid)
        self.sock.settimeout(timeout)
        self.buf = bytearray()
        self.fdq = []
        self.serial = 0
        self.unique = None
        self.inbox = []
        self.can_fds = False
        self.closed = False
        self.auth(uid, False)


class Bus:
    def __init__(self, exe):
        self.svc = tempfile.mkdtemp(prefix="verif_svc_")
        os.chmod(self.svc, 0o755)
        for k in ACTIVATABLE:
            with open(os.path.join(self.svc, wk_name(k) + ".service"), "w") as f:
                f.write("[D-BUS Service]\nName=%s\nExec=/bin/true\n" % wk_name(k))
        self.d = rawbus.Daemon(exe, policy=POLICY, servicedirs="<servicedir>%s</servicedir>" % self.svc,
                               limits='<limit name="service_start_timeout">3600000</limit>')
        os.chmod(self.d.dir, 0o755)
        self.obs = self.connect()
        self.obs.serial = HIGH
        self.obs.hello()
        r = self.obs.call("AddMatch", "s", ("type='signal',sender='org.freedesktop.DBus',member='NameOwnerChanged'",))
        if r is None or r.mtype != METHOD_RETURN:
            raise IOError("observer AddMatch failed: %r" % (r,))

    def connect(self, unpriv=False, **kw):
        t_end = time.time() + 10
        while True:
            try:
                if unpriv:
                    return UidConn(self.d.sock, UNPRIV_UID, UNPRIV_GID)
                return self.d.connect(**kw)
            except (ConnectionRefusedError, FileNotFoundError):
                if time.time() > t_end or not self.d.alive():
                    raise
                time.sleep(0.005)

    def wait_children(self, timeout=10.0):
        """a spawned activation helper (a fork of the daemon) keeps copies of every client socket until it exits, which delays
        the EOF a client closed by the bus reads: wait until the daemon has no live children"""
        pid = self.d.proc.pid
        path = "/proc/%d/task/%d/children" % (pid, pid)
        t_end = time.time() + timeout
        while True:
            try:
                kids = open(path).read().split()
            except OSError:
                return
            live = []
            for k in kids:
                try:
                    st = open("/proc/%s/stat" % k).read().rsplit(")", 1)[1].split()[0]
                except (OSError, IndexError):
                    continue
                if st != "Z":
                    live.append(k)
            if not live or time.time() > t_end:
                return
            time.sleep(0.002)

    def wait_gone(self, unique, timeout=10.0):
        t_end = time.time() + timeout
        while True:
            for i, m in enumerate(self.obs.inbox):
                if m.mtype == SIGNAL and m.fields.get(F_MEMBER) == "NameOwnerChanged" and m.body[0] == unique and m.body[2] == "":
                    return True
            if self.obs.closed or time.time() > t_end:
                return False
            self.obs._pump(0.5)

    def stop(self):
        try:
            self.obs.close()
        except Exception:
            pass
        shutil.rmtree(self.svc, ignore_errors=True)
        return self.d.stop()


def build_event_msg(w, f):
    """the message an event puts on the wire (None for C / D)"""
    k = f[0]
    if k == "S":
        _, c, ty, dst, i, mem, ser, rser, err, nr, na = f
        mt = TYPES[ty] if ty in TYPES else int(ty[1:])         # t<n>: a type byte the specification does not define
        fields = {}
        if mt in (METHOD_CALL, SIGNAL) or mt > 4:
            fields[F_PATH] = BUS_PATH if dst == "d" else "/t"
        if int(i):
            fields[F_INTERFACE] = iface_str(int(i))
        if int(mem):
            fields[F_MEMBER] = member_str(int(mem))
        if int(err):
            fields[F_ERROR_NAME] = error_str(int(err))
        if int(rser):
            fields[F_REPLY_SERIAL] = int(rser)
        if dst != "-":
            fields[F_DESTINATION] = w.name_str(dst)
        flags = (1 if nr == "1" else 0) | (2 if na == "1" else 0)
        return Msg(mt, flags, int(ser), fields, "s", ("payload-%s-%s" % (c, ser),))
    base = {F_PATH: BUS_PATH, F_INTERFACE: BUS, F_DESTINATION: BUS}
    if k == "R":
        base[F_MEMBER] = "RequestName"
        return Msg(METHOD_CALL, 0, int(f[2]), base, "su", (wk_name(int(f[3])), 4 if f[4] == "1" else 0))
    if k == "L":
        base[F_MEMBER] = "ReleaseName"
        return Msg(METHOD_CALL, 0, int(f[2]), base, "s", (wk_name(int(f[3])),))
    if k == "A":
        base[F_MEMBER] = "AddMatch"
        return Msg(METHOD_CALL, 0, int(f[2]), base, "s", (w.rule_text(f[3]),))
    if k == "G":
        base[F_MEMBER] = "GetId"
        return Msg(METHOD_CALL, 0, int(f[2]), base, "", ())
    if k == "B":
        base[F_MEMBER] = "BecomeMonitor"
        base[F_INTERFACE] = BUS + ".Monitoring"
        rules = [] if f[3] == "-" else [w.rule_text(x) for x in f[3].split(",")]
        flags = int(f[4]) if len(f) > 4 else 0
        if len(f) > 5 and f[5] == "0":
            return Msg(METHOD_CALL, 0, int(f[2]), base, "as", (rules,))        # not the signature the method wants
        return Msg(METHOD_CALL, 0, int(f[2]), base, "asu", (rules, flags))
    return None


def run_history(bus, events, probe_names=6):
    """returns dict(steps=[{conn: [token,...]}], closed=[set of conns that read EOF at that step], sent=[token|None],
    final=own string, intact_bad=[...], monitors=[set before step])"""
    w = World()
    conns = {}            # live connections (harness has not closed them and has not seen EOF)
    monitors = set()      # model ids that got the BecomeMonitor ack
    sent_payload = {}     # canonical token (true sender filled in) -> Msg as sent, to check that copies are intact; serials may be reused
                          # by a sender, and a held message is delivered long after it was sent, so (sender, serial) is not a key
    nextid = 0
    res = {"steps": [], "closed": [], "sent": [], "monitors": [], "intact_bad": [], "unique": w.uniq}
    obs_seen = []

    def drain_monitor(c):
        while True:
            n = len(c.inbox) + len(c.buf)
            if not c._pump(0):
                break
            if len(c.inbox) + len(c.buf) == n:
                break
        msgs, c.inbox = c.inbox, []
        return msgs

    def collect(actor_sent_on_monitor=None):
        out, closed = {}, set()
        for k in sorted(conns):
            if k in monitors:
                continue
            c = conns[k]
            r = None if c.closed else c.barrier()
            msgs, c.inbox = c.inbox, []
            if r is None:
                closed.add(k)
            out[k] = [m for m in msgs if not is_harness_traffic(m)]
        bus.obs.barrier()
        if actor_sent_on_monitor is not None:
            bus.obs.barrier()
        bus.wait_children()
        for k in sorted(conns):
            if k not in monitors:
                continue
            c = conns[k]
            msgs = drain_monitor(c)
            if c.closed:
                closed.add(k)
            out[k] = [m for m in msgs if not is_harness_traffic(m)]
        for k in closed:
            conns[k].close()
            del conns[k]
        step = {}
        for k, msgs in out.items():
            toks = []
            for m in msgs:
                toks.append(w.msg_token(m))
                s = m.fields.get(F_SENDER)
                if s in w.by_unique and toks[-1] in sent_payload:
                    o = sent_payload[toks[-1]]
                    of = dict(o.fields)
                    if o.sig:
                        of[F_SIGNATURE] = o.sig
                    gf = dict(m.fields)
                    gf.pop(F_SENDER, None)
                    if (o.mtype, o.flags, o.sig, tuple(o.body)) != (m.mtype, m.flags, m.sig, tuple(m.body)) or of != gf or m.extra:
                        res["intact_bad"].append((k, repr(o), repr(m)))
            if toks:
                step[k] = toks
        o_msgs, bus.obs.inbox = bus.obs.inbox, []
        obs_seen.append([w.msg_token(m) for m in o_msgs if not is_harness_traffic(m) and m.mtype == SIGNAL])
        return step, closed

    try:
        for tok in events:
            f = tok.split(".")
            res["monitors"].append(set(monitors))
            sent_tok = None
            if f[0] in ("C", "Cu"):
                c = bus.connect(unpriv=(f[0] == "Cu"))
                k = nextid
                nextid += 1
                hello = Msg(METHOD_CALL, 0, 1, {F_PATH: BUS_PATH, F_INTERFACE: BUS, F_MEMBER: "Hello", F_DESTINATION: BUS})
                c.send(hello)
                r = c.wait_reply(1)
                if r is None or r.mtype != METHOD_RETURN:
                    raise IOError("Hello failed: %r" % (r,))
                c.unique = r.body[0]
                c.inbox.insert(0, r)
                c.serial = HIGH
                conns[k] = c
                w.uniq[k] = c.unique
                w.by_unique[c.unique] = k
                sent_tok = "c/u%d/d/1/1/1/0/0/0/_" % k
                step, closed = collect()
            elif f[0] == "D":
                k = int(f[1])
                if k not in conns:
                    res["steps"].append(None)
                    res["closed"].append(set())
                    res["sent"].append(None)
                    obs_seen.append([])
                    continue
                conns[k].close()
                del conns[k]
                if k in monitors:
                    bus.obs.barrier()
                    bus.obs.barrier()
                elif not bus.wait_gone(w.uniq[k]):
                    raise IOError("bus did not notice the disconnect of %s" % w.uniq[k])
                step, closed = collect()
            else:
                k = int(f[1])
                if k not in conns:
                    res["steps"].append(None)
                    res["closed"].append(set())
                    res["sent"].append(None)
                    obs_seen.append([])
                    continue
                m = build_event_msg(w, f)
                c = conns[k]
                try:
                    c.send(m)
                except OSError:
                    pass
                m2 = Msg(m.mtype, m.flags, m.serial, dict(m.fields), m.sig, m.body)
                m2.fields[F_SENDER] = w.uniq[k]
                sent_tok = w.msg_token(m2)
                sent_payload[sent_tok] = m
                if f[0] == "B" and k not in monitors:
                    r = c.wait_reply(m.serial)
                    if r is not None:
                        c.inbox.insert(0, r)
                        if r.mtype == METHOD_RETURN:
                            monitors.add(k)
                step, closed = collect(actor_sent_on_monitor=k if k in monitors else None)
            res["steps"].append(step)
            res["closed"].append(closed)
            res["sent"].append(sent_tok)
        # final probe: who owns / waits for what, asked by the observer
        own = []
        for k in sorted(w.uniq):
            r = bus.obs.call("NameHasOwner", "s", (w.uniq[k],))
            if r is not None and r.mtype == METHOD_RETURN and r.body[0]:
                r2 = bus.obs.call("GetNameOwner", "s", (w.uniq[k],))
                own.append("u%d@%s" % (k, w.name_tok(r2.body[0])[1:] if r2 is not None and r2.mtype == METHOD_RETURN else "?"))
        for n in range(probe_names):
            r = bus.obs.call("ListQueuedOwners", "s", (wk_name(n),))
            if r is not None and r.mtype == METHOD_RETURN:
                own.append("n%d@%s" % (n, ">".join(w.name_tok(x)[1:] for x in r.body[0])))
        res["final"] = ",".join(own)
        res["obs"] = obs_seen
    finally:
        for k in sorted(conns):
            conns[k].close()
        for k in sorted(conns):
            if k not in monitors:
                bus.wait_gone(w.uniq[k], timeout=5.0)
        bus.obs.barrier()
        bus.obs.barrier()
        bus.obs.inbox = []
    return res


def run_chunk(args):
    """worker entry: (exe, [(idx, events)]) -> ([(idx, result|None, notes)], (rc, stderr))"""
    exe, hists = args
    bus = Bus(exe)
    out = []
    try:
        for idx, events in hists:
            try:
                out.append((idx, run_history(bus, events), {}))
            except Exception as e:
                alive = bus.d.alive()
                rc, err = bus.stop()
                out.append((idx, None, {"exception": repr(e), "daemon_alive": alive, "rc": rc, "stderr": err[-3000:]}))
                bus = Bus(exe)
    finally:
        rc, err = bus.stop()
    return out, (rc, err[-4000:])
