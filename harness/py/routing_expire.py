"""Correspondence for the expiry machinery (Routing/Expire.v  <->  bus/expirelist.c + check_timeout/_dbus_loop_iterate of
dbus/dbus-mainloop.c, driven on explicit clock readings by harness/c/routing_h.c).  Cases are `exp <after> <op>*` lines
(grammar in harness/c/routing_h.c); both sides print one token per op and must agree token by token.  spec_check() is a
model-independent reading of the property on the implementation's output."""
import os, sys
sys.path.insert(0, os.path.join(os.path.dirname(os.path.abspath(__file__)), "..", "..", "tools"))
import vlib

M = 1000000


def norm(us):
    return us // M, us % M


def gen_case(rnd):
    after = rnd.choice((300, 300, 300, 300, 1, 2, 7, 1000, 1500, -1, 0, 3600001, 10000000))
    a_us = max(after, 1) * 1000
    # usec part such that last_usec + (interval % 1000) * 1000 lands exactly on / next to the carry in check_timeout
    edge = (M - (max(after, 0) % 1000) * 1000) % M
    t = rnd.choice((10, 999, 1700000000, 2147483)) * M + rnd.choice((0, 0, 1, 999, 500000, 999000, 999999, edge, edge, max(0, edge - 1), min(M - 1, edge + 1)))
    steps = [0, 0, 1, 999, 1000, 1001, 50000, a_us // 2, a_us - 1001, a_us - 1000, a_us - 999, a_us - 1, a_us, a_us + 1, a_us + 999, a_us + 1000,
             999999, M, M + 1, M - (t % M), M - (t % M) - 1, 3 * M + 500000]
    back = [1, 999, 1000, 1001, 1999, 5 * M, 3000 * M]
    ops, live, nid = [], [], 0
    for _ in range(rnd.randint(4, 26)):
        if rnd.random() < 0.05:
            t = max(M, t - rnd.choice(back))
        else:
            t += max(0, rnd.choice(steps)) if rnd.random() < 0.7 else 0
        k = rnd.random()
        if k < 0.3 or not live and k < 0.5:
            nid += 1
            added = t if rnd.random() < 0.9 else max(1, t - rnd.choice((1, 1000, a_us - 1, a_us, a_us + 1)))
            if rnd.random() < 0.01:
                added = 0
            ops.append("A.%d.%d.%d" % ((nid,) + norm(added)))
            live.append(nid)
        elif k < 0.78:
            t2 = t + rnd.choice((0, 0, 1, 999, 1000, a_us - 1000, a_us - 999, a_us - 500, a_us - 1, a_us, 150000))
            t2 = max(t, t2)
            t3 = t2 + rnd.choice((0, 0, 1, 40, 999, 1000))
            ops.append("I.%d.%d.%d.%d.%d.%d" % (norm(t) + norm(t2) + norm(t3)))
            t = t3
        elif k < 0.89 and live:
            i = rnd.choice(live)
            live.remove(i)
            ops.append("R.%d" % i)
        elif live:
            ops.append("K.%d" % rnd.choice(live))
        else:
            ops.append("I.%d.%d.%d.%d.%d.%d" % (norm(t) * 3))
    return "exp %d %s" % (after, " ".join(ops))


DIRECTED = [
    # arm on first add, interval = timeout, second entry does not re-arm, partial expiry, re-arm with the remainder
    "exp 300 A.1.10.0 I.10.0.10.0.10.0 I.10.0.10.0.10.0 A.2.10.150000 I.10.150000.10.299999.10.299999 I.10.299999.10.300000.10.300000 I.10.300000.10.300000.10.300000 I.10.300000.10.450000.10.450000",
    # deadline to the microsecond
    "exp 300 A.1.10.1 I.10.1.10.1.10.1 I.10.1.10.1.10.1 I.10.1.10.300000.10.300000 I.10.300000.10.300001.10.300000 I.10.300001.10.300001.10.300001",
    # callee left: immediate recheck, infinite timeout keeps the rest, timer goes off again
    "exp -1 A.1.10.0 A.2.10.0 I.10.0.10.0.10.0 I.20.0.20.0.20.0 K.1 I.20.0.20.0.20.0 I.20.0.20.0.20.0 R.2 I.20.0.20.0.20.0",
    # usec carry in check_timeout: last 10.999000 + 1500 ms = 12.499000
    "exp 1500 A.1.10.999000 I.10.999000.10.999000.10.999000 I.10.999000.10.999000.10.999000 I.11.0.12.498000.12.498000 I.12.498000.12.498999.12.498999 I.12.498999.12.499000.12.499000",
    "exp 7 A.1.10.995000 I.10.995000.10.995000.10.995000 I.10.995000.10.995000.10.995000 I.10.995000.11.1000.11.1000 I.11.1000.11.1999.11.2000 I.11.2000.11.2000.11.2000",
    # last_usec + (interval % 1000) * 1000 == 1000000 exactly, asked 500 us before the instant
    "exp 5 A.1.10.995000 I.10.995000.10.995000.10.995000 I.10.995000.10.999500.10.999500 I.10.999500.10.999999.10.999999 I.11.0.11.0.11.0",
    "exp 1001 A.1.10.999000 I.10.999000.10.999000.10.999000 I.10.999000.11.999001.11.999001 I.11.999001.11.999999.11.999999 I.12.0.12.0.12.0",
    # clock set backwards by 5 s while an entry waits, then forwards again
    "exp 300 A.1.100.0 I.100.0.100.0.100.0 I.100.0.100.0.100.0 I.95.0.95.0.95.0 I.95.0.95.299000.95.299000 I.95.299000.95.300000.95.300000 I.100.300000.100.300000.100.300000",
    # one-hour cap of the interval
    "exp 10000000 A.1.10.0 I.10.0.10.0.10.0 I.10.0.10.0.10.0 I.3610.0.3610.0.3610.0 I.3610.0.3610.0.3610.0",
    # remove everything while armed: the next firing disables the timer; re-add re-arms
    "exp 300 A.1.10.0 I.10.0.10.0.10.0 R.1 I.10.0.10.300000.10.300000 I.10.300000.10.300000.10.300000 A.2.11.0 I.11.0.11.0.11.0",
]


def spec_check(line, toks):
    """what the property says about the implementation's own output; returns a text or None"""
    f = line.split()
    after = int(f[1])
    items = {}
    for op, tok in zip(f[2:], toks):
        p = op.split(".")
        try:
            ex, flags, iv, last, n = tok.split("/")
            ex = [] if ex == "-" else [int(x) for x in ex.split(",")]
            iv = int(iv)
        except ValueError:
            return "unparsable output %r for %s" % (tok, op)
        if p[0] == "A":
            items[int(p[1])] = int(p[2]) * M + int(p[3])
        elif p[0] == "R":
            items.pop(int(p[1]), None)
        elif p[0] == "K":
            if int(p[1]) in items:
                items[int(p[1])] = 0
        elif p[0] == "I":
            t3 = int(p[5]) * M + int(p[6])
            for i in ex:
                if i not in items:
                    return "%s: entry %d expires although it is not (or no longer) in the list" % (op, i)
                a = items.pop(i)
                if a != 0 and not (after > 0 and t3 - a >= after * 1000):
                    return "%s: entry %d expires %d us after it was added, reply_timeout is %d ms" % (op, i, t3 - a, after)
            if p[0] == "I" and flags == "11" and after > 0 and items:       # the handler ran at t3 and re-armed
                for i, a in items.items():
                    if a == 0 or t3 - a >= after * 1000:
                        return "%s: entry %d is due at the walk but was not expired" % (op, i)
                    if iv * 1000 > a + after * 1000 - t3:
                        return "%s: timer re-armed with %d ms, entry %d is due in %d us" % (op, iv, i, a + after * 1000 - t3)
        if p[0] != "I" and ex:
            return "%s: expiry outside a loop iteration" % op
        if after > 0 and items and flags[0] != "1":
            return "%s: entries are waiting (finite timeout) but the expiry timer is disabled" % op
        if int(n) != len(items):
            return "%s: list holds %s entries, expected %d" % (op, n, len(items))
    return None


def run_expire_check(ctx, prop_id, n_random, only=None):
    """returns coverage dict; records violations in ctx['rep']"""
    import random
    rep, info = ctx["rep"], ctx["info"]
    rnd = random.Random(ctx["seed"] + 4242)
    lines = (list(DIRECTED) + [gen_case(rnd) for _ in range(n_random)]) if only is None else [only]
    model, mcr = vlib.run_lines(info["model_routing"], lines)
    impl, icr = vlib.run_lines(info["routing_h"], lines)
    for line, err in icr:
        rep.violation("routing_h (expirelist.c / dbus-mainloop.c under ASan) crashed on `%s`: %s" % (line[:300], err[-600:]), {"input": line, "stderr": err})
    for line, err in mcr:
        rep.violation("extracted expiry model failed on `%s`: %s" % (line[:300], err[-300:]), {"input": line, "names": "model driver"}, found_input=False)
    ops = fired = expired = dis = 0
    for line, m, i in zip(lines, model, impl):
        if i == "!CRASH" or m == "!CRASH" or m.startswith("?"):
            continue
        mt, it = m.split(), i.split()
        ops += len(it)
        expired += sum(0 if t.split("/")[0] == "-" else len(t.split("/")[0].split(",")) for t in it)
        fired += sum(1 for o, t in zip(line.split()[2:], it) if o[0] == "I" and (t.split("/")[0] != "-" or t.split("/")[1] == "11"))
        why = spec_check(line, it)
        if mt != it:
            dis += 1
            k = next(j for j in range(max(len(mt), len(it))) if j >= len(mt) or j >= len(it) or mt[j] != it[j])
            replay = {"line": line, "impl": i, "model": m, "op": k, "how": "echo '<line>' | build/routing_h   and   | build/ml/routing/model"}
            if why:
                rep.violation("expiry machinery: %s (op %d of `%s`; implementation `%s`, model `%s`)" % (why, k, line[:200], it[k] if k < len(it) else "?", mt[k] if k < len(mt) else "?"), replay)
            else:
                rep.violation("expirelist.c / check_timeout and Routing/Expire.v differ at op %d `%s`: implementation `%s`, model `%s`; the %s reading of the output "
                              "is still satisfied" % (k, line.split()[2 + k] if 2 + k < len(line.split()) else "?", it[k] if k < len(it) else "?", mt[k] if k < len(mt) else "?", prop_id),
                              dict(replay, names="correspondence harness/c/routing_h.c vs Routing.Expire.xstep (extracted)"), found_input=False)
        elif why:
            rep.violation("expiry machinery: model and implementation agree but %s (`%s`)" % (why, line[:200]), {"line": line, "impl": i})
    return {"expiry_cases": len(lines), "expiry_ops": ops, "expiry_timer_firings": fired, "expiry_entries_expired": expired, "expiry_disagreements": dis}
