import sys, os, time, socket
sys.path.insert(0, '/verif/harness/py'); sys.path.insert(0,'/verif/tools')
from rawbus import Daemon, Msg, RawConn
import vlib
exe = "/verif/build/dbus/bin/dbus-daemon"
d = Daemon(exe, limits='<limit name="max_incoming_bytes">5000</limit>')
try:
    b = RawConn(d.address); b.hello()
    f = RawConn(d.address); f.hello()      # filler
    a = RawConn(d.address); a.hello()
    # fill B's socket so that the bus has to queue for B: f sends many 4000-byte signals to B (each below the limit)
    big = lambda s, n, dest: Msg(4, 0, s, {1: "/t", 2: "t.I", 3: "Fill", 6: dest}, "ay", (bytes(n),)).encode()
    sent = 0
    f.sock.settimeout(0.5)
    try:
        for i in range(400):
            f.send_raw(big(100 + i, 4000, b.unique)); sent += 1
            if i % 20 == 19: f.barrier(timeout=2.0)
    except Exception as e:
        print("filler stopped after", sent, repr(e))
    print("filler sent", sent)
    # now A: two 3000-byte messages to B and a Ping to the bus, in ONE write
    m1 = big(2, 2900, b.unique); m2 = big(3, 2900, b.unique)
    ping = Msg(1, 0, 4, {1: "/org/freedesktop/DBus", 2: "org.freedesktop.DBus", 3: "GetId", 6: "org.freedesktop.DBus"}).encode()
    a.send_raw(m1 + m2 + ping)
    time.sleep(0.5)
    r = a.wait_reply(4, timeout=1.0)
    print("reply to A's GetId before B drains:", r is not None)
    # B drains everything
    got = b.drain(quiet=0.3, maxwait=10.0)
    print("B drained", len(got), "messages; from A:", sum(1 for m in got if m.serial in (2, 3) and m.fields.get(3) == "Fill"))
    r = a.wait_reply(4, timeout=3.0)
    print("reply to A's GetId after B drained (no further bytes from A):", r is not None)
    if r is None:
        a.send_raw(Msg(1, 0, 5, {1: "/org/freedesktop/DBus", 2: "org.freedesktop.DBus", 3: "GetId", 6: "org.freedesktop.DBus"}).encode())
        r4 = a.wait_reply(4, timeout=3.0); r5 = a.wait_reply(5, timeout=3.0)
        print("after A writes one more call: reply 4:", r4 is not None, "reply 5:", r5 is not None)
finally:
    print(d.stop()[0])
