"""Comparison and specification oracle for the C03 check.

compare(case, model_tokens, impl)  -> list of disagreements between the extracted model and what the
                                      daemon did (per event; bytes for forwarded messages, decoded
                                      skeleton for bus-originated ones)
oracle(case, impl)                 -> (violations, known-finding hits, statistics): the property itself,
                                      evaluated on the daemon's observed behaviour only, with an
                                      independent decoder (rawbus.parse_message)"""
import os, sys
sys.path.insert(0, os.path.dirname(os.path.abspath(__file__)))
import rawbus
from rawbus import METHOD_CALL, METHOD_RETURN, ERROR, SIGNAL, F_PATH, F_INTERFACE, F_MEMBER, F_ERROR_NAME, \
    F_REPLY_SERIAL, F_DESTINATION, F_SENDER, F_SIGNATURE
from stamp_run import GEN_LO, GEN_HI, HIGH

BUS = "org.freedesktop.DBus"
PEER = "org.freedesktop.DBus.Peer"
NOT_ACTIVE = ":not.active.yet"
F_CONTAINER = 10
DRIVER_SIGNALS = ("NameOwnerChanged", "NameLost", "NameAcquired")


def parse(hx):
    m, n = rawbus.parse_message(bytes.fromhex(hx))
    if m is None or n != len(hx) // 2:
        raise ValueError("observed bytes are not one complete message: " + hx[:80])
    return m


def sent_of(ev):
    """(client, Msg) of an S event"""
    if ev[0] != "S":
        return None, None
    _, c, hx = ev.split(".")
    m, _ = rawbus.parse_message(bytes.fromhex(hx))
    return int(c), m


def canon_bus(m):
    """bus-originated message without what is not modelled: its serial and the text of an error"""
    f = dict(m.fields)
    body = tuple(m.body)
    if m.mtype == ERROR or F_SENDER not in f:      # also the machine id in libdbus' own GetMachineId reply
        f.pop(F_SIGNATURE, None)
        body = None
    return (m.le, m.mtype, m.flags, tuple(sorted(f.items())), repr(m.extra), repr(body))


def parse_items(tok):
    """model token of one event -> list of items"""
    if tok in ("-", "!", "x") or tok.startswith("F.") or tok.startswith("?"):
        return []
    out = []
    for it in tok.split("+"):
        k = it[0]
        if k in "cg":
            out.append((k, int(it[1:])))
        elif k == "i":
            c, nm = it[1:].split(":")
            out.append(("i", int(c), bytes.fromhex(nm).decode()))
        else:
            parts = it[1:].split("/")
            out.append(("e", parts[0], parts[1], parts[2], parts[3] if len(parts) > 3 else None))
    return out


class World:
    """who is registered (from the model's tokens) and who is a monitor (from the daemon's reply)"""

    def __init__(self):
        self.names = {}
        self.monitors = set()
        self.live = set()
        self.obs_ready = False


def abstract_ok(o, rcv, c, sent, world, becoming):
    """a bus-originated message the model leaves to its `driver` / `on_disconnect` parameters"""
    if o.fields.get(F_SENDER) != BUS:
        return False
    if o.mtype == ERROR and sent is None and o.fields.get(F_ERROR_NAME) == "org.freedesktop.DBus.Error.NoReply":
        return True       # a disconnect cancels the calls the connection had not answered
    if o.mtype in (METHOD_RETURN, ERROR):
        return sent is not None and o.fields.get(F_REPLY_SERIAL) == sent.serial and (rcv == c or rcv in world.monitors)
    if o.mtype == SIGNAL and o.fields.get(F_INTERFACE) == BUS and o.fields.get(F_MEMBER) in DRIVER_SIGNALS and o.body:
        n = o.body[0]
        return not n.startswith(":") or n in becoming
    return False


def compare(case, toks, impl):
    """returns list of (event index, text)"""
    name, maxc, events = case[:3]
    res, probe = impl[0], impl[1]
    diffs = []
    w = World()
    for k, ev in enumerate(events):
        if k >= len(res) or k >= len(toks):
            diffs.append((k, "run stopped early (model %d tokens, implementation %d results)" % (len(toks), len(res))))
            break
        tok, r = toks[k], res[k]
        if tok.startswith("?") or tok.startswith("F.") or tok == "x":
            diffs.append((k, "model cannot run this event: " + tok))
            break
        if (tok == "!") != bool(r.get("ill")):
            diffs.append((k, "ill-formed event: model %s, implementation %s" % (tok, r)))
            break
        if tok == "!":
            continue
        items = parse_items(tok)
        c, sent = (None, None)
        if ev[0] == "S":
            c, sent = sent_of(ev)
        elif ev[0] == "D":
            c = int(ev[2:])
        # connections the bus closed
        gone_model = sorted(x[1] for x in items if x[0] == "g" and not (ev[0] == "D" and x[1] == c))
        if gone_model != r["closed"]:
            diffs.append((k, "closed connections: model %s, implementation %s" % (gone_model, r["closed"])))
        becoming = set()
        if sent is not None and sent.fields.get(F_MEMBER) == "BecomeMonitor" and c in w.names:
            becoming.add(w.names[c])
        for x in items:
            if x[0] == "i":
                w.names[x[1]] = x[2]
            elif x[0] == "c":
                w.live.add(x[1])
        # expectations
        exps = []
        for x in items:
            if x[0] != "e":
                continue
            _, o, s, hx, alt = x
            pm = parse(hx)
            mons = set(w.monitors)
            if o[0] == "c":
                key = ("bytes", hx, alt)
                if s[0] == "m":
                    must, may = mons, set()
                elif s[0] == "x":
                    must, may = set(), set(w.live) - mons
                elif s[0] == "k":
                    # a kept message, dispatched because this step's RequestName gave the name an owner
                    must, may = ({c} if c in w.live else set()), set(w.live) - mons
                else:
                    must, may = set(mons), None
                    d = pm.fields.get(F_DESTINATION)
                    addr = s.split(":")[1] if ":" in s else "?"
                    if pm.mtype in (METHOD_CALL, SIGNAL) and addr not in ("?", "-"):
                        if int(addr) in w.live and int(addr) not in w.monitors:
                            must.add(int(addr))                 # the addressee the model's registry resolves the ':' name to
                    if d is None and pm.mtype == SIGNAL and w.obs_ready and int(o[1:]) != 0:
                        must.add(0)
            else:
                key = ("canon", canon_bus(pm))
                if s[0] == "t":
                    must, may = {int(s[1:])} | mons, set()
                elif s[0] == "s":
                    must, may = {int(s[1:])}, set()
                elif s[0] == "m":
                    must, may = mons, set()
                else:
                    must, may = ({0} if w.obs_ready else set()) | mons, None
            exps.append({"key": key, "must": must, "may": may, "seen": set(), "what": "%s/%s %r" % (o, s, pm)})
        n_abs = 0
        for rcv, hxs in sorted(r["recv"].items()):
            last = -1
            for hx in hxs:
                o = parse(hx)
                hit = None
                for i, e in enumerate(exps):
                    if rcv in e["seen"] or not (rcv in e["must"] or e["may"] is None or rcv in e["may"]):
                        continue
                    if (e["key"][0] == "bytes" and hx in e["key"][1:]) or e["key"] == ("canon", canon_bus(o)):
                        hit = i
                        break
                if hit is None:
                    if abstract_ok(o, rcv, c, sent, w, becoming):
                        n_abs += 1
                        continue
                    diffs.append((k, "client %d received a message the model does not predict: %r" % (rcv, o)))
                    continue
                exps[hit]["seen"].add(rcv)
                if hit < last:
                    diffs.append((k, "client %d received %s out of the model's order" % (rcv, exps[hit]["what"])))
                last = max(last, hit)
        for e in exps:
            miss = e["must"] - e["seen"]
            if miss:
                diffs.append((k, "model emission %s did not reach client(s) %s" % (e["what"], sorted(miss))))
        # world update after the event
        for x in items:
            if x[0] == "g":
                w.live.discard(x[1])
                w.names.pop(x[1], None)
                w.monitors.discard(x[1])
        if ev[0] == "D":
            w.live.discard(c)
            w.names.pop(c, None)
            w.monitors.discard(c)
        if sent is not None and sent.fields.get(F_DESTINATION) == BUS and c in w.names:
            for hx in r["recv"].get(c, []):
                o = parse(hx)
                if o.mtype == METHOD_RETURN and o.fields.get(F_REPLY_SERIAL) == sent.serial and o.fields.get(F_SENDER) == BUS:
                    if sent.fields.get(F_MEMBER) == "BecomeMonitor":
                        w.monitors.add(c)
                    if sent.fields.get(F_MEMBER) == "AddMatch" and c == 0:
                        w.obs_ready = True
    else:
        if probe is not None:
            want = sorted(n for cc, n in w.names.items() if cc in w.live and cc not in w.monitors)
            if probe["list"] != want:
                diffs.append((len(events), "ListNames: unique names %s, model has %s" % (probe["list"], want)))
    return diffs


def oracle(case, impl):
    """The property, on the implementation's behaviour alone.
    returns (violations [(event index, text)], known [(finding id, sample)], stats dict)"""
    name, maxc, events = case[:3]
    acts = dict(case[3]) if len(case) > 3 else {}
    res, probe = impl[0], impl[1]
    viol, known = [], []
    written = {}        # serial -> (client, message, the name the bus had given that client) for messages that may be kept
    eavesdroppers = set()   # clients that asked for an eavesdropping match rule
    st = {"forwarded_copies": 0, "bus_originated": 0, "forged_sender_dropped": 0, "unknown_fields_dropped": 0, "container_dropped": 0,
          "names_issued": 0, "closed_by_bus": 0, "local_replies": 0, "monitor_copies": 0, "placeholder_copies": 0, "second_hello_refused": 0, "monitor_hello_copies": 0, "kept_then_released": 0, "start_failures_reported": 0, "colon_name_requests": 0, "to_unique_name_delivered": 0,
          "copies_be": 0}
    names = {}          # live client -> unique name the implementation gave it (Hello reply)
    issued = []         # every name ever given out, in order
    monitors = set()
    for k, ev in enumerate(events):
        if k >= len(res):
            break
        r = res[k]
        if r.get("ill"):
            continue
        c, sent = (None, None)
        if ev[0] == "S":
            c, sent = sent_of(ev)
        elif ev[0] == "D":
            c = int(ev[2:])
            names.pop(c, None)
            monitors.discard(c)
        st["closed_by_bus"] += len(r["closed"])
        if sent is not None and sent.fields.get(F_DESTINATION) == BUS and sent.mtype == METHOD_CALL and c in names and sent.body and isinstance(sent.body[0], str):
            mem, arg = sent.fields.get(F_MEMBER), sent.body[0]
            if mem == "AddMatch" and "eavesdrop" in arg:
                eavesdroppers.add(c)
            if arg.startswith(":") and mem in ("RequestName", "ReleaseName", "GetNameOwner", "ListQueuedOwners") and \
                    sent.fields.get(F_INTERFACE, BUS) == BUS and sent.sig == ("su" if mem == "RequestName" else "s"):
                holder = [cc for cc, nn in names.items() if nn == arg and cc not in monitors]
                for hx in r["recv"].get(c, []):
                    o = parse(hx)
                    if o.fields.get(F_REPLY_SERIAL) != sent.serial or o.fields.get(F_SENDER) != BUS:
                        continue
                    st["colon_name_requests"] += 1
                    if mem in ("RequestName", "ReleaseName") and o.mtype == METHOD_RETURN:
                        viol.append((k, "%s(%s) by %s was not refused (reply %r): only Hello may make a connection an owner or queued owner of a name beginning with ':'" % (mem, arg, names[c], o.body)))
                    if mem == "GetNameOwner" and o.mtype == METHOD_RETURN and (o.body[0] != arg or not holder):
                        viol.append((k, "GetNameOwner(%s) = %r, but the connections Hello named so: %s" % (arg, o.body[0], holder)))
                    if mem == "ListQueuedOwners" and o.mtype == METHOD_RETURN and (list(o.body[0]) != [arg] or not holder):
                        viol.append((k, "ListQueuedOwners(%s) = %r, but the connections Hello named so: %s" % (arg, list(o.body[0]), holder)))
                    if mem in ("GetNameOwner", "ListQueuedOwners") and o.mtype == ERROR and holder:
                        viol.append((k, "%s(%s) fails although connection %s holds that name" % (mem, arg, holder)))
        if sent is not None and sent.fields.get(F_DESTINATION) in acts and c in names:
            written[sent.serial] = (c, sent, names[c])
        new_name = None
        if sent is not None and sent.fields.get(F_MEMBER) == "Hello" and sent.fields.get(F_DESTINATION) == BUS and sent.mtype == METHOD_CALL:
            # the name the bus hands out in this step, as told to the client itself
            for hx in r["recv"].get(c, []):
                o = parse(hx)
                if o.mtype == METHOD_RETURN and o.fields.get(F_SENDER) == BUS and o.fields.get(F_REPLY_SERIAL) == sent.serial and o.sig == "s":
                    new_name = o.body[0]
        for rcv, hxs in sorted(r["recv"].items()):
            for hx in hxs:
                o = parse(hx)
                snd = o.fields.get(F_SENDER)
                bad_extra = [code for code, _ in o.extra]
                if bad_extra:
                    viol.append((k, "client %d received header field(s) %s that are unknown or duplicated: %r" % (rcv, bad_extra, o)))
                if F_CONTAINER in o.fields:
                    viol.append((k, "client %d received a CONTAINER_INSTANCE field: %r" % (rcv, o)))
                if GEN_LO <= o.serial < GEN_HI:
                    # a forwarded copy of what a client wrote: only this event's message can be in flight
                    if sent is None or o.serial != sent.serial:
                        # only a message the bus kept for a service being started may arrive later; it must
                        # still name the connection that wrote it, by the name it had then, and be intact
                        if o.serial not in written:
                            viol.append((k, "client %d received a message with a client serial that was not just sent: %r" % (rcv, o)))
                            continue
                        wc, wm, wn = written[o.serial]
                        st["kept_then_released"] += 1
                        if snd != wn:
                            viol.append((k, "client %d received a kept message written by %s with sender %r: %r" % (rcv, wn, snd, o)))
                        sf = {code: v for code, v in wm.fields.items() if code not in (F_SENDER, F_CONTAINER)}
                        of = {code: v for code, v in o.fields.items() if code != F_SENDER}
                        if (o.mtype, o.flags, o.serial, o.sig, tuple(o.body)) != (wm.mtype, wm.flags, wm.serial, wm.sig, tuple(wm.body)) or sf != of:
                            viol.append((k, "client %d received an altered copy of a kept message: written %r, received %r" % (rcv, wm, o)))
                        continue
                    st["forwarded_copies"] += 1
                    st["copies_be"] += 0 if o.le else 1
                    dd = o.fields.get(F_DESTINATION)
                    if dd is not None and dd.startswith(":") and rcv not in monitors and rcv not in eavesdroppers:
                        # addressed to a unique name: only the connection Hello gave that name to may get it
                        st["to_unique_name_delivered"] += 1
                        if names.get(rcv) != dd:
                            viol.append((k, "a message addressed to %s was delivered to client %d, which Hello named %s: %r" % (dd, rcv, names.get(rcv), o)))
                    if rcv in monitors:
                        st["monitor_copies"] += 1
                    true_name = names.get(c)
                    if true_name is None:
                        if rcv in monitors and snd == NOT_ACTIVE and new_name is None:
                            st["placeholder_copies"] += 1
                        elif new_name is not None and snd == new_name:
                            st["monitor_hello_copies"] += 1     # the Hello itself, seen with the name it was answered with
                        else:
                            viol.append((k, "client %d received a message from unregistered client %d with sender %r: %r" % (rcv, c, snd, o)))
                    elif snd != true_name:
                        viol.append((k, "client %d received a message written by %s with sender %r: %r" % (rcv, true_name, snd, o)))
                    sf = {code: v for code, v in sent.fields.items() if code not in (F_SENDER, F_CONTAINER)}
                    of = {code: v for code, v in o.fields.items() if code != F_SENDER}
                    if (o.mtype, o.flags, o.serial, o.sig, tuple(o.body)) != (sent.mtype, sent.flags, sent.serial, sent.sig, tuple(sent.body)) or sf != of:
                        viol.append((k, "client %d received an altered copy: sent %r, received %r" % (rcv, sent, o)))
                    if F_SENDER in sent.fields:
                        st["forged_sender_dropped"] += 1
                    if sent.extra:
                        st["unknown_fields_dropped"] += 1
                    if F_CONTAINER in sent.fields:
                        st["container_dropped"] += 1
                else:
                    st["bus_originated"] += 1
                    if snd is None:
                        st["local_replies"] += 1
                        f13 = sent is not None and rcv == c and F_DESTINATION not in sent.fields and \
                            (sent.mtype == METHOD_CALL or sent.fields.get(F_INTERFACE) == PEER) and \
                            o.mtype in (METHOD_RETURN, ERROR) and o.fields.get(F_REPLY_SERIAL) == sent.serial
                        if f13:
                            known.append(("F13", {"case": name, "event": k, "sent": repr(sent), "received": repr(o)}))
                        else:
                            viol.append((k, "client %d received a message without SENDER outside the recorded class: %r" % (rcv, o)))
                    elif snd != BUS:
                        viol.append((k, "client %d received a bus-originated message (serial %d) with sender %r: %r" % (rcv, o.serial, snd, o)))
                    if o.mtype == ERROR and o.fields.get(F_ERROR_NAME, "").startswith("org.freedesktop.DBus.Error.Spawn."):
                        st["start_failures_reported"] += 1
                    # names the bus hands out
                    if sent is not None and rcv == c and o.mtype == METHOD_RETURN and snd == BUS and o.fields.get(F_REPLY_SERIAL) == sent.serial and \
                            sent.fields.get(F_MEMBER) == "BecomeMonitor" and sent.fields.get(F_DESTINATION) == BUS:
                        monitors.add(c)
                    if sent is not None and rcv == c and o.mtype == ERROR and snd == BUS and sent.fields.get(F_MEMBER) == "Hello" and c in names and \
                            o.fields.get(F_REPLY_SERIAL) == sent.serial:
                        st["second_hello_refused"] += 1
                    if o.mtype == SIGNAL and snd == BUS and o.fields.get(F_MEMBER) == "NameAcquired" and o.body and o.body[0].startswith(":"):
                        if new_name != o.body[0] or (rcv != c and rcv not in monitors):
                            viol.append((k, "NameAcquired for %s does not belong to a Hello of its receiver: %r" % (o.body[0], o)))
                    if o.mtype == SIGNAL and snd == BUS and o.fields.get(F_MEMBER) == "NameOwnerChanged" and len(o.body) == 3 and o.body[0].startswith(":"):
                        n, old, new = o.body
                        if not ((old == "" and new == n) or (old == n and new == "")):
                            viol.append((k, "NameOwnerChanged for a unique name changes hands: %r" % (o,)))
                        if new == n and n in issued and n != new_name:
                            viol.append((k, "unique name %s appears again: %r" % (n, o)))
        for cc in r["closed"]:
            names.pop(cc, None)
            monitors.discard(cc)
        if new_name is not None:
            st["names_issued"] += 1
            if c in names:
                viol.append((k, "client %d was given a second unique name %s (it already is %s)" % (c, new_name, names[c])))
            if not new_name.startswith(":"):
                viol.append((k, "unique name %r does not begin with ':'" % new_name))
            if new_name in issued:
                viol.append((k, "unique name %s was handed out twice (all names so far: %s)" % (new_name, issued)))
            issued.append(new_name)
            names[c] = new_name
    if probe is not None and len(res) == len(events):
        want = sorted(n for cc, n in names.items() if cc not in monitors)
        if probe["list"] != want:
            viol.append((len(events), "ListNames shows unique names %s, the live registered clients are %s" % (probe["list"], want)))
        for n, o in probe["owners"].items():
            if o != n:
                viol.append((len(events), "GetNameOwner(%s) = %r" % (n, o)))
    st["issued"] = issued
    return viol, known, st
