"""Generators for C07 (package `match`): rule strings (valid, invalid, every key,
every quoting form, boundary lengths / token counts / arg numbers), messages
(all types, optional fields absent, leading args string / object path / other /
missing, values that are prefixes / extensions of rule values) and histories.
All randomness comes from the random.Random instance passed in."""

IFACES = ["a.b", "a.bc", "a.b.c", "org.freedesktop.DBus"]
MEMBERS = ["M", "Mm", "NameOwnerChanged"]
PATHS = ["/", "/a", "/a/b", "/ab", "/a/b/c", "/org/freedesktop/DBus"]
WK_NAMES = ["w.a", "w.a.b", "w.ab", "w.b"]
SENDERS = ["{U1}", "{U2}", "{U3}", "w.a", "w.b", "org.freedesktop.DBus", "w.none", "{U9}"]
ARG_STR = ["", "/", "/a", "/a/", "/a/b", "/a/b/", "/ab", "/a/b/c", "a", "a.b", "a.b.c", "a.bc", "w.a", "w.a.b", "w.ab", "w",
           "x'y", "x,y", "\\", "'", "\\'", " x ", "é"]
ARG_NS = ["a", "a.b", "w", "w.a", "w.a.b", "a.b.c"]
ARG_PATHV = ["", "/", "/a", "/a/", "/a/b", "/a/b/", "/ab", "/a/b/c", "a/", "x"]
TYPES = ["signal", "method_call", "method_return", "error"]
TYPE_CODE = {"signal": 4, "method_call": 1, "method_return": 2, "error": 3}


# ---------------------------------------------------------------------------
# rule text
# ---------------------------------------------------------------------------
def quote(rnd, v, style=None):
    """one of the textual forms the specification gives for value v"""
    style = style or rnd.choice(("q", "q", "q", "bare", "mixed"))
    if style == "q":
        return "'" + v.replace("'", "'\\''") + "'"
    if style == "bare":
        if "," in v or v != v.strip() or v == "" and rnd.random() < 0.5:
            return quote(rnd, v, "q")
        out = ""
        for i, ch in enumerate(v):
            if ch == "'":
                out += "\\'"
            elif ch == "\\" and i + 1 < len(v) and v[i + 1] in "',\\":
                return quote(rnd, v, "q")      # a bare backslash before ' , \ would change meaning
            else:
                out += ch
        if out.endswith("\\"):
            return quote(rnd, v, "q")
        return out
    # mixed: split somewhere, quote the halves differently
    if len(v) < 2:
        return quote(rnd, v, "q")
    k = rnd.randrange(1, len(v))
    return quote(rnd, v[:k], "q") + quote(rnd, v[k:], rnd.choice(("q", "bare")))


def gen_items(rnd, fault_ok=True, eaves_ok=True):
    """list of (key, value) for a (mostly) valid rule"""
    items = []
    if rnd.random() < 0.45:
        items.append(("type", rnd.choice(["signal"] * 4 + TYPES)))
    if rnd.random() < 0.25:
        items.append(("sender", rnd.choice(SENDERS)))
    if rnd.random() < 0.3:
        items.append(("interface", rnd.choice(IFACES)))
    if rnd.random() < 0.3:
        items.append(("member", rnd.choice(MEMBERS)))
    r = rnd.random()
    if r < 0.2:
        items.append(("path", rnd.choice(PATHS)))
    elif r < 0.4:
        items.append(("path_namespace", rnd.choice(PATHS)))
    eav = eaves_ok and rnd.random() < 0.2
    if rnd.random() < (0.5 if eav else 0.08):
        items.append(("destination", rnd.choice(SENDERS)))
    if eav:
        items.append(("eavesdrop", "true" if rnd.random() < 0.85 else "false"))
        if rnd.random() < 0.15:
            items.append(("eavesdrop", rnd.choice(("true", "false"))))
    if rnd.random() < 0.45:
        used = set()
        for _ in range(rnd.choice((1, 1, 2, 3))):
            n = rnd.choice((0, 0, 0, 1, 1, 2, 3, 5, 63))
            if n in used:
                continue
            used.add(n)
            k = rnd.random()
            if k < 0.45:
                items.append(("arg%d" % n, rnd.choice(ARG_STR)))
            elif k < 0.85 or n != 0:
                v = rnd.choice(ARG_PATHV)
                if v == "" and not (fault_ok and rnd.random() < 0.5):
                    v = "/a/"
                items.append(("arg%dpath" % n, v))
            else:
                items.append(("arg0namespace", rnd.choice(ARG_NS)))
    rnd.shuffle(items)
    return items


def render(rnd, items, plain=False):
    parts = []
    for k, v in items:
        if plain:
            parts.append("%s='%s'" % (k, v.replace("'", "'\\''")))
            continue
        lead = rnd.choice(("", "", "", "", " ", "\t", "  "))
        mid = rnd.choice(("", "", "", "", "", " ", "\t "))
        parts.append(lead + k + mid + "=" + quote(rnd, v))
    s = ",".join(parts)
    if not plain:
        r = rnd.random()
        if r < 0.06:
            s += ","
        elif r < 0.12:
            s += " "
        elif r < 0.15:
            s += ", "
    return s


BAD_ITEMS = [("type", "Signal"), ("type", ""), ("type", "signal "), ("sender", "a"), ("sender", ":"), ("sender", ""), ("sender", "a..b"),
             ("interface", "a"), ("interface", ""), ("interface", "a.1"), ("member", "a.b"), ("member", ""), ("member", "1a"),
             ("path", "a"), ("path", ""), ("path", "/a/"), ("path", "//"), ("path_namespace", "/a/"), ("path_namespace", ""),
             ("destination", "x"), ("destination", ""), ("eavesdrop", "yes"), ("eavesdrop", ""), ("eavesdrop", "TRUE"),
             ("arg0namespace", ""), ("arg0namespace", "a..b"), ("arg0namespace", ".a"), ("arg0namespace", "a."), ("arg0namespace", "1a"),
             ("arg", "x"), ("argx", "x"), ("arg64", "x"), ("arg64path", "/"), ("arg100", "x"), ("arg1namespace", "a"), ("arg0paths", "/"),
             ("arg0Path", "/"), ("argpath", "/"), ("arg1pat", "x"), ("arg00namespace", "a"), ("arg99999999999999999999", "x"),
             ("arg18446744073709551616", "x"), ("arg18446744073709551615", "x"), ("arg-1", "x"), ("arg 1", "x"),
             ("foo", "x"), ("Type", "signal"), ("types", "signal"), ("typ", "signal"), ("path_namespac", "/"), ("eavesdrop2", "true")]
# keys the code accepts although the specification's grammar arg[0, 1, 2, ...] does not have them
ODD_ARG_KEYS = ["arg010", "arg0x10", "arg0X3f", "arg+1", "arg-0", "arg\x0b1", "arg\x0c2", "arg00", "arg08", "arg0x", "arg0xg", "arg007path",
                "arg0x0path", "arg+0namespace", "arg077", "arg0100", "arg0x40", "arg+63", "arg+64", "arg-0path", "arg1e1", "arg0b1"]


def gen_rule_text(rnd, fault_ok=True, eaves_ok=True):
    """returns a rule string; roughly 70% valid"""
    r = rnd.random()
    items = gen_items(rnd, fault_ok, eaves_ok)
    if r < 0.62:
        return render(rnd, items)
    if r < 0.70:                      # one bad item among good ones
        bad = rnd.choice(BAD_ITEMS)
        items.insert(rnd.randrange(len(items) + 1), bad)
        return render(rnd, items)
    if r < 0.75:                      # duplicate key
        if items:
            k, v = rnd.choice(items)
            if k == "path" and rnd.random() < 0.5:
                k = "path_namespace"
            items.insert(rnd.randrange(len(items) + 1), (k, v))
        return render(rnd, items)
    if r < 0.80:                      # odd arg keys (strtoul forms)
        items = [(k, v) for k, v in items if not k.startswith("arg")]
        items.insert(rnd.randrange(len(items) + 1), (rnd.choice(ODD_ARG_KEYS), rnd.choice(ARG_STR)))
        return render(rnd, items)
    if r < 0.86:                      # empty key / missing '=' / junk
        s = render(rnd, items)
        junk = rnd.choice(["=x", "=", " =x", "=junk,type='signal'", "x", "type", "type 'signal'", ",", ",,", " , ", "=,=", "'", "\\", "type='signal"])
        return rnd.choice((s + "," + junk if s else junk, junk + "," + s, junk))
    if r < 0.93:                      # single-character mutation
        s = render(rnd, items) or "type='signal'"
        i = rnd.randrange(len(s) + 1)
        c = rnd.choice("'\\,= \t=''")
        m = rnd.choice(("ins", "del", "rep"))
        if m == "ins":
            return s[:i] + c + s[i:]
        if m == "del":
            return s[:i] + s[i + 1:]
        return s[:i] + c + s[i + 1:]
    if r < 0.97:                      # many tokens: around the 16-token cap
        n = rnd.choice((14, 15, 16, 17, 18, 30))
        base = [("arg%d" % i, rnd.choice(("a", "/a", ""))) for i in range(n)]
        tail = rnd.choice(([], [("type", "signal")], [("type", "bogus")], [("bogus", "x")], [("member", "M")], [("arg0", "dup")]))
        k = rnd.choice((n, n, max(0, 16 - len(tail)), 16))
        if rnd.random() < 0.3:
            base = [("eavesdrop", rnd.choice(("true", "false")))] * n if eaves_ok else base
        return render(rnd, base[:k] + tail, plain=rnd.random() < 0.7)
    # around the 1024-byte limit
    total = rnd.choice((1020, 1023, 1024, 1025, 1026, 1100))
    pre = rnd.choice(("arg0=", "type='signal',arg1=", "member="))
    return pre + "'" + "a" * (total - len(pre) - 2) + "'"


# ---------------------------------------------------------------------------
# messages: (type, path, iface, member, dest, args)
# ---------------------------------------------------------------------------
def gen_args(rnd):
    n = rnd.choice((0, 1, 1, 1, 2, 2, 3, 4))
    out = []
    for _ in range(n):
        k = rnd.random()
        if k < 0.6:
            out.append(["s", rnd.choice(ARG_STR + ARG_NS)])
        elif k < 0.85:
            out.append(["o", rnd.choice(PATHS)])
        else:
            out.append(["x"])
    return out


def gen_msg(rnd, dests):
    """dests: candidate destination strings (unique-name placeholders, well-known names)"""
    r = rnd.random()
    if r < 0.55:
        return [4, rnd.choice(PATHS), rnd.choice(IFACES), rnd.choice(MEMBERS), None, gen_args(rnd)]
    if r < 0.62:     # no destination, not a signal: the bus keeps it to itself
        t = rnd.choice((1, 2, 3))
        if t == 1:
            return [1, rnd.choice(PATHS), rnd.choice(IFACES + [None]), rnd.choice(MEMBERS), None, gen_args(rnd)]
        return [t, None, None, None, None, gen_args(rnd)]
    t = rnd.choice((1, 1, 2, 3, 4, 4))
    dest = rnd.choice(dests)
    if t == 4:
        return [4, rnd.choice(PATHS), rnd.choice(IFACES), rnd.choice(MEMBERS), dest, gen_args(rnd)]
    if t == 1:
        return [1, rnd.choice(PATHS), rnd.choice(IFACES + [None, None]), rnd.choice(MEMBERS), dest, gen_args(rnd)]
    if rnd.random() < 0.6:
        return [t, None, None, None, dest, gen_args(rnd)]
    return [t, rnd.choice(PATHS + [None]), rnd.choice(IFACES + [None]), rnd.choice(MEMBERS + [None]), dest, gen_args(rnd)]


# ---------------------------------------------------------------------------
# histories
# ---------------------------------------------------------------------------
def rerender(rnd, text):
    """the same rule written differently (only attempted for plain generated texts)"""
    return text


def add_fds(rnd, args):
    """the same arguments with one or two unix fd arguments put in (they shift the later argument numbers)"""
    args = list(args)
    for _ in range(rnd.choice((1, 1, 2))):
        args.insert(rnd.randrange(len(args) + 1) if rnd.random() < 0.4 else len(args), ["h"])
    return args


def add_fds_n(rnd, args, k):
    args = list(args)
    for _ in range(k):
        args.insert(rnd.randrange(len(args) + 1), ["h"])
    return args


def gen_scenario(rnd, n_events=None, fault_p=0.08):
    fault_ok = rnd.random() < fault_p
    nconn = rnd.choice((2, 3, 3, 4))
    limit = rnd.choice((512, 512, 512, 2, 3, 4))
    ev = []
    live = []
    fdcap = set()
    for c in range(1, nconn + 1):
        if rnd.random() < 0.5:
            ev.append(["hello", c, "fd"])
            fdcap.add(c)
        else:
            ev.append(["hello", c])
        live.append(c)
    owned = {}              # name -> queue of connections (first = primary owner)
    for name in WK_NAMES:
        if rnd.random() < 0.4:
            c = rnd.choice(live)
            ev.append(["own", c, name])
            owned[name] = [c]
            if rnd.random() < 0.3:
                c2 = rnd.choice(live)
                if c2 != c:
                    ev.append(["own", c2, name])          # queued behind c
                    owned[name].append(c2)
    added = {c: [] for c in range(0, 8)}
    items_of = {}
    nxt = nconn + 1
    n_events = n_events or rnd.choice((8, 12, 16, 24))
    for _ in range(n_events):
        if not live:
            break
        r = rnd.random()
        c = rnd.choice(live)
        if r < 0.42:
            if rnd.random() < 0.15 and added[c]:
                t = rnd.choice(added[c])        # duplicate of an earlier rule
            else:
                t = gen_rule_text(rnd, fault_ok)
            ev.append(["add", c, t])
            added[c].append(t)
        elif r < 0.56:
            k = rnd.random()
            pool = added[c] or [gen_rule_text(rnd, fault_ok)]
            if k < 0.6:
                t = rnd.choice(pool)
            elif k < 0.75:                      # same rule, value of one path/path_namespace/arg changed
                t = rnd.choice(pool)
                for a, b in (("/a/b", "/a"), ("/a", "/ab"), ("'a.b'", "'a.bc'"), ("signal", "error"), ("'M'", "'Mm'")):
                    if a in t:
                        t = t.replace(a, b, 1)
                        break
            elif k < 0.85:
                others = [x for cc in live for x in added[cc] if cc != c]
                t = rnd.choice(others) if others else gen_rule_text(rnd, fault_ok)
            else:
                t = gen_rule_text(rnd, fault_ok)
            ev.append(["rm", c, t])
        elif r < 0.92:
            dests = ["{U%d}" % k for k in range(1, nxt)] + list(owned.keys()) + ["w.none", "{U9}"]
            msg = gen_msg(rnd, dests)
            if c in fdcap and rnd.random() < 0.3:
                msg[5] = add_fds(rnd, msg[5])
            ev.append(["send", c] + msg)
        elif r < 0.95 and len(live) > 1:
            ev.append(["disc", c])
            live.remove(c)
            for n in list(owned):
                if c in owned[n]:
                    owned[n].remove(c)
                if not owned[n]:
                    del owned[n]
        elif r < 0.965 and nxt < 7:
            if rnd.random() < 0.5:
                ev.append(["hello", nxt, "fd"])
                fdcap.add(nxt)
            else:
                ev.append(["hello", nxt])
            live.append(nxt)
            nxt += 1
        else:
            k = rnd.random()
            mine = [n for n in owned if c in owned[n]]
            cand = [n for n in WK_NAMES if c not in owned.get(n, [])]
            if k < 0.45 and mine:
                n = rnd.choice(mine)                      # give a name up: the next in the queue takes over
                ev.append(["release", c, n])
                owned[n].remove(c)
                if not owned[n]:
                    del owned[n]
            elif k < 0.5:
                ev.append(["release", c, rnd.choice(WK_NAMES + ["w.none"])]) if not mine else None
            elif cand:
                n = rnd.choice(cand)                      # primary owner if free, else queued
                ev.append(["own", c, n])
                owned.setdefault(n, []).append(c)
    ev = [e for e in ev if e is not None]
    return {"limit": limit, "events": ev}


# ---------------------------------------------------------------------------
# directed families (each aims at one case split of the model / one known finding)
# ---------------------------------------------------------------------------
SPEC_EXAMPLE_QUOTED = "arg0=''\\''',arg1='\\',arg2=',',arg3='\\\\'"
SPEC_EXAMPLE_BARE = "arg0=\\',arg1=\\,arg2=',',arg3=\\\\"


def probe_signals(rnd, c, n=4):
    return [["send", c, 4, rnd.choice(PATHS + ["/ab/c", "/a/bc", "/org"]), rnd.choice(IFACES), rnd.choice(MEMBERS), None, gen_args(rnd)] for _ in range(n)]


def hole_pair(rnd):
    """(text without the empty slot, text with it, N, M or None, value of argM)"""
    pre = rnd.choice(("", "", "type='signal',", "member='M',", "interface='a.b',", "path_namespace='/a',"))
    kn = rnd.choice(("", "", "path"))
    if rnd.random() < 0.8:
        m = rnd.choice((1, 2, 3, 5))
        n = rnd.randrange(m)
        km = rnd.choice(("", "", "path"))
        vm = rnd.choice(("x", "x", "", "/a/"))
        hi = "arg%d%s='%s'" % (m, km, vm)
        lo = "arg%d%s=''" % (n, kn)
        with_ = rnd.choice((lo + "," + hi, hi + "," + lo))
        return pre + hi, pre + with_, n, m, vm
    n = rnd.choice((0, 1, 2))
    return (pre.rstrip(","), pre + "arg%d%s=''" % (n, kn), n, None, None)


def gen_hole_pairs():
    """systematic rule pairs for the `equal` leg: presence / absence / kind of an empty-valued slot"""
    out = []
    for pre in ("", "type='signal',", "member='M',"):
        for m in (1, 2, 3, 5):
            for km in ("", "path"):
                for vm in ("x", "", "/a/"):
                    hi = "arg%d%s='%s'" % (m, km, vm)
                    for n in range(m):
                        for kn in ("", "path"):
                            lo = "arg%d%s=''" % (n, kn)
                            a, b = pre + hi, pre + lo + "," + hi
                            out += [(a, b), (b, a), (b, pre + hi + "," + lo), (b, pre + "arg%d%s=''," % (n, "path" if kn == "" else "") + hi),
                                    (b, pre + "arg%d%s='y'," % (n, kn) + hi)]
        for n in (0, 1, 2, 63):
            for kn in ("", "path"):
                lo = "arg%d%s=''" % (n, kn)
                out += [(pre.rstrip(","), pre + lo), (pre + lo, pre.rstrip(",")), (pre + lo, pre + lo),
                        (pre + lo, pre + "arg%d%s=''" % (n + 1 if n < 63 else 62, kn))]
    return out


def gen_directed(rnd):
    fam = rnd.choice(("pns", "dups", "limit", "peer", "eaves", "fault", "pools", "quoting", "holes", "holes", "fds", "fds", "owners", "owners", "index", "index"))
    ev = [["hello", 1], ["hello", 2], ["hello", 3]]
    limit = 512
    if fam == "pns":
        # several rules that differ only in the path_namespace value, then removal by a third value:
        # which one goes is only visible through later deliveries
        extra = rnd.choice(("", ",type='signal'", ",interface='a.b'", ",member='M'"))
        vals = rnd.sample(PATHS + ["/ab/c", "/org"], rnd.choice((2, 3)))
        for v in vals:
            ev.append(["add", 1, "path_namespace='%s'%s" % (v, extra)])
        ev.append(["rm", 1, "path_namespace='%s'%s" % (rnd.choice(PATHS + ["/zz"]), extra)])
        for p in PATHS + ["/ab/c", "/a/bc", "/org/x"]:
            ev.append(["send", 2, 4, p, "a.b", "M", None, []])
        ev.append(["rm", 1, "path_namespace='%s'%s" % (rnd.choice(vals), extra)])
        ev += probe_signals(rnd, 3, 3)
    elif fam == "holes":
        # near-equal rules: an EMPTY-valued argN / argNpath slot present in one, absent in the other, below a
        # higher argM that both share (args_len equal) or as the highest slot (args_len differs); removal of
        # the rule that is not held must fail and must leave the held one in place
        r1, r2, n, m, vm = hole_pair(rnd)
        held, other = (r1, r2) if rnd.random() < 0.5 else (r2, r1)
        both = rnd.random() < 0.35
        ev.append(["add", 1, held])
        if both:
            ev.append(["add", 1, other])
        probes = []
        for an in ("", "foo"):
            args = [["s", "pad"] for _ in range(max(n, m if m is not None else -1) + 1)]
            args[n] = ["s", an]
            if m is not None:
                args[m] = ["s", vm]
            probes.append(["send", 2, 4, "/a", "a.b", "M", None, args])
        ev += probes
        ev.append(["rm", 1, other])
        ev += probes
        ev.append(["rm", 1, held])
        ev += probes
        ev.append(["rm", 1, held])
    elif fam == "fds":
        # listeners with and without fd passing, rules added in both orders and in different (type, interface)
        # pools, signals with 0 / 1 / 2 unix fds: a listener that cannot take the fds is skipped and nobody
        # else is affected; a unicast with fds to an addressee that cannot take them reaches nobody
        ev = []
        caps = {}
        for c in (1, 2, 3, 4):
            caps[c] = rnd.random() < 0.5
        if all(caps[c] for c in (1, 2, 3)):            # at least one listener without, one with
            caps[1] = False
        if not any(caps[c] for c in (1, 2, 3)):
            caps[3] = True
        caps[4] = True                                 # the sender
        for c in (1, 2, 3, 4):
            ev.append(["hello", c, "fd"] if caps[c] else ["hello", c])
        pools = ["", "type='signal'", "interface='a.b'", "type='signal',interface='a.b'", "member='M'", "path_namespace='/a'"]
        order = [1, 2, 3]
        rnd.shuffle(order)
        for c in order:
            for _ in range(rnd.choice((1, 1, 2))):
                ev.append(["add", c, rnd.choice(pools)])
        if rnd.random() < 0.5:
            ev.append(["add", rnd.choice(order), "eavesdrop='true'"])
        for k in (1, 0, 2, 1):
            args = add_fds_n(rnd, gen_args(rnd)[:2], k)
            ev.append(["send", 4, 4, rnd.choice(("/a", "/a/b")), "a.b", "M", None, args])
        ev.append(["rm", order[0], rnd.choice(pools)])
        ev.append(["send", 4, 4, "/a", "a.b", "M", None, [["h"]]])
        for dst in rnd.sample((1, 2, 3), 2):
            ev.append(["send", 4, rnd.choice((1, 4)), "/a", "a.b", "M", "{U%d}" % dst, add_fds_n(rnd, [["s", "x"]], rnd.choice((1, 1, 0)))])
        limit = 512
    elif fam == "owners":
        # sender= / destination= on a well-known name are resolved against the CURRENT primary owner when a message
        # is dispatched: the rules stay, the owner changes (queue, ReleaseName, disconnect, re-acquisition)
        name = rnd.choice(("w.a", "w.b"))
        ev.append(["hello", 4])
        ev.append(["own", 1, name])
        ev.append(["own", 2, name])                       # queued
        ev.append(["add", 3, "sender='%s'" % name + rnd.choice(("", ",type='signal'", ",member='M'"))])
        ev.append(["add", 4, "eavesdrop='true',destination='%s'" % name])
        if rnd.random() < 0.5:
            ev.append(["add", 4, "sender='{U2}'"])
        ev.append(["add", 3, "type='signal',sender='org.freedesktop.DBus',arg0='%s'" % name])

        def probes():
            out = []
            for c in (1, 2, 4):
                out.append(["send", c, 4, "/a", "a.b", "M", None, []])
            out.append(["send", 3, 1, "/a", "a.b", "M", name, [["s", "x"]]])
            return out
        ev += probes()
        steps = [["release", 1, name], ["own", 1, name], ["disc", 2], ["release", 2, name], ["own", 4, name], ["release", 4, name]]
        rnd.shuffle(steps)
        gone = set()
        for s in steps[:rnd.choice((2, 3, 4))]:
            if s[1] in gone:
                continue
            ev.append(s)
            if s[0] == "disc":
                gone.add(s[1])
            ev += [p for p in probes() if p[1] not in gone]
    elif fam == "index":
        # the (type, interface) pools: last rule of an interface entry removed (the entry is collected) and the
        # interface used again, the same interface under several types, a disconnect that empties some entries
        ifs = ["a.b", "a.bc", "a.b.c"]
        tys = [None, "signal", "method_call", "error"]
        held = []
        for _ in range(rnd.choice((5, 7, 9))):
            c = rnd.choice((1, 2))
            t_ = rnd.choice(tys)
            i_ = rnd.choice(ifs + [None])
            items = ([("type", t_)] if t_ else []) + ([("interface", i_)] if i_ else []) + ([("member", rnd.choice(MEMBERS))] if rnd.random() < 0.3 else [])
            text = render(rnd, items)
            ev.append(["add", c, text])
            held.append((c, items))
        for _ in range(3):
            ev.append(["send", 3, 4, "/a", rnd.choice(ifs), rnd.choice(MEMBERS), None, []])
        rnd.shuffle(held)
        for c, items in held[:rnd.choice((2, 3, 4))]:
            its = list(items)
            rnd.shuffle(its)
            ev.append(["rm", c, render(rnd, its)])
            ev.append(["send", 3, 4, "/a", dict(items).get("interface", rnd.choice(ifs)), dict(items).get("member", "M"), None, []])
        c, items = rnd.choice(held)
        ev.append(["rm", c, render(rnd, items)])
        ev.append(["add", c, render(rnd, items)])
        ev.append(["disc", rnd.choice((1, 2))])
        for i_ in ifs:
            ev.append(["send", 3, 4, "/a", i_, "M", None, []])
        ev.append(["add", 3, "interface='a.b'"])
        ev.append(["send", 3, rnd.choice((1, 3)), "/a", "a.b", "M", "{U%d}" % rnd.choice((1, 2, 3)), []])
    elif fam == "dups":
        items = gen_items(rnd, fault_ok=False, eaves_ok=False)
        n = rnd.choice((2, 3))
        for _ in range(n):
            ev.append(["add", 1, render(rnd, items)])
        ev.append(["add", 2, render(rnd, items)])
        d = dict(items)
        probe = [["send", 3, 4, d.get("path", d.get("path_namespace", "/a")), d.get("interface", "a.b"), d.get("member", "M"), None, gen_args(rnd)]]
        for _ in range(n + 1):
            ev += probe + probe_signals(rnd, 3, 1)
            its = list(items)
            rnd.shuffle(its)
            ev.append(["rm", 1, render(rnd, its)])
        ev += probe
    elif fam == "limit":
        limit = rnd.choice((1, 2, 3))
        for i in range(limit + 2):
            ev.append(["add", 1, rnd.choice(("type='signal'", "member='M'", "bogus", "arg0='%d'" % i, gen_rule_text(rnd, False)))])
        ev.append(["rm", 1, "type='signal'"])
        ev.append(["add", 1, "interface='a.b'"])
        ev.append(["add", 1, "interface='a.bc'"])
        ev.append(["add", 2, "type='signal'"])
        ev += probe_signals(rnd, 3, 3)
    elif fam == "peer":
        # rules naming a peer's unique name; the peer leaves with or without rules of its own
        key = rnd.choice(("sender", "destination"))
        t1 = "%s='{U2}'" % key + rnd.choice(("", ",type='signal'", ",eavesdrop='true'"))
        ev.append(["add", 1, t1])
        ev.append(["add", 3, "%s='{U2}',member='M'" % key])
        if rnd.random() < 0.6:
            ev.append(["add", 2, rnd.choice(("type='error'", "sender='{U1}'", "member='Mm'"))])
        if rnd.random() < 0.3:
            ev.append(["rm", 2, "type='error'"])
        ev.append(["send", 2, 4, "/a", "a.b", "M", None, []])
        ev.append(["disc", 2])
        ev.append(["rm", 1, t1])
        ev.append(["rm", 3, "%s='{U2}',member='M'" % key])
        ev.append(["add", 1, t1])
        ev.append(["rm", 1, t1])
    elif fam == "eaves":
        ev.append(["own", 2, "w.a"])
        for _ in range(rnd.choice((2, 3, 4))):
            items = [("eavesdrop", "true")] + [x for x in gen_items(rnd, False, False) if x[0] not in ("eavesdrop",)]
            if rnd.random() < 0.5:
                items = [x for x in items if x[0] != "destination"]
                items.append(("destination", rnd.choice(("{U2}", "w.a", "{U3}", "w.none", "org.freedesktop.DBus"))))
            ev.append(["add", rnd.choice((1, 3)), render(rnd, items)])
        ev.append(["add", 1, "type='method_call'"])
        for _ in range(6):
            ev.append(["send", rnd.choice((1, 2, 3))] + gen_msg(rnd, ["{U1}", "{U2}", "{U3}", "w.a", "w.none"]))
        ev.append(["send", 3, 5, "/a", "a.b", "M", "w.a", []])
    elif fam == "fault":
        n = rnd.choice((0, 0, 1, 2))
        pre = rnd.choice(("", "type='signal',", "member='M',", "type='error',", "interface='a.b',", "path='/a',"))
        ev.append(["add", 1, "%sarg%dpath=''" % (pre, n)])
        ev.append(["add", 2, "arg%dpath='/a/'" % n])
        for a in ([["s", ""]], [["x"]], [], [["s", "x"]], [["o", "/a"]]):
            args = [["x"]] * n + a
            ev.append(["send", 3, 4, "/a", "a.b", "M", None, args])
    elif fam == "pools":
        # one rule in each of the four (type, interface) pools, on two connections, and messages for every pool
        for c in (1, 2):
            for t in (None, "signal", "method_call"):
                for i in (None, "a.b"):
                    if rnd.random() < 0.6:
                        rest = [x for x in gen_items(rnd, False, c == 2) if x[0] not in ("type", "interface")][:1]
                        items = ([("type", t)] if t else []) + ([("interface", i)] if i else []) + rest
                        ev.append(["add", c, render(rnd, items)])
        for _ in range(6):
            ev.append(["send", 3] + gen_msg(rnd, ["{U1}", "{U2}"]))
    else:
        # quoting forms of one and the same value, added and removed through different spellings
        v = rnd.choice(ARG_STR)
        forms = [quote(rnd, v) for _ in range(3)]
        ev.append(["add", 1, "arg0=" + forms[0]])
        ev.append(["send", 2, 4, "/a", "a.b", "M", None, [["s", v]]])
        ev.append(["send", 2, 4, "/a", "a.b", "M", None, [["s", v + "x"]]])
        ev.append(["rm", 1, "arg0=" + forms[1]])
        ev.append(["send", 2, 4, "/a", "a.b", "M", None, [["s", v]]])
        ev.append(["add", 1, SPEC_EXAMPLE_BARE])
        ev.append(["add", 3, SPEC_EXAMPLE_QUOTED])
        ev.append(["send", 2, 4, "/a", "a.b", "M", None, [["s", "'"], ["s", "\\"], ["s", ","], ["s", "\\\\"]]])
        ev.append(["send", 2, 4, "/a", "a.b", "M", None, [["s", "'"], ["s", "\\,arg2=,"], ["x"], ["s", "\\\\"]]])
    return {"limit": limit, "events": ev}
