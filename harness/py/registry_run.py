"""C04 implementation side: replays one history of Connect / Hello / AddMatch /
RequestName / ReleaseName / Disconnect / ReloadConfig events against a fresh
dbus-daemon (the ASan build of /repo's working tree) with raw-wire clients, and
reports, per event,

    <outs>;<queries>;<names>

with the RAW strings that were on the wire (hex; "-" = empty string), exactly as
the driver-layer model (coq/Registry/Driver.v via `drun` of ml/registry/driver.ml)
prints them:

  outs     every message each connection received because of the event, per
           socket in arrival order:  <conn>><msg>,...      msg = hello:<hex> | reply:<n> |
           ack | err:<Name> | acq:<hex> | lost:<hex> | noc:<hex>:<hex>:<hex>
  queries  for each probe GetNameOwner / NameHasOwner / ListQueuedOwners as asked
           by connection 0 after the event:  <probe>=s<hex>|e:<Name> / 0|1 / <hex>+<hex>..|e:<Name>
           probe = x<hex> (raw string) | S<hex> (raw string) | U<c> (unique name of connection c,
           ":0.<c>" if it never got one)
  names    ListNames as a sorted set of hex strings

`canon_result` maps such a line to the abstract vocabulary of the registry model
(`run` of the ml driver: unique names as connection indices).

Synchronisation is by round trips only (no sleeps): after an event every live
connection does a GetId round trip, so everything the bus queued for it before
has arrived; after a disconnection connection 0 polls NameHasOwner(<unique name>)
until it is gone.  Connection 0 must be the first connection and must never
disconnect (it is the control connection for queries); the generators guarantee
that."""
import os, sys, time
sys.path.insert(0, os.path.dirname(os.path.abspath(__file__)))
import rawbus
from rawbus import METHOD_RETURN, ERROR, SIGNAL, F_REPLY_SERIAL, F_SENDER, F_PATH, F_INTERFACE, F_MEMBER, F_DESTINATION, F_ERROR_NAME

BUS = "org.freedesktop.DBus"
BUS_HEX = BUS.encode().hex()
MATCH_RULE = "type='signal',sender='org.freedesktop.DBus',interface='org.freedesktop.DBus',member='NameOwnerChanged'"
ERR_PREFIX = "org.freedesktop.DBus.Error."
TIMEOUT = 60.0     # generous: a loaded machine must not turn into a false alarm; nothing waits this long normally


class Broken(Exception):
    pass


def hx(s):
    b = s.encode("utf-8") if isinstance(s, str) else bytes(s)
    return b.hex() if b else "-"


def unhx(h):
    return bytes.fromhex("" if h == "-" else h).decode("utf-8")


def policy_xml(rules):
    """rules: '-' or '+'-joined a*|d*|aN<hex>|dN<hex>|aP<hex>|dP<hex> -> the <policy context="default"> of the test bus"""
    own = []
    for r in ([] if rules == "-" else rules.split("+")):
        tag = "allow" if r[0] == "a" else "deny"
        if r[1] == "*":
            own.append('<%s own="*"/>' % tag)
        elif r[1] == "N":
            own.append('<%s own="%s"/>' % (tag, unhx(r[2:])))
        else:
            own.append('<%s own_prefix="%s"/>' % (tag, unhx(r[2:])))
    return ('<policy context="default">\n    <allow send_destination="*" eavesdrop="true"/>\n    <allow eavesdrop="true"/>\n    '
            + "\n    ".join(own) + "\n  </policy>")


def limits_xml(limit):
    return '<limit name="max_names_per_connection">%d</limit>' % limit


class Session:
    def __init__(self, daemon_exe, limit, rules="a*"):
        self.d = rawbus.Daemon(daemon_exe, policy=policy_xml(rules), limits=limits_xml(limit))
        self.clients = []          # index -> RawConn or None (closed)
        self.unique = {}           # index -> unique name string (once Hello succeeded)

    # ---- wire -> text ------------------------------------------------------------
    def raw_msg(self, idx, m, op_serial, op_kind):
        f = m.fields
        if m.mtype in (METHOD_RETURN, ERROR):
            if f.get(F_REPLY_SERIAL) != op_serial:
                return "stray-reply:%r" % (m,)
            dest = f.get(F_DESTINATION)
            meta = "" if f.get(F_SENDER) == BUS and (dest is None or idx not in self.unique or dest == self.unique[idx]) else "!meta"
            if m.mtype == ERROR:
                n = f.get(F_ERROR_NAME, "")
                return "err:" + (n[len(ERR_PREFIX):] if n.startswith(ERR_PREFIX) else n) + meta
            if op_kind == "H":
                return ("hello:" + hx(m.body[0]) if m.sig == "s" else "badreply:%r" % (m,)) + meta
            if op_kind in ("R", "L"):
                return ("reply:%d" % m.body[0] if m.sig == "u" else "badreply:%r" % (m,)) + meta
            if op_kind in ("M", "W"):
                return ("ack" if m.sig == "" else "badreply:%r" % (m,)) + meta
            return "stray-reply:%r" % (m,)
        if m.mtype == SIGNAL:
            ok = f.get(F_SENDER) == BUS and f.get(F_PATH) == "/org/freedesktop/DBus" and f.get(F_INTERFACE) == BUS
            mem = f.get(F_MEMBER)
            if mem in ("NameAcquired", "NameLost") and m.sig == "s":
                ok = ok and f.get(F_DESTINATION) == self.unique.get(idx)
                return ("acq:" if mem == "NameAcquired" else "lost:") + hx(m.body[0]) + ("" if ok else "!meta")
            if mem == "NameOwnerChanged" and m.sig == "sss":
                ok = ok and F_DESTINATION not in f
                return "noc:%s:%s:%s" % (hx(m.body[0]), hx(m.body[1]), hx(m.body[2])) + ("" if ok else "!meta")
        return "other:%r" % (m,)

    # ---- plumbing ------------------------------------------------------------
    def connect(self):
        """rawbus.Daemon returns as soon as the socket file exists, which is after bind() but possibly
        before listen(): retry a refused connection while the daemon is starting"""
        t_end = time.time() + 10
        while True:
            try:
                return self.d.connect(timeout=TIMEOUT)
            except (ConnectionRefusedError, FileNotFoundError):
                if time.time() > t_end or not self.d.alive():
                    raise
                time.sleep(0.002)

    def live(self):
        return [(i, c) for i, c in enumerate(self.clients) if c is not None]

    def call(self, c, member, sig="", body=()):
        r = c.call(member, sig, body, timeout=TIMEOUT)
        if r is None:
            raise Broken("no reply to %s (daemon alive: %s)" % (member, self.d.alive()))
        return r

    def collect(self, actor, op_serial, op_kind):
        """barrier every live connection, then write down what each one got"""
        outs = []
        for i, c in self.live():
            if c.barrier(timeout=TIMEOUT) is None:
                raise Broken("connection %d: no reply to the barrier (closed by the bus: %s)" % (i, c.closed))
            for m in c.inbox:
                outs.append("%d>%s" % (i, self.raw_msg(i, m, op_serial if i == actor else None, op_kind)))
            c.inbox = []
        return outs

    def probe_name(self, p):
        if p[0] == "U":
            i = int(p[1:])
            return self.unique.get(i, ":0.%d" % i)      # ":0.N" is never assigned by the bus
        return unhx(p[1:] if len(p) > 1 else "-")

    @staticmethod
    def answer(r, sig, fmt):
        if r.mtype == METHOD_RETURN and r.sig == sig:
            return fmt(r.body[0])
        if r.mtype == ERROR:
            n = r.fields.get(F_ERROR_NAME, "")
            return "e:" + (n[len(ERR_PREFIX):] if n.startswith(ERR_PREFIX) else n)
        return "?%r" % (r,)

    def queries(self, probes):
        if not self.clients or self.clients[0] is None or 0 not in self.unique:
            return "-", "-"
        c0 = self.clients[0]
        qs = []
        for p in probes:
            name = self.probe_name(p)
            owner = self.answer(self.call(c0, "GetNameOwner", "s", (name,)), "s", lambda v: "s" + hx(v))
            has = self.answer(self.call(c0, "NameHasOwner", "s", (name,)), "b", lambda v: "1" if v else "0")
            queued = self.answer(self.call(c0, "ListQueuedOwners", "s", (name,)), "as", lambda v: "+".join(hx(x) for x in v) if v else "empty")
            qs.append("%s=%s/%s/%s" % (p, owner, has, queued))
        names = self.answer(self.call(c0, "ListNames"), "as", lambda v: "+".join(sorted(hx(x) for x in v)))
        return (",".join(qs) if qs else "-"), names

    # ---- one event --------------------------------------------------------------
    def event(self, ev):
        kind, body = ev[0], ev[1:]
        actor, serial = None, None
        if kind == "C":
            self.clients.append(self.connect())
        elif kind == "D":
            actor = int(body.split(":")[0])
            c = self.clients[actor]
            c.close()
            self.clients[actor] = None
            if actor in self.unique and self.clients and self.clients[0] is not None and 0 in self.unique:
                for _ in range(100000):
                    r = self.call(self.clients[0], "NameHasOwner", "s", (self.unique[actor],))
                    if r.mtype == METHOD_RETURN and not r.body[0]:
                        break
                else:
                    raise Broken("the bus never noticed that connection %d went away" % actor)
            actor = None
        else:
            return self.call_event(ev)
        return actor, serial, kind

    def call_event(self, ev):
        """a method call by one connection; the reply is left in place in its inbox"""
        kind, body = ev[0], ev[1:]
        parts = body.split(",")
        actor = int(parts[0])
        c = self.clients[actor]
        hdr = {rawbus.F_PATH: "/org/freedesktop/DBus", rawbus.F_INTERFACE: BUS, rawbus.F_DESTINATION: BUS}
        if kind == "H":
            hdr[rawbus.F_MEMBER] = "Hello"
            m = rawbus.Msg(rawbus.METHOD_CALL, 0, c.next_serial(), hdr)
        elif kind == "M":
            hdr[rawbus.F_MEMBER] = "AddMatch"
            m = rawbus.Msg(rawbus.METHOD_CALL, 0, c.next_serial(), hdr, "s", (MATCH_RULE,))
        elif kind == "R":
            hdr[rawbus.F_MEMBER] = "RequestName"
            m = rawbus.Msg(rawbus.METHOD_CALL, 0, c.next_serial(), hdr, "su", (unhx(parts[1]), int(parts[2])))
        elif kind == "L":
            hdr[rawbus.F_MEMBER] = "ReleaseName"
            m = rawbus.Msg(rawbus.METHOD_CALL, 0, c.next_serial(), hdr, "s", (unhx(parts[1]),))
        elif kind == "W":
            # the configuration file changes, then the client asks the bus to read it again
            conf = rawbus.SESSION_CONF % {"type": "session", "sock": self.d.sock, "policy": policy_xml(parts[1]),
                                          "limits": limits_xml(int(parts[2])), "servicedirs": "", "auth": ""}
            with open(self.d.conf, "w") as f:
                f.write(conf)
            hdr[rawbus.F_MEMBER] = "ReloadConfig"
            m = rawbus.Msg(rawbus.METHOD_CALL, 0, c.next_serial(), hdr)
        else:
            raise Broken("bad event " + ev)
        serial = c.send(m)
        r = _wait_reply_keep_position(c, serial)
        if r is None:
            raise Broken("no reply to %s (connection closed by the bus: %s, daemon alive: %s)" % (ev, c.closed, self.d.alive()))
        if kind == "H" and r.mtype == METHOD_RETURN and r.sig == "s":
            self.unique[actor] = r.body[0]
        return actor, serial, kind

    def close(self):
        for i, c in self.live():
            c.close()
        return self.d.stop()


def _wait_reply_keep_position(conn, serial, timeout=None):
    """like RawConn.wait_reply, but leaves the reply in the inbox (so that its position relative
    to the signals on the same socket stays observable) and returns it"""
    t_end = time.time() + (TIMEOUT if timeout is None else timeout)
    while True:
        for m in conn.inbox:
            if m.fields.get(F_REPLY_SERIAL) == serial and m.mtype in (METHOD_RETURN, ERROR):
                return m
        if conn.closed or time.time() > t_end:
            return None
        conn._pump(max(0.0, min(0.5, t_end - time.time())))


def run_history(daemon_exe, limit, rules, probes, events):
    """returns (list of per-event raw result strings, {hex unique name: connection index}, error text or None,
    daemon stderr or None)"""
    s = Session(daemon_exe, limit, rules)
    res, err = [], None
    try:
        for ev in events:
            actor, serial, kind = s.event(ev)
            outs = s.collect(actor, serial, kind)
            q, names = s.queries(probes)
            res.append("%s;%s;%s" % (",".join(outs) if outs else "-", q, names))
    except (Broken, IOError, OSError, ValueError, IndexError, KeyError, AttributeError, UnicodeError) as e:
        err = "%s: %s" % (type(e).__name__, e)
    rc, stderr = s.close()
    bad = None
    if rc not in (0, -15) or "ERROR: AddressSanitizer" in stderr or "runtime error:" in stderr or "assertion failed" in stderr.lower():
        bad = "daemon exit status %s\n%s" % (rc, stderr[-3000:])
    return res, {hx(u): i for i, u in s.unique.items()}, err, bad


# ---- raw -> abstract vocabulary (unique names as connection indices) ------------------------------
def _key(h, names):
    return "U%d" % names[h] if h in names else "S" + h


def _who(h, names):
    if h == BUS_HEX:
        return "B"
    return "c%d" % names[h] if h in names else "?" + h


def _optc(h, names):
    if h == "-":
        return "-"
    return str(names[h]) if h in names else "?" + h


def _canon_tok(t, names):
    meta = ""
    if t.endswith("!meta"):
        t, meta = t[:-5], "!meta"
    kind, _, rest = t.partition(":")
    if kind == "hello":
        return "hello:%s" % (names.get(rest, "?" + rest),) + meta
    if kind in ("acq", "lost"):
        return kind + ":" + _key(rest, names) + meta
    if kind == "noc":
        a, b, c = rest.split(":")
        return "noc:%s:%s:%s" % (_key(a, names), _optc(b, names), _optc(c, names)) + meta
    return t + meta


def canon_result(raw, names, keep=lambda probe: probe[0] in "US"):
    """one raw result line -> the vocabulary of the registry model's `run` (probes selected by `keep` only)"""
    parts = raw.split(";")
    if len(parts) != 3:
        return raw
    o, q, n = parts
    if o != "-":
        o = ",".join(x.split(">", 1)[0] + ">" + _canon_tok(x.split(">", 1)[1], names) for x in o.split(","))
    if q != "-":
        qs = []
        for item in q.split(","):
            p, _, ans = item.partition("=")
            if not keep(p):
                continue
            owner, has, queued = ans.split("/")
            owner = "-" if owner == "e:NameHasNoOwner" else _who(owner[1:], names) if owner.startswith("s") else "?" + owner
            if queued == "e:NameHasNoOwner":
                queued = "-"
            elif queued != "empty" and not queued.startswith(("e:", "?")):
                queued = "+".join(_who(x, names) for x in queued.split("+"))
            qs.append("%s=%s/%s/%s" % (p, owner, has, queued))
        q = ",".join(qs) if qs else "-"
    if n != "-" and not n.startswith(("e:", "?")):
        n = "+".join(sorted("B" if x == BUS_HEX else _key(x, names) for x in n.split("+")))
    return o + ";" + q + ";" + n


def raw_result(raw, keep=lambda probe: probe[0] == "x"):
    """one raw result line restricted to the raw-string probes (what `drun` prints)"""
    parts = raw.split(";")
    if len(parts) != 3:
        return raw
    o, q, n = parts
    if q != "-":
        qs = [item for item in q.split(",") if keep(item.partition("=")[0])]
        q = ",".join(qs) if qs else "-"
    return o + ";" + q + ";" + n


def worker(job):
    """job = (daemon_exe, limit, rules, probes list, events list); for multiprocessing pools"""
    return run_history(*job)


if __name__ == "__main__":
    # manual replay:  registry_run.py <daemon> <limit> <rules|-> <probes|-> <event> ...
    exe, limit, rules, probes = sys.argv[1], int(sys.argv[2]), sys.argv[3], sys.argv[4]
    r, names, e, b = run_history(exe, limit, rules, [] if probes == "-" else probes.split(","), sys.argv[5:])
    for ev, line in zip(sys.argv[5:], r):
        print(ev, "->", line)
        print("   abstract:", canon_result(line, names))
    if e:
        print("ERROR", e)
    if b:
        print("DAEMON", b)
