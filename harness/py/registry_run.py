"""C04 implementation side: replays one history of Connect / Hello / AddMatch /
RequestName / ReleaseName / Disconnect events against a fresh dbus-daemon (the
ASan build of /repo's working tree) with raw-wire clients, and reports, per
event, exactly what the model driver (ml/registry/driver.ml) reports:

    <outs>;<queries>;<names>

  outs     every message each connection received because of the event, per
           socket in arrival order:  <conn>><msg>,...   (grouped by connection)
  queries  for each probe GetNameOwner / NameHasOwner / ListQueuedOwners as seen
           by connection 0 after the event
  names    ListNames as a sorted set

Unique names are mapped to connection indices.  Synchronisation is by round
trips only (no sleeps): after an event every live connection does a GetId round
trip, so everything the bus queued for it before has arrived; after a
disconnection connection 0 polls NameHasOwner(<unique name>) until it is gone.
Connection 0 must be the first connection and must never disconnect (it is the
control connection for queries); the generators guarantee that."""
import os, sys
sys.path.insert(0, os.path.dirname(os.path.abspath(__file__)))
import rawbus
from rawbus import METHOD_RETURN, ERROR, SIGNAL, F_REPLY_SERIAL, F_SENDER, F_PATH, F_INTERFACE, F_MEMBER, F_DESTINATION, F_ERROR_NAME

BUS = "org.freedesktop.DBus"
MATCH_RULE = "type='signal',sender='org.freedesktop.DBus',interface='org.freedesktop.DBus',member='NameOwnerChanged'"
ERR_PREFIX = "org.freedesktop.DBus.Error."
TIMEOUT = 60.0     # generous: a loaded machine must not turn into a false alarm; nothing waits this long normally


class Broken(Exception):
    pass


class Session:
    def __init__(self, daemon_exe, limit):
        limits = '<limit name="max_names_per_connection">%d</limit>' % limit
        self.d = rawbus.Daemon(daemon_exe, limits=limits)
        self.clients = []          # index -> RawConn or None (closed)
        self.unique = {}           # index -> unique name string (once Hello succeeded)
        self.by_name = {}          # unique name string -> index

    # ---- canonical text ----------------------------------------------------
    def key(self, s):
        if s in self.by_name:
            return "U%d" % self.by_name[s]
        b = s.encode("utf-8")
        return "S" + (b.hex() if b else "-")

    def who(self, s):
        if s == BUS:
            return "B"
        if s in self.by_name:
            return "c%d" % self.by_name[s]
        return "?" + s

    def optc(self, s):
        if s == "":
            return "-"
        if s in self.by_name:
            return str(self.by_name[s])
        return "?" + s

    def canon_msg(self, idx, m, op_serial, op_kind):
        """one received message -> model vocabulary"""
        f = m.fields
        if m.mtype in (METHOD_RETURN, ERROR):
            if f.get(F_REPLY_SERIAL) != op_serial:
                return "stray-reply:%r" % (m,)
            dest = f.get(F_DESTINATION)
            meta = "" if f.get(F_SENDER) == BUS and (dest is None or idx not in self.unique or dest == self.unique[idx]) else "!meta"
            if m.mtype == ERROR:
                n = f.get(F_ERROR_NAME, "")
                return "err:" + (n[len(ERR_PREFIX):] if n.startswith(ERR_PREFIX) else n) + meta
            if op_kind == "H":
                if m.sig != "s":
                    return "badreply:%r" % (m,)
                return "hello:%s" % (self.by_name.get(m.body[0], "?" + m.body[0]),) + meta
            if op_kind in ("R", "L"):
                if m.sig != "u":
                    return "badreply:%r" % (m,)
                return "reply:%d" % m.body[0] + meta
            if op_kind == "M":
                return ("ack" if m.sig == "" else "badreply:%r" % (m,)) + meta
            return "stray-reply:%r" % (m,)
        if m.mtype == SIGNAL:
            ok = f.get(F_SENDER) == BUS and f.get(F_PATH) == "/org/freedesktop/DBus" and f.get(F_INTERFACE) == BUS
            mem = f.get(F_MEMBER)
            if mem in ("NameAcquired", "NameLost") and m.sig == "s":
                ok = ok and f.get(F_DESTINATION) == self.unique.get(idx)
                return ("acq:" if mem == "NameAcquired" else "lost:") + self.key(m.body[0]) + ("" if ok else "!meta")
            if mem == "NameOwnerChanged" and m.sig == "sss":
                ok = ok and F_DESTINATION not in f
                return "noc:%s:%s:%s" % (self.key(m.body[0]), self.optc(m.body[1]), self.optc(m.body[2])) + ("" if ok else "!meta")
        return "other:%r" % (m,)

    # ---- plumbing ------------------------------------------------------------
    def connect(self):
        """rawbus.Daemon returns as soon as the socket file exists, which is after bind() but possibly
        before listen(): retry a refused connection while the daemon is starting"""
        import time
        t_end = time.time() + 10
        while True:
            try:
                return self.d.connect(timeout=TIMEOUT)
            except (ConnectionRefusedError, FileNotFoundError):
                if time.time() > t_end or not self.d.alive():
                    raise
                time.sleep(0.002)

    def live(self):
        return [(i, c) for i, c in enumerate(self.clients) if c is not None]

    def call(self, c, member, sig="", body=()):
        r = c.call(member, sig, body, timeout=TIMEOUT)
        if r is None:
            raise Broken("no reply to %s (daemon alive: %s)" % (member, self.d.alive()))
        return r

    def collect(self, actor, op_serial, op_kind):
        """barrier every live connection, then canonicalise what each one got"""
        outs = []
        for i, c in self.live():
            if c.barrier(timeout=TIMEOUT) is None:
                raise Broken("connection %d: no reply to the barrier (closed by the bus: %s)" % (i, c.closed))
            for m in c.inbox:
                outs.append("%d>%s" % (i, self.canon_msg(i, m, op_serial if i == actor else None, op_kind)))
            c.inbox = []
        return outs

    def probe_name(self, p):
        if p[0] == "U":
            i = int(p[1:])
            return self.unique.get(i, ":0.%d" % i)      # ":0.N" is never assigned by the bus
        return bytes.fromhex("" if p[1:] == "-" else p[1:]).decode("utf-8")

    def queries(self, probes):
        if not self.clients or self.clients[0] is None or 0 not in self.unique:
            return "-", "-"
        c0 = self.clients[0]
        qs = []
        for p in probes:
            name = self.probe_name(p)
            r = self.call(c0, "GetNameOwner", "s", (name,))
            if r.mtype == METHOD_RETURN and r.sig == "s":
                owner = self.who(r.body[0])
            elif r.mtype == ERROR and r.fields.get(F_ERROR_NAME) == ERR_PREFIX + "NameHasNoOwner":
                owner = "-"
            else:
                owner = "?%r" % (r,)
            r = self.call(c0, "NameHasOwner", "s", (name,))
            has = ("1" if r.body[0] else "0") if (r.mtype == METHOD_RETURN and r.sig == "b") else "?%r" % (r,)
            r = self.call(c0, "ListQueuedOwners", "s", (name,))
            if r.mtype == METHOD_RETURN and r.sig == "as":
                queued = "+".join(self.who(x) for x in r.body[0]) if r.body[0] else "empty"
            elif r.mtype == ERROR and r.fields.get(F_ERROR_NAME) == ERR_PREFIX + "NameHasNoOwner":
                queued = "-"
            else:
                queued = "?%r" % (r,)
            qs.append("%s=%s/%s/%s" % (p, owner, has, queued))
        r = self.call(c0, "ListNames")
        if r.mtype == METHOD_RETURN and r.sig == "as":
            names = "+".join(sorted("B" if x == BUS else self.key(x) for x in r.body[0]))
        else:
            names = "?%r" % (r,)
        return (",".join(qs) if qs else "-"), names

    # ---- one event --------------------------------------------------------------
    def event(self, ev):
        kind, body = ev[0], ev[1:]
        actor, serial = None, None
        if kind == "C":
            self.clients.append(self.connect())
        elif kind == "D":
            actor = int(body.split(":")[0])
            c = self.clients[actor]
            c.close()
            self.clients[actor] = None
            if actor in self.unique and self.clients and self.clients[0] is not None and 0 in self.unique:
                for _ in range(100000):
                    r = self.call(self.clients[0], "NameHasOwner", "s", (self.unique[actor],))
                    if r.mtype == METHOD_RETURN and not r.body[0]:
                        break
                else:
                    raise Broken("the bus never noticed that connection %d went away" % actor)
            actor = None
        else:
            return self.call_event(ev)
        return actor, serial, kind

    def call_event(self, ev):
        """a method call by one connection; the reply is left in place in its inbox"""
        kind, body = ev[0], ev[1:]
        parts = body.split(",")
        actor = int(parts[0])
        c = self.clients[actor]
        hdr = {rawbus.F_PATH: "/org/freedesktop/DBus", rawbus.F_INTERFACE: BUS, rawbus.F_DESTINATION: BUS}
        if kind == "H":
            hdr[rawbus.F_MEMBER] = "Hello"
            m = rawbus.Msg(rawbus.METHOD_CALL, 0, c.next_serial(), hdr)
        elif kind == "M":
            hdr[rawbus.F_MEMBER] = "AddMatch"
            m = rawbus.Msg(rawbus.METHOD_CALL, 0, c.next_serial(), hdr, "s", (MATCH_RULE,))
        elif kind == "R":
            hdr[rawbus.F_MEMBER] = "RequestName"
            name = bytes.fromhex("" if parts[1] == "-" else parts[1]).decode("utf-8")
            m = rawbus.Msg(rawbus.METHOD_CALL, 0, c.next_serial(), hdr, "su", (name, int(parts[2])))
        elif kind == "L":
            hdr[rawbus.F_MEMBER] = "ReleaseName"
            name = bytes.fromhex("" if parts[1] == "-" else parts[1]).decode("utf-8")
            m = rawbus.Msg(rawbus.METHOD_CALL, 0, c.next_serial(), hdr, "s", (name,))
        else:
            raise Broken("bad event " + ev)
        serial = c.send(m)
        r = _wait_reply_keep_position(c, serial)
        if r is None:
            raise Broken("no reply to %s (connection closed by the bus: %s, daemon alive: %s)" % (ev, c.closed, self.d.alive()))
        if kind == "H" and r.mtype == METHOD_RETURN and r.sig == "s":
            self.unique[actor] = r.body[0]
            self.by_name[r.body[0]] = actor
        return actor, serial, kind

    def close(self):
        for i, c in self.live():
            c.close()
        return self.d.stop()


def _wait_reply_keep_position(conn, serial, timeout=None):
    """like RawConn.wait_reply, but leaves the reply in the inbox (so that its position relative
    to the signals on the same socket stays observable) and returns it"""
    import time
    t_end = time.time() + (TIMEOUT if timeout is None else timeout)
    while True:
        for m in conn.inbox:
            if m.fields.get(F_REPLY_SERIAL) == serial and m.mtype in (METHOD_RETURN, ERROR):
                return m
        if conn.closed or time.time() > t_end:
            return None
        conn._pump(max(0.0, min(0.5, t_end - time.time())))


def run_history(daemon_exe, limit, probes, events):
    """returns (list of per-event result strings, error text or None, daemon stderr or None)"""
    s = Session(daemon_exe, limit)
    res, err = [], None
    try:
        for ev in events:
            actor, serial, kind = s.event(ev)
            outs = s.collect(actor, serial, kind)
            q, names = s.queries(probes)
            res.append("%s;%s;%s" % (",".join(outs) if outs else "-", q, names))
    except (Broken, IOError, OSError, ValueError, IndexError, KeyError, AttributeError, UnicodeError) as e:
        err = "%s: %s" % (type(e).__name__, e)
    rc, stderr = s.close()
    bad = None
    if rc not in (0, -15) or "ERROR: AddressSanitizer" in stderr or "runtime error:" in stderr or "assertion failed" in stderr.lower():
        bad = "daemon exit status %s\n%s" % (rc, stderr[-3000:])
    return res, err, bad




def worker(job):
    """job = (daemon_exe, limit, probes list, events list); for multiprocessing pools"""
    return run_history(*job)


if __name__ == "__main__":
    # manual replay:  registry_run.py <daemon> <limit> <probes|-> <event> ...
    exe, limit, probes = sys.argv[1], int(sys.argv[2]), sys.argv[3]
    r, e, b = run_history(exe, limit, [] if probes == "-" else probes.split(","), sys.argv[4:])
    for ev, line in zip(sys.argv[4:], r):
        print(ev, "->", line)
    if e:
        print("ERROR", e)
    if b:
        print("DAEMON", b)
