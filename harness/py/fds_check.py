"""Comparison logic for C15: extracted model vs dbus-daemon on the same histories, plus the
specification oracle evaluated on what the daemon was observed to do."""
import concurrent.futures, glob, json, os, sys
sys.path.insert(0, os.path.dirname(os.path.abspath(__file__)))
sys.path.insert(0, os.path.join(os.path.dirname(os.path.abspath(__file__)), "..", "..", "tools"))
import vlib
import fds_impl, fds_msg


def cfg_str(cfg):
    return "%d %d %d %d" % tuple(cfg)


def run_model(exe, cases, cmd="hist"):
    lines = ["%s %s %s" % (cmd, cfg_str(cfg), " ".join(ev)) for _, cfg, ev in cases]
    res, crashes = vlib.run_lines(exe, lines, shards=min(vlib.NPROC, max(1, len(lines) // 40)))
    return [r.split() for r in res], crashes


def clean(exe, cases):
    """drop events the model calls ill-formed (writes on connections the daemon has already closed, ...)"""
    cases = [(n, c, list(ev)) for n, c, ev in cases]
    removed = 0
    todo = list(range(len(cases)))
    for _ in range(60):
        if not todo:
            break
        toks, _ = run_model(exe, [cases[i] for i in todo])
        nxt = []
        for i, t in zip(todo, toks):
            n, c, ev = cases[i]
            if "!!" in t:
                raise RuntimeError("model set its fault flag on a well-formed event: %s %s -> %s" % (c, " ".join(ev)[:2000], " ".join(t)))
            if "!" in t:
                del ev[t.index("!")]
                removed += 1
                nxt.append(i)
        todo = nxt
    return cases, removed


def canon(tok):
    """order the outputs of one step by recipient (stable), the model emits them in dispatch order"""
    if tok == "!" or tok.startswith("end/"):
        return tok
    outs, gone, held = tok.split("/")
    if outs != "-":
        items = outs.split("+")
        items.sort(key=lambda x: int(x.split(":")[0]))
        outs = "+".join(items)
    if gone != "-":
        gone = ",".join(str(x) for x in sorted(int(g) for g in gone.split(",")))
    return "%s/%s/%s" % (outs, gone, held)


def run_impl(daemon, cases, nproc=None):
    nproc = nproc or min(8, os.cpu_count() or 4)
    groups = {}
    for i, (name, cfg, ev) in enumerate(cases):
        groups.setdefault(tuple(cfg), []).append((i, ev))
    chunks = []
    for cfg, hs in groups.items():
        timed = any(e[0] == "T" for _, ev in hs for e in ev)
        size = 3 if timed else max(8, min(40, len(hs) // nproc + 1))
        for j in range(0, len(hs), size):
            chunks.append((daemon, cfg, hs[j:j + size]))
    chunks.sort(key=lambda c: -sum(int(e[2:]) for h in c[2] for e in h[1] if e[0] == "T"))
    out = [None] * len(cases)
    bad = []
    with concurrent.futures.ProcessPoolExecutor(max_workers=nproc) as ex:
        for (res, (rc, err)), ch in zip(ex.map(fds_impl.run_chunk, chunks), chunks):
            for idx, toks, notes in res:
                out[idx] = (toks, notes)
            if rc != 0 or "Sanitizer" in err or "runtime error" in err or "assertion failed" in err.lower():
                bad.append((ch[1], rc, err, [h[1] for h in ch[2]]))
    return out, bad


# ------------------------------------------------------------------ specification oracle on an observed trace
def parse_events(events):
    """static facts of a history: per connection negotiation flag, descriptors attached per connection in order, announced count per token"""
    neg, sent, announced, nconn = {}, {}, {}, 0
    for e in events:
        if e[0] == "C":
            neg[nconn] = e[1] == "1"
            sent[nconn] = []
            nconn += 1
        elif e[0] == "W":
            _, c, ps, fl = e.split(".")
            for p in ([] if ps == "-" else ps.split(",")):
                if p[0] == "H":
                    d = fds_msg.parse_desc(p)
                    announced[d["token"]] = d["nfds"]
            if fl != "-":
                sent.setdefault(int(c), []).extend(fl.split(","))
    return neg, sent, announced


def is_subseq(a, b):
    it = iter(b)
    return all(any(x == y for y in it) for x in a)


def oracle(cfg, events, toks, notes):
    """property C15 read on the daemon's observable behaviour; returns a list of (step, text)"""
    bad = []
    neg, sent, announced = parse_events(events)
    maxfds, tmo = cfg[0], cfg[1]
    live = set()
    nconn = 0
    delivered = {}       # sender -> list of (token, fds) in order of first delivery
    seen_tok = {}
    waited = None        # ms of ticks since descriptors have been pending continuously on the only negotiated connection
    for k, (e, t) in enumerate(zip(events, toks)):
        if e[0] == "C":
            live.add(nconn)
            nconn += 1
        elif e[0] == "D":
            live.discard(int(e[2:]))
        if t == "!" or t.count("/") != 2:
            continue
        outs, gone, held = t.split("/")
        for g in ([] if gone == "-" else gone.split(",")):
            live.discard(int(g))
        held = int(held)
        for o in ([] if outs == "-" else outs.split("+")):
            r, body = o.split(":", 1)
            f = body.split(".")
            if f[0] != "M":
                continue
            snd, tok, fl = f[1], int(f[2]), ([] if f[3] == "-" else f[3].split(","))
            if "?" in fl:
                bad.append((k, "a delivered descriptor is not one of the open files the sender attached (token %d: %s)" % (tok, fl)))
            if len(fl) != announced.get(tok, -1):
                bad.append((k, "message %d announced %s descriptors and arrived with %d" % (tok, announced.get(tok), len(fl))))
            if fl and not neg.get(int(r), False):
                bad.append((k, "descriptors delivered to connection %s, which did not negotiate descriptor passing" % r))
            if tok in seen_tok:
                if seen_tok[tok] != fl:
                    bad.append((k, "message %d reached two recipients with different descriptors" % tok))
            else:
                seen_tok[tok] = fl
                if snd != "?":
                    delivered.setdefault(int(snd), []).append((tok, fl))
        # a message does not vanish: a write that is one whole, valid message with a destination, from a sender that stays
        # connected, has an outcome in this step (delivery, error reply or driver reply); if it carries descriptors for a
        # connection that cannot receive them, the outcome is an error
        if e[0] == "W":
            _, c, ps, fl = e.split(".")
            if ps.startswith("H:") and "," not in ps and int(c) in live:
                d = fds_msg.parse_desc(ps)
                if int(ps.split(":")[8]) == d["len"] and d["fixed_ok"] and d["valid"] and d["dest"] != "b":
                    items = [] if outs == "-" else outs.split("+")
                    mine = [o for o in items if o.split(":", 1)[1].split(".")[0] in ("M", "E", "D")
                            and o.split(":", 1)[1].split(".")[{"M": 2, "E": 2, "D": 1}[o.split(":", 1)[1].split(".")[0]]] == str(d["token"])]
                    if not mine:
                        bad.append((k, "message %d was neither delivered nor answered, and its sender was not disconnected" % d["token"]))
                    elif (d["nfds"] > 0 and d["dest"][0] == "u" and d["dest"] != "u" + c and int(d["dest"][1:]) in live
                          and not neg.get(int(d["dest"][1:]), True)
                          and not any(o in ("%s:E.NotSupported.%d" % (c, d["token"]), "%s:E.AccessDenied.%d" % (c, d["token"])) for o in items)):
                        bad.append((k, "message %d with descriptors for connection %s, which cannot receive them, was neither refused "
                                       "with an error nor was its sender disconnected" % (d["token"], d["dest"][1:])))
        nneg = len([c for c in live if neg.get(c)])
        if held < 0 or held > maxfds * nneg:
            bad.append((k, "daemon holds %d descriptors with %d live negotiated connections (limit %d each)" % (held, nneg, maxfds)))
        # surplus descriptors are held "within the pending-descriptor timeout": with a single negotiated connection alive,
        # a non-zero count at every step means the same connection has had descriptors pending all along
        if nneg == 1 and held > 0:
            waited = (waited if waited is not None else 0) + (int(e[2:]) if e[0] == "T" and waited is not None else 0)
            if waited >= tmo:
                bad.append((k, "descriptors have been pending on one connection for %d ms of idle time, pending_fd_timeout is %d" % (waited, tmo)))
        else:
            waited = None
        if e[0] == "T" and int(e[2:]) >= tmo and held != 0:
            bad.append((k, "%d descriptors still pending after %s ms (pending_fd_timeout %d)" % (held, e[2:], tmo)))
    for s, tl in delivered.items():
        # a connection's messages are processed in the order it wrote them (tokens grow along each sender's stream)
        fl = [f for _, l in sorted(tl) for f in l]
        if len(set(fl)) != len(fl):
            bad.append((len(events) - 1, "a descriptor of connection %d was delivered in two different messages" % s))
        elif not is_subseq(fl, sent.get(s, [])):
            bad.append((len(events) - 1, "descriptors of connection %d delivered out of order or not sent by it: %s vs sent %s" % (s, fl, sent.get(s))))
    if toks and toks[-1].startswith("end/"):
        _, before, after = toks[-1].split("/")
        if int(after) != 0:
            bad.append((len(events), "after every connection was closed the daemon has %s descriptors more than its baseline" % after))
        if int(before) != 0:
            bad.append((-1, "daemon was %s descriptors away from its baseline when the history started" % before))
    for x in notes.get("id_bad", []):
        bad.append(tuple(x) if isinstance(x, (tuple, list)) else (len(events), x))
    bad.sort(key=lambda b: (b[0] if b[0] >= 0 else len(events) + 1))
    return bad


def classify(events, mtoks):
    """coverage classes of one history (from the model's view)"""
    cl = set()
    for e, t in zip(events, mtoks):
        if t == "!" or t.count("/") != 2:
            continue
        outs, gone, held = t.split("/")
        if e[0] == "W":
            if gone != "-":
                cl.add("sender-disconnected-by-bus")
            for o in ([] if outs == "-" else outs.split("+")):
                f = o.split(":", 1)[1].split(".")
                if f[0] == "M":
                    cl.add("delivered-with-fds" if f[3] != "-" else "delivered-plain")
                elif f[0] == "E":
                    cl.add("error-" + f[1])
                else:
                    cl.add("driver-reply")
            if int(held) > 0:
                cl.add("descriptors-held")
            if ",P:" in e or ".P:" in e:
                cl.add("continued-message")
        elif e[0] == "T" and gone != "-":
            cl.add("pending-timeout-fired")
        elif e[0] == "D" and int(held) >= 0:
            cl.add("disconnect")
    return cl


def load_corpus(prop_id="C15"):
    out = []
    for p in sorted(glob.glob(os.path.join(vlib.VERIF, "corpus", prop_id, "*.json"))):
        for c in json.load(open(p)):
            out.append((c["name"], tuple(c["cfg"]), list(c["events"])))
    return out


# ------------------------------------------------------------------ library side (harness/c/fds_h.c)
def lib_line(cfg, events):
    """the `run` line for fds_h: bytes of every write of connection 0, D when the peer closes"""
    toks = []
    cur = None
    neg = events[0][1]
    for e in events[2:]:
        if e[0] == "W":
            _, c, ps, fl = e.split(".")
            data = b""
            for p in ([] if ps == "-" else ps.split(",")):
                if p[0] == "H":
                    d = fds_msg.parse_desc(p)
                    n = int(p.split(":")[8])
                    raw = fds_msg.build(d)
                    data += raw[:n]
                    cur = [raw, n]
                else:
                    n = int(p.split(":")[1])
                    data += cur[0][cur[1]:cur[1] + n]
                    cur[1] += n
            toks.append("W:%s:%s" % (data.hex() or "-", fl))
        elif e == "D.0":
            toks.append("D")
    return "run %d %d %s %s" % (cfg[0], fds_msg.MAX_MESSAGE_SIZE, neg, " ".join(toks))


def lib_canon_model(events, mtoks):
    """model tokens of the steps the library harness sees, in its vocabulary"""
    out = []
    for e, t in zip(events[2:], mtoks[2:]):
        if e == "D.1":
            continue
        if t == "!" or t.count("/") != 2:
            out.append(t)
            continue
        outs, gone, held = t.split("/")
        items = []
        for o in ([] if outs == "-" else outs.split("+")):
            r, body = o.split(":", 1)
            f = body.split(".")
            items.append("M.%s.%s" % (f[2], f[3]) if f[0] == "M" else "?" + o)
        out.append("%s/%s/%s" % ("+".join(items) if items else "-", "x" if gone == "0" else "-", held))
    return out + ["end/0"]


def lib_oracle(cfg, events, toks):
    """C15 on what the library was observed to do"""
    bad = []
    neg, sent, announced = parse_events(events)
    got = []
    for k, t in enumerate(toks):
        if "!fdcount" in t:
            bad.append((k, "the process holds a different number of open descriptors than the connection reports as pending (%s)" % t))
        if t.startswith("end/"):
            if t != "end/0":
                bad.append((k, "after the connection was closed and released the process has %s descriptors more than before" % t[4:]))
            continue
        if t.count("/") != 2:
            continue
        outs, gone, held = t.split("/")
        held = int(held.replace("!fdcount", ""))
        if held > cfg[0] or (held and not neg.get(0)):
            bad.append((k, "%d descriptors pending (limit %d, negotiated: %s)" % (held, cfg[0], neg.get(0))))
        for o in ([] if outs == "-" else outs.split("+")):
            f = o.split(".")
            if f[0] != "M" or len(f) != 3:
                continue
            fl = [] if f[2] == "-" else f[2].split(",")
            if "?" in fl:
                bad.append((k, "message %s carries a descriptor that is not one of the open files the peer attached" % f[1]))
            if len(fl) != announced.get(int(f[1]), -1):
                bad.append((k, "message %s announced %s descriptors and arrived with %d" % (f[1], announced.get(int(f[1])), len(fl))))
            if fl and not neg.get(0):
                bad.append((k, "descriptors accepted on a connection that did not negotiate descriptor passing"))
            got.extend(fl)
    if len(set(got)) != len(got) or not is_subseq(got, sent.get(0, [])):
        bad.append((len(toks) - 1, "descriptors handed to the application out of order, twice, or not sent by the peer: %s vs sent %s" % (got, sent.get(0))))
    return bad


# ------------------------------------------------------------------ message API (harness/c/fds_h.c `api`, model ml `api`)
def api_oracle(ops, toks):
    """C15 on the library's message API, read on what libdbus was observed to do: a message holds one descriptor per
    successful append, for the appended open files in order (copies: the same files); reading hands out descriptors for
    those files; the process holds exactly the descriptors of the live messages; nothing is left after the last unref"""
    bad = []
    files = {}       # handle -> list of file ids
    appfile = []     # file id of every descriptor the application acquired, in order
    nopen = 0
    for k, (op, t) in enumerate(zip(ops, toks)):
        if "/" not in t:
            bad.append((k, "no result for %s: %s" % (op, t)))
            break
        res, held = t.rsplit("/", 1)
        f = op.split(".")
        if f[0] == "O":
            nopen += 1
            appfile.append(str(nopen))
        elif f[0] == "N":
            files[f[1]] = []
        elif f[0] == "A":
            if res == "1":
                files[f[1]].append(appfile[int(f[2])])
            elif f[3] == "1":
                bad.append((k, "append_basic failed although the descriptor could be duplicated"))
        elif f[0] == "C":
            if res == "1":
                files[f[2]] = list(files[f[1]])
        elif f[0] == "G":
            if res != "-":
                if res != files[f[1]][int(f[2])]:
                    bad.append((k, "get_basic returned a descriptor for file %s, the message holds %s there" % (res, files[f[1]][int(f[2])])))
                appfile.append(res)
        elif f[0] == "R":
            if res not in ("-", "."):
                got = res.split(",")
                if got != files[f[1]][:int(f[2])]:
                    bad.append((k, "get_args handed out descriptors for files %s, the message holds %s" % (got, files[f[1]][:int(f[2])])))
                appfile.extend(got)
        elif f[0] == "V":
            want = ",".join(files[f[1]]) or "-"
            if res != want:
                bad.append((k, "message %s holds descriptors for files %s at its last unref, appended were %s" % (f[1], res, want)))
            del files[f[1]]
        expect = sum(len(v) for v in files.values())
        if int(held) != expect:
            bad.append((k, "after %s the library holds %s descriptors, its live messages account for %d" % (op, held, expect)))
            break
    if toks and toks[-1].startswith("end/") and toks[-1] != "end/0":
        bad.append((len(ops), "after every message was released the process has %s descriptors more than before" % toks[-1][4:]))
    return bad
