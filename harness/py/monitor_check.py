"""Verdict logic of the monitor check (tools/props/c18.py): canonicalisation of model / implementation
traces, the specification oracle evaluated on OBSERVED behaviour (independent of the model), and the
paired-run (with monitor / monitor simply left) comparison."""
import concurrent.futures, os, sys
sys.path.insert(0, os.path.dirname(os.path.abspath(__file__)))
sys.path.insert(0, os.path.join(os.path.dirname(os.path.abspath(__file__)), "..", "..", "tools"))
import vlib
import monitor_impl as mi
import monitor_gen as mg


# ----------------------------------------------------------------------------- model side
def run_model(exe, hists):
    lines = ["hist " + " ".join(h) for h in hists]
    res, crashes = vlib.run_lines(exe, lines)
    return [r.split(" ") for r in res], crashes


def model_step(tok):
    """model step token -> ({conn: [msg tokens]}, {closed conns}, {conn: [kinds]}) or None for '!'"""
    if tok == "!":
        return None
    per, closed, kinds = {}, set(), {}
    if tok != "-":
        for x in tok.split("+"):
            p = x.split(":")
            if p[1] == "X":
                closed.add(int(p[0]))
            else:
                per.setdefault(int(p[0]), []).append(p[2])
                kinds.setdefault(int(p[0]), []).append(p[1])
    return per, closed, kinds


def model_final(tok):
    own = tok[1:].split(";")[0][4:]
    order, q = [], {}
    for x in (own.split(",") if own else []):
        n, c = x.split("@")
        if n not in q:
            q[n] = []
            order.append(n)
        q[n].append(c)
    names = sorted(order, key=lambda n: (0 if n[0] == "u" else 1, int(n[1:])))
    return ",".join("%s@%s" % (n, ">".join(q[n])) for n in names)


def impl_step_str(st, cl):
    if st is None:
        return "!"
    out = ["%d:%s" % (k, t) for k in sorted(st) for t in st[k]] + ["%d:X" % k for k in sorted(cl)]
    return "+".join(out) if out else "-"


def model_step_str(ms):
    if ms is None:
        return "!"
    per, closed, _ = ms
    out = ["%d:%s" % (k, t) for k in sorted(per) for t in per[k]] + ["%d:X" % k for k in sorted(closed)]
    return "+".join(out) if out else "-"


# ----------------------------------------------------------------------------- implementation side
def run_impl(daemon, hists, nproc=None):
    nproc = nproc or min(16, os.cpu_count() or 4)
    size = max(4, min(40, len(hists) // (nproc * 2) + 1))
    idx = list(enumerate(hists))
    chunks = [(daemon, idx[j:j + size]) for j in range(0, len(idx), size)]
    out = [None] * len(hists)
    bad = []
    with concurrent.futures.ProcessPoolExecutor(max_workers=nproc) as ex:
        for (res, (rc, err)), ch in zip(ex.map(mi.run_chunk, chunks), chunks):
            for i, r, notes in res:
                out[i] = (r, notes)
            if rc != 0 or "Sanitizer" in err or "runtime error" in err or "assertion failed" in err.lower():
                bad.append((rc, err, [h for _, h in ch[1]]))
    return out, bad


# ----------------------------------------------------------------------------- specification oracle
# Written from the D-Bus specification (message bus: match rules, BecomeMonitor) on tokens of observed
# messages; deliberately not sharing code with the model.
def parse_tok(t):
    ty, sender, dest, iface, member, serial, rserial, err, flags, args = t.split("/")
    return {"type": ty, "sender": sender, "dest": dest, "iface": int(iface), "member": int(member), "serial": int(serial),
            "rserial": int(rserial), "err": int(err), "flags": int(flags), "args": args}


def rule_accepts(rule, msg, sender_conn, addressed_conn, primary):
    """monitor rule (always eavesdropping).  primary: name token -> connection id of its primary owner"""
    if rule.startswith("!"):
        return False
    t, sd, d, i, m = rule.split("/")
    if t != "-" and t != msg["type"]:
        return False
    if i != "-" and (msg["iface"] == 0 or int(i) != msg["iface"]):
        return False
    if m != "-" and (msg["member"] == 0 or int(m) != msg["member"]):
        return False
    if sd != "-":
        if sender_conn is None:                    # the bus itself
            if sd != "d":
                return False
        elif sd == "d" or primary.get(sd) != sender_conn:
            return False
    if d != "-":
        if msg["dest"] == "-":
            return False
        if addressed_conn is None:                 # nobody is addressed (driver, or no owner): compare the names
            if d != msg["dest"]:
                return False
        elif d == "d" or primary.get(d) != addressed_conn:
            return False
    return True


def is_local(msg):
    """no DESTINATION and (interface Peer or not a signal): answered on the bus's side of the socket by libdbus itself"""
    return msg["dest"] == "-" and (msg["iface"] == 2 or msg["type"] != "s")


def apply_noc(primary, queues, tok):
    """track ownership from an observed NameOwnerChanged token"""
    a = parse_tok(tok)["args"].split(",")
    name, new = a[0], a[2]
    if new == "e":
        primary.pop(name, None)
    else:
        primary[name] = int(new[1:])


def oracle(events, res):
    """returns list of flags: dict(cls=..., step=..., what=...) found on the implementation's observed behaviour"""
    flags = []
    primary = {}
    filters = {}
    gone = set()
    dead_monitors = set()
    to_activatable = {}       # connection -> serials of the messages it sent to a name that has a service file
    held_tokens = {}          # token of such a message -> step at which it was sent
    shown = {}                # monitor -> tokens of such messages it has been shown
    unpriv = set()
    nconn = 0
    for i, ev in enumerate(events):
        st, closed, sent = res["steps"][i], res["closed"][i], res["sent"][i]
        if st is None:
            continue
        f = ev.split(".")
        mons_before = set(res["monitors"][i]) - gone
        before = dict(primary)
        for t in res["obs"][i]:
            if parse_tok(t)["member"] == 7:
                apply_noc(primary, None, t)
        after = dict(primary)
        actor = int(f[1]) if f[0] not in ("C", "Cu") else None
        if f[0] in ("C", "Cu"):
            actor = int(sent.split("/")[1][1:])
        if f[0] in ("C", "Cu"):
            if f[0] == "Cu":
                unpriv.add(nconn)
            nconn += 1
        if f[0] == "S" and f[3] in ("n%d" % k for k in mi.ACTIVATABLE):
            if int(f[6]) in to_activatable.get(int(f[1]), ()):
                held_tokens.pop(sent, None)          # serial reused: tokens may coincide legitimately
            else:
                held_tokens[sent] = i
            to_activatable.setdefault(int(f[1]), set()).add(int(f[6]))
        # --- processed messages the harness knows about
        processed = []        # (token, sender_conn, addressed_conn)
        if sent is not None and f[0] != "D" and actor not in mons_before:
            m = parse_tok(sent)
            addr = None
            if m["dest"] not in ("-", "d"):
                addr = before.get(m["dest"])
            processed.append((sent, actor, addr, m))
        seen_bus = set()
        for k, toks in st.items():
            if k in mons_before or (f[0] == "B" and k == actor):
                continue
            for t in toks:
                m = parse_tok(t)
                if m["sender"] in ("d", "x"):
                    seen_bus.add(t)
        for t in res["obs"][i]:
            seen_bus.add(t)
        for t in sorted(seen_bus):
            m = parse_tok(t)
            addr = int(m["dest"][1:]) if m["dest"].startswith("u") else None
            processed.append((t, None, addr, m))
        # --- sees_once / true sender / never addressee (counts)
        for x in sorted(mons_before):
            if x in closed and not (actor == x):
                flags.append({"cls": "monitor-closed-unexpectedly", "step": i, "what": "monitor %d read EOF although it sent nothing" % x})
            got = st.get(x, [])
            for t, sc, ac, m in processed:
                # a client's message is captured on entry (ownership as before the step); for bus-made messages the
                # moment within the step is not visible from outside: skip when ownership changes matter
                e1 = any(rule_accepts(r, m, sc, ac, before) for r in filters[x])
                e2 = e1 if sc is not None else any(rule_accepts(r, m, sc, ac, after) for r in filters[x])
                if e1 != e2:
                    continue
                n = got.count(t)
                if n != (1 if e1 else 0):
                    local = (sc is not None and is_local(m)) or m["sender"] == "x"
                    # every accepting rule names the unique name of a monitor that has left (such rules are collected by the bus)
                    acc = [r for r in filters[x] if rule_accepts(r, m, sc, ac, before)]
                    collected = bool(acc) and all(any(y in ("u%d" % k for k in dead_monitors) for y in r.split("/")[1:3]) for r in acc)
                    flags.append({"cls": ("unseen-local" if local and n == 0 else "rule-collected" if collected and n == 0 else "copies"), "step": i,
                                  "what": "monitor %d read %d copies of %s, expected %d" % (x, n, t, 1 if e1 else 0)})
            # a message held for activation is shown when it is received, not again when it is finally delivered
            for t in got:
                if t in held_tokens:
                    if t in shown.setdefault(x, set()) and held_tokens[t] != i:
                        flags.append({"cls": "held-copied-twice", "step": i,
                                      "what": "monitor %d is shown %s a second time (it was received at step %d)" % (x, t, held_tokens[t])})
                    shown[x].add(t)
            # never the addressee: nothing the bus itself originates is addressed to a monitor (copies of clients' messages
            # to its former unique name are undeliverable messages shown to it as observer, their SENDER is the client)
            for t in got:
                m = parse_tok(t)
                if m["sender"] == "d" and m["dest"] == "u%d" % x:
                    # the NoReply (callee left) or refusal (policy, at release) for a call of x that was still held for activation when x switched
                    held = m["type"] == "e" and m["rserial"] in to_activatable.get(x, ())
                    flags.append({"cls": "held-call-noreply" if held else "addressed-to-monitor", "step": i,
                                  "what": "monitor %d read a message the bus originated and addressed to the monitor itself: %s" % (x, t)})
            # a message read twice in one step (bus-made refusal errors are distinct messages with equal content)
            for t in set(got):
                if got.count(t) > 1 and parse_tok(t)["type"] != "e":
                    if not any(fl["step"] == i and t in fl["what"] for fl in flags):
                        flags.append({"cls": "copies", "step": i, "what": "monitor %d read %d copies of %s" % (x, got.count(t), t)})
        # --- send_closes
        if f[0] not in ("C", "Cu", "D") and actor in mons_before:
            m = parse_tok(sent)
            if actor not in closed:
                flags.append({"cls": "monitor-not-closed-local" if is_local(m) and m["iface"] == 2 else "monitor-not-closed", "step": i,
                              "what": "monitor %d sent %s and was not disconnected (read: %s)" % (actor, sent, st.get(actor))})
        # --- the switch itself
        if f[0] == "B" and actor not in mons_before:
            got = st.get(actor, [])
            acked = any(parse_tok(t)["type"] == "r" and parse_tok(t)["rserial"] == int(f[2]) for t in got)
            # BecomeMonitor is all or nothing (D-Bus specification, org.freedesktop.DBus.Monitoring): only a privileged caller,
            # flags must be 0, every rule must parse; a refused call leaves the caller an ordinary connection with one error
            rules = [] if f[3] == "-" else f[3].split(",")
            want_err = 1 if actor in unpriv else 7 if (len(f) > 5 and f[5] == "0") else 7 if (len(f) > 4 and f[4] != "0") else 8 if "!" in rules else 0
            errs = [parse_tok(t)["err"] for t in got if parse_tok(t)["type"] == "e" and parse_tok(t)["sender"] == "d" and parse_tok(t)["rserial"] == int(f[2])]
            if want_err and (acked or errs != [want_err] or len(got) != 1):
                flags.append({"cls": "switch-not-refused", "step": i,
                              "what": "BecomeMonitor by connection %d must be refused with error %d and nothing else; it read %s" % (actor, want_err, got)})
            if not want_err and not acked:
                flags.append({"cls": "switch-refused-wrongly", "step": i, "what": "a well-formed BecomeMonitor by privileged connection %d was not acknowledged: %s" % (actor, got)})
            if acked:
                filters[actor] = ["-/-/-/-/-"] if not rules else [r for r in rules if r != "!"] or ["!none"]
                # after the ack the only things the bus addresses to the new monitor are the NameLost signals of the switch;
                # in particular no error answering (or giving up on) one of its own calls
                k_ack = next(j for j, t in enumerate(got) if parse_tok(t)["type"] == "r" and parse_tok(t)["rserial"] == int(f[2]))
                for t in got[k_ack + 1:]:
                    m = parse_tok(t)
                    if m["sender"] == "d" and m["dest"] == "u%d" % actor and not (m["type"] == "s" and m["member"] == 8):
                        flags.append({"cls": "addressed-to-monitor", "step": i,
                                      "what": "connection %d, having become a monitor, read a message the bus originated and addressed to it: %s" % (actor, t)})
                for t in set(got):
                    if got.count(t) > 1 and parse_tok(t)["type"] == "s":
                        flags.append({"cls": "switch-duplicate", "step": i,
                                      "what": "connection %d read %d copies of %s while becoming a monitor" % (actor, got.count(t), t)})
        dead_monitors |= (closed & mons_before)
        if f[0] == "D" and int(f[1]) in mons_before:
            dead_monitors.add(int(f[1]))
        gone |= closed
        if f[0] == "D":
            gone.add(int(f[1]))
    # --- owns_nothing: the final probe
    ever_mon = set()
    for s in res["monitors"]:
        ever_mon |= s
    for k in filters:
        ever_mon.add(k)
    for x in (res.get("final") or "").split(","):
        if "@" in x:
            n, q = x.split("@")
            for c in q.split(">"):
                if c.isdigit() and int(c) in ever_mon:
                    flags.append({"cls": "monitor-owns", "step": len(events), "what": "monitor %s is in the owner queue of %s" % (c, n)})
    return flags


def compare_paired(evA, resA, evB, resB):
    """what every ordinary client read, with the monitor (A) and with the monitor simply gone (B)"""
    diffs = []
    switched = set()
    for i, (ea, eb) in enumerate(zip(evA, evB)):
        sa, sb = resA["steps"][i], resB["steps"][i]
        fa = ea.split(".")
        if ea != eb:
            switched.add(int(fa[1]))
        if sa is None and sb is None:
            continue
        sa, sb = sa or {}, sb or {}
        mons = set(resA["monitors"][i]) | switched
        for k in sorted((set(sa) | set(sb)) - mons):
            a, b = sa.get(k, []), sb.get(k, [])
            if ea != eb:
                same = sorted(a) == sorted(b)      # the switch releases names first-to-last, a disconnect last-to-first
            else:
                same = a == b
            if not same:
                # with the monitor the client reads more, and all of it are messages SENT BY a connection that is a monitor by now
                extra, rest = list(a), list(b)
                for t in b:
                    if t in extra:
                        extra.remove(t)
                        rest.remove(t)
                from_mon = bool(extra) and not rest and all(t.split("/")[1] in ("u%d" % x for x in mons) for t in extra)
                diffs.append({"step": i, "conn": k, "with_monitor": a, "without": b, "cls": "held-from-monitor" if from_mon else "differs"})
        for k in (resA["closed"][i] ^ resB["closed"][i]) - mons:
            diffs.append({"step": i, "conn": k, "with_monitor": "closed" if k in resA["closed"][i] else "open",
                          "without": "closed" if k in resB["closed"][i] else "open", "cls": "differs"})
    return diffs
