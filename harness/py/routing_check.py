"""Shared verdict logic of the routing checks (tools/props/c09.py, tools/props/c05.py):
run histories through the extracted model and the real daemon, diff the canonical step tokens,
evaluate the trace oracle (Spec/RoutingSpec.v oracle_step, extracted) on the OBSERVED behaviour."""
import concurrent.futures, glob, json, os, sys
sys.path.insert(0, os.path.dirname(os.path.abspath(__file__)))
sys.path.insert(0, os.path.join(os.path.dirname(os.path.abspath(__file__)), "..", "..", "tools"))
import vlib
import routing_impl as ri
import routing_gen as rg

CODE_TEXT = {
    "1": "a message carrying a reply serial reached a connection that has no open call to its sender",
    "2": "a send produced something other than exactly one forward of that message (plus at most one copy per eavesdropping connection, none extra for the addressed recipient) or one error to its sender",
    "3": "the message (or a copy of it) reached a connection that is neither the primary owner of its destination nor the holder of a matching eavesdrop rule",
    "4": "NoReply errors are not exactly one per open call ended by callee disconnect / timeout",
    "5": "an unrequested reply was refused with an error other than AccessDenied",
    "6": "a call was passed on although its sender already had max_replies_per_connection open calls",
    "7": "destination without owner not answered by NameHasNoOwner / ServiceUnknown",
    "8": "a message to an existing owner was refused without any documented reason (requested-reply rule, fds, outstanding serial, reply limit)",
    "9": "a connection was closed by the bus / unknown observation",
    "10": "messages held for an activation were not released to the new owner exactly once each and in arrival order per sender",
}
C09_CODES = {"1", "4", "5", "6", "8", "9"}
C05_CODES = {"2", "3", "4", "7", "8", "9", "10"}


def cfg_str(cfg):
    return "%d %d %d" % tuple(cfg[:3])


def is_sorted_step(ev):
    return ev[0] in "DT"


def canon_model(events, toks):
    return [ri.canon_model_token(t, is_sorted_step(e)) for e, t in zip(events, toks)]


def merge_tokens(a, b):
    items = parse_items(a) + parse_items(b)
    items.sort(key=lambda x: x[0])
    return "+".join("%d:%s" % x for x in items) if items else "-"


def hide_unobservable(name, events, mt):
    """'close-' histories: what the bus addresses to a connection that wrote a burst and closed at once cannot be read by
    anybody.  Returns (model tokens without those items, the removed items per step as tokens)."""
    vis, hid = list(mt), ["-"] * len(mt)
    if name.startswith("close-"):
        for i, j, k in ri.close_groups(events):
            for n in range(i, min(j, len(mt))):
                items = parse_items(mt[n])
                keep = [x for x in items if x[0] != k]
                gone = [x for x in items if x[0] == k]
                if mt[n] not in ("-", "!"):
                    vis[n] = "+".join("%d:%s" % x for x in keep) if keep else "-"
                    hid[n] = "+".join("%d:%s" % x for x in gone) if gone else "-"
    return vis, hid


def run_model(exe, cases):
    lines = ["hist %s %s" % (cfg_str(cfg), " ".join(ev)) for _, cfg, ev in cases]
    res, crashes = vlib.run_lines(exe, lines)
    return [r.split() for r in res], crashes


def run_oracle(exe, cases, traces):
    lines = ["oracle %s %s" % (cfg_str(cfg), " ".join("%s=%s" % (e, t) for e, t in zip(ev, tr)))
             for (_, cfg, ev), tr in zip(cases, traces)]
    res, crashes = vlib.run_lines(exe, lines)
    return [r.split() for r in res], crashes


def run_impl(daemon, cases, nproc=None):
    """returns list of (tokens|None, notes) aligned with cases, and a list of (cfg, rc, stderr) for unclean daemons"""
    nproc = nproc or min(16, os.cpu_count() or 4)
    groups = {}
    for i, (name, cfg, ev) in enumerate(cases):
        groups.setdefault(cfg, []).append((i, ev, "close" if name.startswith("close-") else name.startswith("pipe")))
    chunks = []
    for cfg, hs in groups.items():
        # timed histories are wall-clock bound: one or two per daemon so that they sleep concurrently
        size = (2 if len(hs) <= 4 * nproc else 6) if cfg[2] >= 0 else max(10, min(60, len(hs) // nproc + 1))
        for j in range(0, len(hs), size):
            chunks.append((daemon, cfg, hs[j:j + size]))
    # long (timed) chunks first
    chunks.sort(key=lambda c: -sum(int(e[2:]) for h in c[2] for e in h[1] if e[0] == "T"))
    out = [None] * len(cases)
    bad = []
    with concurrent.futures.ProcessPoolExecutor(max_workers=nproc) as ex:
        for (res, (rc, err)), ch in zip(ex.map(ri.run_chunk, chunks), chunks):
            for idx, toks, notes in res:
                out[idx] = (toks, notes)
            if rc != 0 or "Sanitizer" in err or "runtime error" in err or "assertion failed" in err.lower():
                bad.append((ch[1], rc, err, [h[1] for h in ch[2]]))
    return out, bad


def parse_items(tok):
    if tok in ("-", "!"):
        return []
    return [(int(x.split(":", 1)[0]), x.split(":", 1)[1]) for x in tok.split("+")]


def classify(events, toks, oracle):
    """outcome classes of one observed trace (for coverage) and F7 taint bookkeeping.
    oracle tokens for sends look like code@owner."""
    classes = []
    stale, consumed = [], []     # keys (getter, replier, serial)
    for e, t, oc in zip(events, toks, oracle):
        f = e.split(".")
        items = parse_items(t)
        if f[0] == "S":
            c, ty, nr, ser, rser, nfds = int(f[1]), f[2], f[3] == "1", int(f[5]), int(f[6]), int(f[8])
            owner = oc.split("@")[1] if "@" in oc else "x"
            d = items[0][1] if items and all(x[1].startswith("F.") for x in items) or len(items) == 1 else "?"
            classes.extend(["eavesdropped-copy"] * (len(items) - 1 if d.startswith("F.") else 0))
            if d.startswith("F."):
                if rser:
                    classes.append("reply-delivered" if ty in "re" else "call-or-signal-with-rserial-delivered")
                else:
                    classes.append({"c": "call-delivered-noreply" if nr else "call-delivered", "s": "signal-delivered"}.get(ty, "other-delivered"))
            elif d.startswith("E."):
                en = d.split(".")[1]
                if ty in "vuw":
                    classes.append("unknown-type-refused-with-outstanding-reply-serial" if rser else "unknown-type-refused")
                elif en == "AccessDenied":
                    classes.append("reply-refused" if rser else "duplicate-serial-refused")
                elif en == "LimitsExceeded":
                    classes.append("limit-refused")
                elif en == "NotSupported":
                    classes.append("fd-refused")
                else:
                    classes.append("no-owner-" + en)
                # F7b: a method call carrying REPLY_SERIAL is a reply first (consumes the slot) and can then still be refused.
                # (stale slots -- F7 proper, an fd-carrying call refused NotSupported -- no longer exist since the fix.)
                if owner != "x" and rser and ty == "c" and en in ("LimitsExceeded", "AccessDenied"):
                    consumed.append((int(owner), c, rser))
        elif f[0] in "DT":
            for _, d in items:
                if d.startswith("E.NoReply"):
                    classes.append("noreply-disconnect" if f[0] == "D" else "noreply-timeout")
            if f[0] == "D":
                classes.append("disconnect")
    return classes, stale, consumed


def attributable_to_f7(code_tok, step_event, step_tok, stale, consumed):
    """is this oracle flag explained by a message that was refused after the pending-reply table was updated?"""
    code = code_tok.split("@")[0].split("[")[0]
    f = step_event.split(".")
    if code == "1" and f[0] == "S":
        items = parse_items(step_tok)
        r = items[0][0] if items else -1
        return (r, int(f[1]), int(f[6])) in stale
    if code == "4":
        extra, missing = [], []
        if "[" in code_tok:
            body = code_tok[code_tok.index("[") + 1:code_tok.rindex("]")]
            ex, mi = body.split(";")
            extra = [tuple(map(int, x.split("."))) for x in ex.split(",") if x]
            missing = [tuple(map(int, x.split("."))) for x in mi.split(",") if x]
        ok = bool(extra or missing)
        for a, s in extra:
            ok = ok and any(k[0] == a and k[2] == s for k in stale)
        for a, s in missing:
            ok = ok and any(k[0] == a and k[2] == s for k in consumed)
        return ok
    if code == "6" and f[0] == "S":
        return any(k[0] == int(f[1]) for k in consumed)
    if code == "5" and f[0] == "S":
        owner = code_tok.split("@")[1] if "@" in code_tok else "x"
        return owner != "x" and (int(owner), int(f[1]), int(f[6])) in stale
    if code == "8" and f[0] == "S":
        # refused by the duplicate / limit test because of a slot the ledger does not know (stale), or delivered state the
        # ledger still believes in (consumed)
        owner = code_tok.split("@")[1] if "@" in code_tok else "x"
        reply_key = (int(owner), int(f[1]), int(f[6])) if owner != "x" else None
        return any(k[0] == int(f[1]) for k in stale) or any(k[0] == int(f[1]) for k in consumed) or reply_key in consumed
    return False


def load_known(prop_id):
    """known-findings.json, completed by entries proposed in notes/<id>.findings.json that are not merged there yet"""
    known = vlib.load_known(prop_id)
    p = os.path.join(vlib.VERIF, "notes", "%s.findings.json" % prop_id)
    if os.path.exists(p):
        have = {k["id"] for k in known}
        known += [e for e in json.load(open(p)) if e.get("property") == prop_id and e.get("status") == "known" and e["id"] not in have]
    return known


def load_corpus(prop_id):
    cases = []
    for p in sorted(glob.glob(os.path.join(vlib.VERIF, "corpus", prop_id, "*.json"))):
        for e in json.load(open(p)):
            cases.append((e.get("name", os.path.basename(p)), tuple(e["cfg"]), list(e["events"])))
    return cases


def run_check(ctx, prop_id, cases, own_codes, nontrivial_classes, correspondence_name):
    rep, info = ctx["rep"], ctx["info"]
    known = load_known(prop_id)
    f7 = next((k for k in known if k["id"] == "F7b"), None)
    if ctx.get("replay"):
        r = json.load(open(ctx["replay"]))["replay"]
        cases = [(r.get("name") or "replay", tuple(r["cfg"]), list(r["events"]))]
    # dedupe
    seen, uniq = set(), []
    for c in cases:
        key = (c[1], tuple(c[2]))
        if key not in seen:
            seen.add(key)
            uniq.append(c)
    cases = uniq
    model_exe = info["model_routing"]
    mtoks, mcr = run_model(model_exe, cases)
    for line, err in mcr:
        rep.violation("extracted model failed on `%s`: %s" % (line[:300], err[-300:]), {"input": line, "names": "model driver"}, found_input=False)
    # histories with stalled connections (4th cfg component): the model admits B only for a connection without open calls and
    # lets a stalled connection write nothing; the generator only approximates that, so drop what the model calls ill-formed
    keep = [i for i in range(len(cases)) if not (len(cases[i][1]) > 3 and "!" in mtoks[i])]
    cases, mtoks = [cases[i] for i in keep], [mtoks[i] for i in keep]
    impl, bad = run_impl(info["daemon"], cases)
    for cfg, rc, err, hists in bad:
        rep.violation("dbus-daemon ended with status %s / sanitizer or assertion output while replaying %d histories: %s" % (rc, len(hists), err[-700:]),
                      {"cfg": list(cfg), "histories": [" ".join(h) for h in hists], "stderr": err})
    itoks = [(x[0] if x and x[0] is not None else None) for x in impl]
    valid = [i for i in range(len(cases)) if itoks[i] is not None and mtoks[i] and not mtoks[i][0].startswith("?")]
    # the oracle judges the OBSERVED behaviour; the unobservable part of a burst-and-close (errors to the closed sender) is
    # completed from the model
    mvis, completed = {}, {}
    for i in valid:
        mt = canon_model(cases[i][2], mtoks[i])
        vis, hid = hide_unobservable(cases[i][0], cases[i][2], mt)
        mvis[i] = vis
        completed[i] = [merge_tokens(t, h) if h != "-" else t for t, h in zip(itoks[i], hid + ["-"] * len(itoks[i]))]
    otoks, ocr = run_oracle(model_exe, [cases[i] for i in valid], [completed[i] for i in valid])
    oracle = dict(zip(valid, otoks))
    dist, nontrivial, steps_total, tainted, disagreements, illformed, pipelined, burst_bytes, stalls = {}, set(), 0, 0, 0, 0, 0, 0, 0
    for i, (name, cfg, ev) in enumerate(cases):
        replay = {"cfg": list(cfg), "events": ev, "name": name,
                  "how": "python3 tools/check.py %s --replay <this file>  (or: hist/oracle lines of build/ml/routing/model)" % prop_id}
        if itoks[i] is None:
            notes = impl[i][1] if impl[i] else {}
            if notes.get("daemon_alive") is False or "Sanitizer" in notes.get("stderr", ""):
                rep.violation("dbus-daemon died while replaying a history: %s" % notes.get("stderr", "")[-600:], dict(replay, stderr=notes.get("stderr")))
            else:
                rep.violation("harness could not replay a history: %s" % notes.get("exception"), dict(replay, names="harness/py/routing_impl.py", notes=notes), found_input=False)
            continue
        if i not in oracle:
            continue
        notes = impl[i][1]
        if notes.get("tainted"):
            tainted += 1
            continue                      # machine too slow for the timing assumption even after retries: no verdict
        mt = mvis[i]
        it = itoks[i]
        burst_bytes += notes.get("burst_bytes", 0)
        stalls += sum(1 for e in ev if e[0] == "B")
        oc = oracle[i]
        if "!" in mt:
            illformed += 1
        steps_total += len(ev)
        classes, stale, consumed = classify(ev, it, oc)
        for c in classes:
            dist[c] = dist.get(c, 0) + 1
        if set(classes) & nontrivial_classes:
            nontrivial.add((cfg, tuple(ev)))
        if notes.get("fifo_bad"):
            rep.violation("messages written back to back by one connection arrived out of order at a recipient: %s" % (notes["fifo_bad"][:2],), dict(replay, impl=it))
        pipelined += notes.get("pipelined", 0)
        if notes["intact_bad"]:
            rep.violation("a forwarded message was altered on its way (other than SENDER): %s" % (notes["intact_bad"][:2],), dict(replay, impl=it))
        # oracle flags on the observed behaviour
        flags = [(k, o) for k, o in enumerate(oc) if o.split("@")[0].split("[")[0] not in ("0", "!")]
        unexplained = []
        for k, o in flags:
            code = o.split("@")[0].split("[")[0]
            if attributable_to_f7(o, ev[k], it[k], stale, consumed) and f7 is not None:
                rep.known(f7, {"cfg": list(cfg), "events": " ".join(ev[:k + 1]), "step": k, "observed": it[k], "code": code})
            else:
                unexplained.append((k, code))
        same = (mt == it)
        if not same:
            disagreements += 1
            k = next(j for j in range(len(ev)) if j >= len(it) or j >= len(mt) or mt[j] != it[j])
            own = [(j, c) for j, c in unexplained if c in own_codes]
            if own:
                j, c = own[0]
                rep.violation("step %d `%s` -> `%s`: %s (model expected `%s` at step %d)" % (j, ev[j], it[j], CODE_TEXT.get(c, c), mt[k] if k < len(mt) else "?", k),
                              dict(replay, impl=it, model=mt, oracle=oc, step=j))
            else:
                rep.violation("implementation and model differ at step %d `%s`: implementation `%s`, model `%s`; the %s oracle accepts the implementation's behaviour%s"
                              % (k, ev[k], it[k] if k < len(it) else "?", mt[k] if k < len(mt) else "?", prop_id,
                                 (" (other routing oracle codes: %s)" % unexplained) if unexplained else ""),
                              dict(replay, impl=it, model=mt, oracle=oc, step=k, names=correspondence_name), found_input=False)
        elif unexplained:
            j, c = unexplained[0]
            rep.violation("model and implementation agree but break the specification at step %d `%s` -> `%s`: %s" % (j, ev[j], it[j], CODE_TEXT.get(c, c)),
                          dict(replay, impl=it, model=mt, oracle=oc, step=j))
    return {"cases": cases, "dist": dist, "nontrivial": nontrivial, "steps": steps_total, "tainted": tainted,
            "disagreements": disagreements, "illformed": illformed, "pipelined": pipelined, "burst_bytes": burst_bytes, "stalls": stalls, "mtoks": mtoks, "itoks": itoks, "oracle": oracle}
