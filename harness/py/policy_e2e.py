"""End-to-end leg of the C06 (security policy) check: scenario generator, runner
against the real dbus-daemon and canonicaliser.  Trusted glue.

A scenario is a dict
  {"files": TREE, "ops": [OP, ...]}           (older corpus entries: "elems": [[ctx, rules], ...] = a tree without includes)
  TREE  = [ITEM, ...]
  ITEM  = ["P", ctx, [[allow(bool), [[attr, value], ...]], ...]]          a <policy> element
        | ["I", ignore_missing(bool), TARGET, "abs"|"rel"]                 <include>
        | ["D", [[file name, TARGET], ...]]                                <includedir> (entries in creation order)
  TARGET = ["missing"] | ["broken"] | ["circular"] | ["file", TREE]
  OP    = ["C", uid, [gids]]                                               connect + Hello (may be refused by user=/group= rules)
        | ["M", conn, {type, no_reply, serial, reply_serial, nfds, path, iface, member, error, dest, arg}]
        | ["W", TREE]                                                      rewrite the configuration files (no reload yet)
        | ["H"]                                                            SIGHUP to the daemon (asynchronous reload; only used where
                                                                           the files on disk do not load, so that nothing may change)
ctx: "d" default, "m" mandatory, "u<uid>", "g<gid>", "ct"/"cf" at_console true/false, "i" (unknown user: ignored).
The same scenario is rendered as configuration files for the daemon and as a
`scn` line for the extracted model (ml/policy/driver.ml).

Every top-level configuration file ends with a fixed mandatory block (CONTROL)
that lets each client call GetId and ReloadConfig on the bus driver and
receive method returns from the bus driver: that is what the ordering barrier
needs.  The model sees these rules like any others."""
import array, os, shutil, socket, sys, tempfile, time
sys.path.insert(0, os.path.dirname(os.path.abspath(__file__)))
import rawbus
from rawbus import RawConn, Msg, Daemon, METHOD_CALL, METHOD_RETURN, ERROR, SIGNAL, F_PATH, F_INTERFACE, F_MEMBER, F_ERROR_NAME, \
    F_REPLY_SERIAL, F_DESTINATION, F_SENDER, F_UNIX_FDS

USERS = {0: "root", 1: "daemon", 2: "bin", 3: "sys"}
GROUPS = {0: "root", 1: "daemon", 2: "bin", 3: "sys", 4: "adm", 5: "tty"}
MAXFDS = 33554432
DRIVER = "org.freedesktop.DBus"
DPATH = "/org/freedesktop/DBus"
MATCH_SIG = "type='signal'"
MATCH_EAV = "eavesdrop='true'"

CONTROL = ["P", "m", [[True, [["send_destination", DRIVER], ["send_interface", DRIVER], ["send_member", "GetId"]]],
                      [True, [["send_destination", DRIVER], ["send_interface", DRIVER], ["send_member", "ReloadConfig"]]],
                      [True, [["receive_sender", DRIVER], ["receive_type", "method_return"]]]]]
DB_GROUPS = {0: [0], 1: [1], 2: [2], 3: [3]}      # what the user database says (primary groups only in this sandbox)
DOCTYPE = """<!DOCTYPE busconfig PUBLIC "-//freedesktop//DTD D-Bus Bus Configuration 1.0//EN"
 "http://www.freedesktop.org/standards/dbus/1.0/busconfig.dtd">
"""

CONF = """<!DOCTYPE busconfig PUBLIC "-//freedesktop//DTD D-Bus Bus Configuration 1.0//EN"
 "http://www.freedesktop.org/standards/dbus/1.0/busconfig.dtd">
<busconfig>
  <type>system</type>
  <listen>unix:path=%(sock)s</listen>
  <limit name="max_replies_per_connection">100000</limit>
  <limit name="max_match_rules_per_connection">100000</limit>
%(policy)s
</busconfig>
"""


def hexs(s):
    b = s.encode("latin-1") if isinstance(s, str) else bytes(s)
    return b.hex() if b else "-"


def ohex(s):
    return "~" if s is None else hexs(s)


def ctx_xml(ctx):
    if ctx == "d": return 'context="default"'
    if ctx == "m": return 'context="mandatory"'
    if ctx == "ct": return 'at_console="true"'
    if ctx == "cf": return 'at_console="false"'
    if ctx == "i": return 'user="nosuchuser_c06"'
    if ctx[0] == "u": return 'user="%s"' % USERS[int(ctx[1:])]
    if ctx[0] == "g": return 'group="%s"' % GROUPS[int(ctx[1:])]
    raise ValueError(ctx)


def top_tree(scn, tree=None):
    """the items of the top-level file (with the control block)"""
    if tree is None:
        tree = scn["files"] if "files" in scn else [["P", ctx, rules] for ctx, rules in scn["elems"]]
    return list(tree) + [CONTROL]


def policy_xml(ctx, rules, indent="  "):
    out = [indent + "<policy %s>" % ctx_xml(ctx)]
    for allow, attrs in rules:
        out.append(indent + "  <%s %s/>" % ("allow" if allow else "deny", " ".join('%s="%s"' % (k, v) for k, v in attrs)))
    out.append(indent + "</policy>")
    return "\n".join(out)


_DIR_ORDER = {}


def dir_order(names):
    """the order in which a directory listing returns files created in this order (probed once per name tuple in a scratch
    directory next to where the daemon's directories are made: the configuration parser includes in readdir order)"""
    key = tuple(names)
    if key not in _DIR_ORDER:
        d = tempfile.mkdtemp(prefix="verif_dirorder_")
        try:
            for n in names:
                open(os.path.join(d, n), "w").close()
            _DIR_ORDER[key] = os.listdir(d)
        finally:
            shutil.rmtree(d, ignore_errors=True)
    return _DIR_ORDER[key]


class TreeWriter:
    """writes a TREE as bus.conf plus include files / directories under `root`"""

    def __init__(self, root, sock):
        self.root, self.sock, self.k, self.gen, self.created = root, sock, 0, 0, []

    def fresh(self, stem, ext):
        self.k += 1
        return os.path.join(self.root, "g%d_%s%d%s" % (self.gen, stem, self.k, ext))

    def write_top(self, tree):
        """(re)write the whole tree.  Include files and directories get fresh names every time and nothing old is removed:
        the daemon watches the <includedir> directories of the configuration it has loaded (inotify -> SIGHUP to itself
        -> reload), so touching them would start a reload of its own at an unknown moment.  bus.conf is replaced atomically."""
        self.gen += 1
        body = self.items_xml(tree, self.root, os.path.join(self.root, "bus.conf"))
        tmp = os.path.join(self.root, "bus.conf.new")
        with open(tmp, "w") as f:
            f.write(CONF % {"sock": self.sock, "policy": body})
        os.replace(tmp, os.path.join(self.root, "bus.conf"))

    def write_target(self, target, path):
        """create the file `path` for an include target (nothing for "missing")"""
        if target[0] == "missing":
            return
        self.created.append(path)
        with open(path, "w") as f:
            if target[0] == "broken":
                f.write(DOCTYPE + "<busconfig><policy")
            elif target[0] == "circular":
                f.write(DOCTYPE + "<busconfig>\n  <include>%s</include>\n</busconfig>\n" % path)
            else:
                f.write(DOCTYPE + "<busconfig>\n%s\n</busconfig>\n" % self.items_xml(target[1], os.path.dirname(path), path))

    def items_xml(self, items, here, self_path):
        out = []
        for it in items:
            if it[0] == "P":
                out.append(policy_xml(it[1], it[2]))
            elif it[0] == "I":
                im, target = it[1], it[2]
                if target[0] == "circular":
                    path = self_path            # a file that is already being included: this very file
                else:
                    path = self.fresh("inc", ".conf")
                    self.write_target(target, path)
                shown = os.path.relpath(path, here) if (len(it) > 3 and it[3] == "rel") else path
                out.append('  <include%s>%s</include>' % (' ignore_missing="yes"' if im else "", shown))
            elif it[0] == "D":
                dpath = self.fresh("dir", ".d")
                os.mkdir(dpath)
                os.chmod(dpath, 0o755)
                self.created.append(dpath)
                names = [n for n, t in it[1] if t[0] != "missing"]
                for n, t in it[1]:
                    if t[0] == "circular":
                        with open(os.path.join(dpath, n), "w") as f:
                            f.write(DOCTYPE + "<busconfig>\n  <include>%s</include>\n</busconfig>\n" % os.path.join(dpath, n))
                    elif t[0] != "missing":
                        self.write_target(t, os.path.join(dpath, n))
                if os.listdir(dpath) != dir_order(names):
                    raise IOError("directory listing order differs from the probed one: %r vs %r" % (os.listdir(dpath), dir_order(names)))
                out.append("  <includedir>%s</includedir>" % dpath)
            else:
                raise ValueError(it)
        return "\n".join(out)


def to_xml(scn, tree=None):
    """readable rendering of a tree (includes shown inline as comments); for replays and samples"""
    def go(items, ind):
        out = []
        for it in items:
            if it[0] == "P":
                out.append(policy_xml(it[1], it[2], ind))
            elif it[0] == "I":
                out.append('%s<!-- include ignore_missing=%s: %s -->' % (ind, "yes" if it[1] else "no", it[2][0]))
                if it[2][0] == "file":
                    out += go(it[2][1], ind + "    ")
                    out.append(ind + "<!-- end include -->")
            else:
                out.append("%s<!-- includedir, listing order %s -->" % (ind, dir_order([n for n, t in it[1] if t[0] != "missing"])))
                for n, t in it[1]:
                    out.append("%s  <!-- file %s: %s -->" % (ind, n, t[0]))
                    if t[0] == "file":
                        out += go(t[1], ind + "      ")
                out.append(ind + "<!-- end includedir -->")
        return out
    return "\n".join(go(top_tree(scn, tree), "  "))


def tree_items(items):
    out = []
    for it in items:
        if it[0] == "P":
            out.append("P " + it[1])
            for allow, attrs in it[2]:
                out.append("R %s %s" % ("a" if allow else "d", " ".join("%s=%s" % (k, v if k in ("max_fds", "min_fds") else hexs(v)) for k, v in attrs)))
        elif it[0] == "I":
            if it[2][0] == "file":
                out.append("I %d {" % (1 if it[1] else 0))
                out += tree_items(it[2][1]) + ["}"]
            else:
                out.append("I %d %s" % (1 if it[1] else 0, it[2][0]))
        else:
            out.append("D")
            ents = dict((n, t) for n, t in it[1])
            order = dir_order([n for n, t in it[1] if t[0] != "missing"])
            for n in order:
                t = ents[n]
                conf = 1 if n.endswith(".conf") else 0
                if t[0] == "file":
                    out.append("F %d {" % conf)
                    out += tree_items(t[1]) + ["}"]
                else:
                    out.append("F %d %s" % (conf, t[0]))
            out.append("E")
    return out


def to_line(scn):
    items = ["N u %s %d" % (hexs(n), u) for u, n in USERS.items()] + ["N g %s %d" % (hexs(n), g) for g, n in GROUPS.items()]
    items += ["T"] + tree_items(top_tree(scn)) + ["X"]
    cur = None
    for op in scn["ops"]:
        if op[0] == "C":
            gids = sorted(set(op[2]))
            dbg = DB_GROUPS.get(op[1])
            items.append("C %d %s 0 %s 1" % (op[1], ",".join(map(str, gids)) or "-", "~" if dbg is None else ",".join(map(str, dbg))))
        elif op[0] == "W":
            items += ["W"] + tree_items(top_tree(scn, op[1])) + ["X"]
            cur = op[1]
        elif op[0] == "H":
            items += ["W"] + tree_items(top_tree(scn, cur)) + ["X"]        # for the model: nothing happens
        else:
            m = op[2]
            items.append("M %d %d %d %d %d %d %s %s %s %s %s %s" % (
                op[1], m["type"], 1 if m.get("no_reply") else 0, m["serial"], m.get("reply_serial", 0), m.get("nfds", 0),
                ohex(m.get("path")), ohex(m.get("iface")), ohex(m.get("member")), ohex(m.get("error")), ohex(m.get("dest")), hexs(m.get("arg") or "")))
    return "scn " + " ; ".join(items)


# ---------------------------------------------------------------------------
# connections under another uid / group set
# ---------------------------------------------------------------------------
def socket_as(path, uid, gids, attempts=4):
    """connect to `path` from a forked child that first drops to (uid, gids); the connected socket comes back over a socketpair"""
    why = ""
    for attempt in range(attempts):
        a, b = socket.socketpair(socket.AF_UNIX, socket.SOCK_STREAM)
        pid = os.fork()
        if pid == 0:
            try:
                a.close()
                os.setgroups(list(gids))
                os.setresgid(gids[0], gids[0], gids[0])
                os.setresuid(uid, uid, uid)
                s = socket.socket(socket.AF_UNIX, socket.SOCK_STREAM)
                s.connect(path)
                b.sendmsg([b"x"], [(socket.SOL_SOCKET, socket.SCM_RIGHTS, array.array("i", [s.fileno()]))])
            except BaseException as e:
                try:
                    b.sendall(("E" + repr(e)).encode()[:200])
                except BaseException:
                    pass
            finally:
                os._exit(0)
        b.close()
        a.settimeout(30)
        try:
            data, anc, _, _ = a.recvmsg(256, socket.CMSG_LEN(4))
        except OSError as e:
            data, anc = b"E" + repr(e).encode(), []
        finally:
            os.waitpid(pid, 0)
            a.close()
        if anc:
            fd = array.array("i")
            fd.frombytes(anc[0][2][:4])
            return socket.socket(fileno=fd[0])
        why = data.decode("latin-1", "replace")
        time.sleep(0.02 * (attempt + 1))     # the socket file exists before the daemon listens: ECONNREFUSED in that window
    raise IOError("could not connect as uid %d after %d attempts: %s" % (uid, attempts, why))


class UidConn(RawConn):
    def __init__(self, path, uid, gids, timeout=10.0):
        self.sock = socket_as(path, uid, gids)
        self.sock.settimeout(timeout)
        self.buf = bytearray()
        self.fdq = []
        self.serial = 0
        self.unique = None
        self.inbox = []
        self.can_fds = False
        self.closed = False
        self.auth(uid, True)


class DaemonCrash(Exception):
    pass


def sanitizer_text(err):
    return any(k in err for k in ("AddressSanitizer", "runtime error:", "UndefinedBehaviorSanitizer", "Assertion", "assertion failed", "LeakSanitizer"))


_SHIM = []


def noinotify_shim():
    """path of the LD_PRELOAD library that makes inotify unavailable to the daemon (harness/c/policy_noinotify.c says why);
    built once per process tree next to the other build products; "" if it cannot be built"""
    if not _SHIM:
        src = os.path.join(os.path.dirname(os.path.dirname(os.path.abspath(__file__))), "c", "policy_noinotify.c")
        bdir = os.environ.get("VERIF_BUILD", os.path.join(os.path.dirname(os.path.dirname(os.path.dirname(os.path.abspath(__file__)))), "build"))
        out = os.path.join(bdir, "policy_noinotify.so")
        try:
            if not os.path.exists(out) or os.path.getmtime(out) < os.path.getmtime(src):
                import subprocess
                tmp = out + ".%d" % os.getpid()
                subprocess.run(["cc", "-shared", "-fPIC", "-O1", "-o", tmp, src], check=True, capture_output=True)
                os.replace(tmp, out)
            _SHIM.append(out)
        except Exception:
            _SHIM.append("")
    return _SHIM[0]


def start_daemon(exe, scn):
    """start the daemon on the scenario's configuration.  Returns (Daemon, "") or (None, stderr) when the daemon refuses the
    configuration; raises DaemonCrash on a crash / sanitizer report.  (rawbus.Daemon's methods are reused; its constructor is
    not, because the socket directory must be reachable by other uids and a refused configuration is an expected outcome.)"""
    import subprocess, tempfile
    d = Daemon.__new__(Daemon)
    d.dir = tempfile.mkdtemp(prefix="verif_bus_")
    os.chmod(d.dir, 0o755)
    d.sock = os.path.join(d.dir, "bus")
    d.conf = os.path.join(d.dir, "bus.conf")
    d.address = "unix:path=" + d.sock
    d.writer = TreeWriter(d.dir, d.sock)
    try:
        d.writer.write_top(top_tree(scn))
    except Exception:
        shutil.rmtree(d.dir, ignore_errors=True)
        raise
    e = dict(os.environ)
    e["ASAN_OPTIONS"] = "detect_leaks=0:abort_on_error=0:exitcode=99:log_path=" + os.path.join(d.dir, "asan")
    e["UBSAN_OPTIONS"] = "print_stacktrace=1:halt_on_error=1:log_path=" + os.path.join(d.dir, "ubsan")
    e.pop("DBUS_SESSION_BUS_ADDRESS", None)
    shim = noinotify_shim()
    if shim:
        e["LD_PRELOAD"] = shim
        e["ASAN_OPTIONS"] += ":verify_asan_link_order=0"
        e["DBUS_FATAL_WARNINGS"] = "0"
    d.errf = open(os.path.join(d.dir, "stderr"), "w")
    d.proc = subprocess.Popen([exe, "--config-file=" + d.conf, "--nofork", "--nopidfile", "--nosyslog"], stdout=subprocess.DEVNULL,
                              stderr=d.errf, env=e)
    t_end = time.time() + 20
    while not os.path.exists(d.sock):
        if d.proc.poll() is not None:
            rc, err = d.stop()
            if sanitizer_text(err) or rc != 1:
                raise DaemonCrash("daemon died while loading the configuration (exit %s): %s" % (rc, err[-1500:]))
            return None, err
        if time.time() > t_end:
            rc, err = d.stop()
            raise DaemonCrash("daemon did not start: " + err[-1500:])
        time.sleep(0.003)
    return d, ""


def build_msg(c, m):
    flags = 0x2 | (0x1 if m.get("no_reply") else 0)
    fields = {}
    if m.get("path") is not None: fields[F_PATH] = m["path"]
    if m.get("iface") is not None: fields[F_INTERFACE] = m["iface"]
    if m.get("member") is not None: fields[F_MEMBER] = m["member"]
    if m.get("error") is not None: fields[F_ERROR_NAME] = m["error"]
    if m.get("dest") is not None: fields[F_DESTINATION] = m["dest"]
    if m.get("reply_serial", 0): fields[F_REPLY_SERIAL] = m["reply_serial"]
    sig, body = "", ()
    nfds = m.get("nfds", 0)
    if m.get("dest") == DRIVER and m["type"] == METHOD_CALL and m.get("member") == "RequestName":
        sig, body = "su", (m.get("arg") or "", 0)
    elif m.get("dest") == DRIVER and m["type"] == METHOD_CALL and m.get("member") == "AddMatch":
        sig, body = "s", (m.get("arg") or "",)
    elif nfds:
        sig, body = "h" * nfds, tuple(range(nfds))
        fields[F_UNIX_FDS] = nfds
    return Msg(m["type"], flags, m["serial"], fields, sig, body)


def classify(m, i, probe, names):
    """tag for message m received by connection i while the operation `probe` = (kind, sender conn, serial, msgdict) was in flight"""
    kind, s, serial, pm = probe
    snd = m.fields.get(F_SENDER)
    if m.mtype == METHOD_CALL and m.serial < 1000 and m.fields.get(F_DESTINATION) == DRIVER and m.fields.get(F_MEMBER) in ("GetId", "Hello"):
        return None     # somebody's barrier call (or Hello) seen by an eavesdropper: not part of the observation
    if snd == DRIVER:
        if m.mtype == ERROR and m.fields.get(F_REPLY_SERIAL) == serial and i == s:
            return "E=" + str(m.fields.get(F_ERROR_NAME))
        if m.mtype == METHOD_RETURN and m.fields.get(F_REPLY_SERIAL) == serial and i == s:
            if m.sig == "u":
                return "R=%d" % m.body[0]
            if kind == "C" and (m.sig != "s" or m.body[0] != names[i]):
                return "X=hello-reply-%r" % (m.body,)
            return "R"
        if m.mtype == SIGNAL and m.fields.get(F_MEMBER) in ("NameAcquired", "NameOwnerChanged") and m.fields.get(F_INTERFACE) == DRIVER:
            return "S=%s=%s" % (m.fields.get(F_MEMBER), m.body[0])
        return "X=driver:%r" % (m,)
    if kind == "M" and snd == names[s] and m.serial == serial:
        same = (m.mtype == pm["type"] and m.fields.get(F_PATH) == pm.get("path") and m.fields.get(F_INTERFACE) == pm.get("iface") and
                m.fields.get(F_MEMBER) == pm.get("member") and m.fields.get(F_ERROR_NAME) == pm.get("error") and
                m.fields.get(F_DESTINATION) == pm.get("dest") and m.fields.get(F_REPLY_SERIAL, 0) == pm.get("reply_serial", 0) and
                len(m.fds) == pm.get("nfds", 0))
        return "P" if same else "X=altered:%r" % (m,)
    return "X=%r" % (m,)


def run_daemon(exe, scn):
    """returns (result string in the model's format, diagnostics)"""
    d, err = start_daemon(exe, scn)
    if d is None:
        return "CFGERR", err[-400:]
    conns, names, dead, results = [], [], set(), []
    next_id = 0
    devnull = os.open("/dev/null", os.O_RDONLY)
    try:
        for op in scn["ops"]:
            if op[0] == "W":
                d.writer.write_top(top_tree(scn, op[1]))
                results.append(".")
                continue
            if op[0] == "H":
                import signal
                os.kill(d.proc.pid, signal.SIGHUP)
                live = [i for i in range(len(conns)) if i not in dead]
                gone = False
                for _ in range(3):                      # round trips: the reload pipe has been served after these
                    for i in live[:1]:
                        bs = conns[i].next_serial()
                        try:
                            conns[i].send(Msg(METHOD_CALL, 0, bs, {F_PATH: DPATH, F_INTERFACE: DRIVER, F_MEMBER: "GetId", F_DESTINATION: DRIVER}))
                            if conns[i].wait_reply(bs, timeout=10.0) is None:
                                gone = True
                        except (OSError, IOError):
                            gone = True
                results.append(".")
                if gone:
                    try:
                        d.proc.wait(timeout=10)         # let the dying daemon finish writing its report
                    except Exception:
                        pass
                    break
                continue
            if op[0] == "C":
                gids = sorted(set(op[2]))
                c = UidConn(d.sock, op[1], gids)
                conns.append(c)
                names.append(":1.%d" % next_id)
                serial = c.next_serial()
                try:
                    c.send(Msg(METHOD_CALL, 0, serial, {F_PATH: DPATH, F_INTERFACE: DRIVER, F_MEMBER: "Hello", F_DESTINATION: DRIVER}))
                except (OSError, IOError):
                    pass
                probe = ("C", len(conns) - 1, serial, None)
            else:
                s, pm = op[1], op[2]
                if s in dead:
                    results.append(".")
                    continue
                c = conns[s]
                msg = build_msg(c, pm)
                c.send(msg, fds=[devnull] * pm.get("nfds", 0))
                probe = ("M", s, pm["serial"], pm)
            # ordering barrier: first the acting connection, then everybody
            order = [probe[1]] + [i for i in range(len(conns)) if i != probe[1] and i not in dead]
            lost = []
            for i in order:
                c = conns[i]
                bs = c.next_serial()
                try:
                    c.send(Msg(METHOD_CALL, 0, bs, {F_PATH: DPATH, F_INTERFACE: DRIVER, F_MEMBER: "GetId", F_DESTINATION: DRIVER}))
                    r = c.wait_reply(bs, timeout=10.0)
                except (OSError, IOError):
                    r = None
                    c.closed = True
                if r is None:
                    lost.append(i)
            out = []
            if op[0] == "C":
                i = len(conns) - 1
                if i in lost and conns[i].closed and not conns[i].inbox:
                    # the bus closed the connection right after authentication: refused by the user=/group= rules
                    lost.remove(i)
                    dead.add(i)
                    names[i] = None
                    out.append("%d:REFUSED" % i)
                else:
                    next_id += 1
            for i, c in enumerate(conns):
                msgs, c.inbox = c.inbox, []
                for m in msgs:
                    tag = classify(m, i, probe, names)
                    if tag is not None:
                        out.append("%d:%s" % (i, tag))
                    for fd in m.fds:
                        try:
                            os.close(fd)
                        except OSError:
                            pass
            for i in lost:
                out.append("%d:X=barrier-lost%s" % (i, "-closed" if conns[i].closed else ""))
            results.append(",".join(sorted(out)) if out else ".")
            if lost:
                break
            if not d.alive():
                break
    finally:
        os.close(devnull)
        for c in conns:
            c.close()
        alive = d.alive()
        rc, err = d.stop()
    if not alive or sanitizer_text(err):
        raise DaemonCrash("daemon crashed or reported a sanitizer error (exit %s): %s" % (rc, err[-2000:]))
    return " | ".join(results), ""


# ---------------------------------------------------------------------------
# generator
# ---------------------------------------------------------------------------
NAMES = ["com.ex.A", "com.ex.A.sub", "com.ex.AB", "com.ex.B"]
PREFIXES = ["com.ex", "com.ex.A", "com", ":1", "com.ex.B"]
IFACES = ["com.ex.I", "com.ex.J"]
MEMBERS = ["M1", "M2"]
PATHS = ["/p", "/q"]
ERRORS = ["com.ex.Err", "com.ex.Err2"]
TYPES = ["method_call", "method_return", "signal", "error"]
IDENTS = [(0, [0]), (1, [1]), (1, [1, 2]), (2, [2, 3]), (3, [3]), (1, [4, 5]), (2, [2]), (0, [0, 4])]


def tf(rnd):
    return rnd.choice(("true", "false"))


def gen_rule(rnd, nconn, invalid_rate=0.02):
    allow = rnd.random() < 0.5
    k = rnd.random()
    attrs = []
    bad = rnd.random() < invalid_rate
    if k < 0.45:
        p = "send_"
        if rnd.random() < 0.35: attrs.append([p + "type", rnd.choice(TYPES + ["*"])])
        if rnd.random() < 0.25: attrs.append([p + "interface", rnd.choice(IFACES + [DRIVER, "*"])])
        if rnd.random() < 0.15: attrs.append([p + "path", rnd.choice(PATHS + [DPATH, "*"])])
        if any(a[0] in (p + "interface", p + "path") for a in attrs) and rnd.random() < 0.5:
            attrs.append([p + "member", rnd.choice(MEMBERS + ["RequestName", "AddMatch", "*"])])
        if not any(a[0] in (p + "interface", p + "member") for a in attrs) and rnd.random() < 0.12:
            attrs.append([p + "error", rnd.choice(ERRORS + ["*"])])
        r = rnd.random()
        if r < 0.35:
            attrs.append([p + "destination", rnd.choice(NAMES + [DRIVER, "*", "*"] + [":1.%d" % i for i in range(nconn)])])
        elif r < 0.5:
            attrs.append([p + "destination_prefix", rnd.choice(PREFIXES)])
        if rnd.random() < 0.2:
            v = tf(rnd)
            if not (v == "true" and any(a[0] == p + "destination" and a[1] != "*" for a in attrs)):
                attrs.append([p + "broadcast", v])
        if rnd.random() < 0.25: attrs.append([p + "requested_reply", tf(rnd)])
        if not attrs:
            attrs.append([p + "destination", "*"])
        if rnd.random() < 0.1: attrs.append(["log", tf(rnd)])
    elif k < 0.8:
        p = "receive_"
        if rnd.random() < 0.35: attrs.append([p + "type", rnd.choice(TYPES + ["*"])])
        if rnd.random() < 0.25: attrs.append([p + "interface", rnd.choice(IFACES + [DRIVER, "*"])])
        if rnd.random() < 0.15: attrs.append([p + "path", rnd.choice(PATHS + [DPATH, "*"])])
        if any(a[0] in (p + "interface", p + "path") for a in attrs) and rnd.random() < 0.5:
            attrs.append([p + "member", rnd.choice(MEMBERS + ["NameOwnerChanged", "NameAcquired", "*"])])
        if not any(a[0] in (p + "interface", p + "member") for a in attrs) and rnd.random() < 0.12:
            attrs.append([p + "error", rnd.choice(ERRORS + ["org.freedesktop.DBus.Error.AccessDenied", "*"])])
        if rnd.random() < 0.4:
            attrs.append([p + "sender", rnd.choice(NAMES + [DRIVER, "*", "*"] + [":1.%d" % i for i in range(nconn)])])
        if rnd.random() < 0.25: attrs.append([p + "requested_reply", tf(rnd)])
        if not attrs and rnd.random() < 0.5:
            attrs.append([p + "sender", "*"])
    else:
        r = rnd.random()
        if r < 0.25: attrs.append(["own", "*"])
        elif r < 0.65: attrs.append(["own", rnd.choice(NAMES)])
        else: attrs.append(["own_prefix", rnd.choice(PREFIXES)])
        if rnd.random() < 0.05: attrs.append(["log", "true"])
    if k < 0.8:
        if rnd.random() < 0.25 or not attrs: attrs.append(["eavesdrop", tf(rnd)])
        if rnd.random() < 0.15: attrs.append(["min_fds", str(rnd.choice((0, 1, 2)))])
        if rnd.random() < 0.15: attrs.append(["max_fds", str(rnd.choice((0, 1, MAXFDS)))])
    if bad:
        r = rnd.randrange(9)
        if r == 0: attrs = [["send_member", "M1"]]
        elif r == 1: attrs.append(["receive_type" if attrs[0][0].startswith("send_") else "send_type", "signal"])
        elif r == 2: attrs = [["send_interface", "com.ex.I"], ["send_error", "com.ex.Err"]]
        elif r == 3: attrs = [["send_destination", "com.ex.A"], ["send_destination_prefix", "com.ex"]]
        elif r == 4: attrs = [["send_type", "bogus"]]
        elif r == 5: attrs = [["receive_sender", "*"], ["max_fds", str(rnd.choice((-1, MAXFDS + 1)))]]
        elif r == 6: attrs = [["send_destination", "com.ex.A"], ["send_broadcast", "true"]]
        elif r == 7: attrs = [["own", "com.ex.A"], ["min_fds", "1"]]
        else: attrs = [["send_destination", "*"], ["eavesdrop", "maybe"]]
    rnd.shuffle(attrs)
    return [allow, attrs]


CONN_NAMES_U = ["root", "daemon", "bin", "sys", "*", "nosuchuser_c06"]
CONN_NAMES_G = ["root", "daemon", "bin", "sys", "adm", "*", "nosuchgroup_c06"]


def gen_conn_rule(rnd):
    if rnd.random() < 0.6:
        return [rnd.random() < 0.5, [["user", rnd.choice(CONN_NAMES_U)]]]
    return [rnd.random() < 0.5, [["group", rnd.choice(CONN_NAMES_G)]]]


def gen_policy_elems(rnd, nconn, uids, gids, queued):
    """the <policy> elements of one configuration, as a flat list [[ctx, rules], ...]"""
    r = rnd.random()
    if r < 0.6:
        first = [[True, [["user", "*"]]]]
    elif r < 0.7:
        first = []                                   # only the owner of the bus gets in
    elif r < 0.8:
        first = [[True, [["user", "*"]]], [False, [[rnd.choice(("user", "group")), rnd.choice(("daemon", "bin", "sys", "root"))]]]]
    elif r < 0.9:
        first = [[True, [["group", rnd.choice(("daemon", "bin", "sys"))]]], [True, [["user", rnd.choice(("daemon", "bin", "sys"))]]]]
    else:
        first = [gen_conn_rule(rnd) for _ in range(rnd.randint(1, 3))]
    if rnd.random() < 0.75:
        first.append([True, rnd.choice(([["send_destination", "*"]], [["send_destination", "*"], ["eavesdrop", "true"]],
                                         [["send_type", "method_call"]], [["send_destination", "*"], ["send_requested_reply", "false"]]))])
        if rnd.random() < 0.5: first.append([True, [["send_type", rnd.choice(TYPES)]]])
    if rnd.random() < 0.75:
        first.append([True, rnd.choice(([["receive_sender", "*"]], [["eavesdrop", "true"]], [["receive_type", "signal"]],
                                         [["receive_sender", "*"], ["receive_requested_reply", "false"]]))])
        if rnd.random() < 0.5: first.append([True, [["receive_type", rnd.choice(TYPES)]]])
    if rnd.random() < 0.75:
        first.append([True, rnd.choice(([["own", "*"]], [["own_prefix", "com.ex"]], [["own_prefix", "com.ex.A"]]))])
    inv = 0.02 if rnd.random() < 0.15 else 0.0
    elems = [["d", first + [gen_rule(rnd, nconn, inv) for _ in range(rnd.randint(0, 3))]]]
    for _ in range(rnd.randint(1, 5)):
        ctx = rnd.choice(["d", "m", "m", "u%d" % rnd.choice(uids), "u%d" % rnd.choice(list(USERS)), "g%d" % rnd.choice(gids),
                          "g%d" % rnd.choice(list(GROUPS)), "cf", "ct", "i"])
        rules = [gen_rule(rnd, nconn, inv) for _ in range(rnd.randint(0, 4))]
        if queued and rnd.random() < 0.35:
            # a rule about a name that has a queue: it must also apply to the queued owners
            n, _ = rnd.choice(queued)
            allow = rnd.random() < 0.5
            rules.insert(rnd.randint(0, len(rules)), [allow, rnd.choice(([["send_destination", n]], [["receive_sender", n]],
                                                                         [["send_destination_prefix", n.rsplit(".", 1)[0]]]))])
        # user= / group= rules: meaningful in default and mandatory contexts, dropped in console / ignored ones, an error in
        # per-user and per-group ones (rarely generated there)
        if rnd.random() < (0.25 if ctx in ("d", "m", "cf", "ct", "i") else 0.02):
            rules.insert(rnd.randint(0, len(rules)), gen_conn_rule(rnd))
        elems.append([ctx, rules])
    return elems


DIR_NAMES = ["a.conf", "b.conf", "c.conf", "k.conf", "zz.txt", "x.conf.bak", "conf", "m.CONF"]


def wrap_tree(rnd, elems, fatal_rate=0.03, depth=0):
    """spread <policy> elements over a tree of included files and directories"""
    items = [["P", c, r] for c, r in elems]
    if depth == 0 and rnd.random() < 0.4:
        return items
    out, i = [], 0
    while i < len(items):
        n = rnd.randint(1, 3)
        chunk, i = items[i:i + n], i + n
        r = rnd.random()
        if r < 0.35 or depth >= 2:
            out += chunk
        elif r < 0.7:
            sub = wrap_tree(rnd, [[c[1], c[2]] for c in chunk], fatal_rate, depth + 1)
            out.append(["I", rnd.random() < 0.3, ["file", sub], rnd.choice(("abs", "abs", "rel"))])
        else:
            names = rnd.sample(DIR_NAMES, rnd.randint(1, 4))
            ents = []
            for k, nm in enumerate(names):
                t = rnd.random()
                if k == 0 or t < 0.4:
                    sub = wrap_tree(rnd, [[c[1], c[2]] for c in (chunk if k == 0 else [rnd.choice(chunk)])], 0.15, depth + 1)
                    ents.append([nm, ["file", sub]])
                elif t < 0.6:
                    ents.append([nm, ["broken"]])
                elif t < 0.75:
                    ents.append([nm, ["circular"]])
                else:
                    ents.append([nm, ["file", [["P", "d", [[False, [["own", rnd.choice(NAMES)]]]]], ["I", False, ["missing"], "abs"]]]])
            rnd.shuffle(ents)
            out.append(["D", ents])
        r = rnd.random()
        if r < 0.12:
            out.append(["I", True, ["missing"], rnd.choice(("abs", "rel"))])
        elif r < 0.2:
            # D4: an existing file, included with ignore_missing="yes", that itself includes an absent file
            out.append(["I", True, ["file", [["P", rnd.choice(("d", "m")), [[False, [["own", rnd.choice(NAMES)]]], [False, [["send_destination", rnd.choice(NAMES)]]]]],
                                             ["I", False, ["missing"], "abs"]]], "abs"])
        elif r < 0.2 + fatal_rate:
            out.append(["I", rnd.random() < 0.5, [rnd.choice(("missing", "broken", "circular"))], "abs"])
    return out


def gen_scenario(rnd, quick=True):
    nconn = rnd.choice((3, 3, 4))
    idents = [rnd.choice(IDENTS) for _ in range(nconn)]
    uids = sorted(set(u for u, _ in idents))
    gids = sorted(set(g for _, gs in idents for g in gs))
    # which names will be requested by whom (queues: the first requester is the primary owner if its policy lets it)
    plan = []
    for i in range(nconn):
        for _ in range(rnd.choice((0, 1, 1, 2))):
            plan.append((i, rnd.choice(NAMES[:2] + NAMES)))
    queued = [(n, i) for k, (i, n) in enumerate(plan) if any(n2 == n and i2 != i for (i2, n2) in plan[:k])]
    files = wrap_tree(rnd, gen_policy_elems(rnd, nconn, uids, gids, queued))
    reload_at = rnd.randint(2, 9) if rnd.random() < 0.55 else -1
    ops = [["C", u, g] for u, g in idents]
    serial = [1000] * nconn
    calls = []   # (caller, callee, serial) of method calls to peers: candidates for requested replies
    owners = {}

    def nxt(i):
        serial[i] += 1
        return serial[i]

    def drv(i, member, arg=None, iface=True):
        return ["M", i, {"type": METHOD_CALL, "serial": nxt(i), "path": DPATH, "iface": DRIVER if iface else None, "member": member, "dest": DRIVER, "arg": arg}]
    for i in range(nconn):
        r = rnd.random()
        if r < 0.4: ops.append(drv(i, "AddMatch", MATCH_SIG, rnd.random() < 0.8))
        elif r < 0.75: ops.append(drv(i, "AddMatch", MATCH_EAV, rnd.random() < 0.8))
        for (j, n) in plan:
            if j == i:
                ops.append(drv(i, "RequestName", n, rnd.random() < 0.8))
                owners.setdefault(n, []).append(i)
    for step in range(rnd.randint(8, 14) if quick else rnd.randint(12, 24)):
        if step == reload_at or (reload_at >= 0 and step == reload_at + 4 and rnd.random() < 0.4):
            # the administrator edits the files and somebody asks for a reload; sometimes a new client arrives afterwards
            ops.append(["W", wrap_tree(rnd, gen_policy_elems(rnd, nconn, uids, gids, queued), fatal_rate=0.12)])
            ops.append(drv(rnd.randrange(nconn), "ReloadConfig", None, rnd.random() < 0.8))
            if rnd.random() < 0.4:
                u, g = rnd.choice(IDENTS)
                ops.append(["C", u, g])
                serial.append(1000)
                nconn += 1
        s = rnd.randrange(nconn)
        r = rnd.random()
        if r < 0.08:
            n = rnd.choice(NAMES + ["com.ex", "org.freedesktop.DBus", ":1.7", "not a name"])
            ops.append(drv(s, "RequestName", n, rnd.random() < 0.8))
            continue
        if r < 0.11:
            ops.append(drv(s, rnd.choice(("AddMatch", "GetId")), rnd.choice((MATCH_SIG, MATCH_EAV)), rnd.random() < 0.8))
            continue
        ty = rnd.choice((METHOD_CALL, METHOD_CALL, METHOD_CALL, SIGNAL, SIGNAL, METHOD_RETURN, METHOD_RETURN, ERROR))
        m = {"type": ty, "serial": nxt(s)}
        r = rnd.random()
        if queued and r < 0.2:
            # to (or from) a queued, non-primary owner of a name, by its unique name
            n, qi = rnd.choice(queued)
            if rnd.random() < 0.3:
                s, m = qi, {"type": ty, "serial": nxt(qi)}
                dest = ":1.%d" % rnd.randrange(nconn)
            else:
                dest = ":1.%d" % qi
        elif ty == SIGNAL and r < 0.45:
            dest = None
        elif r < 0.5:
            dest = ":1.%d" % rnd.randrange(nconn)
        elif r < 0.93:
            dest = rnd.choice(NAMES)
        else:
            dest = DRIVER
        m["dest"] = dest
        if dest == DRIVER and ty == METHOD_CALL:
            ops.append(drv(s, "GetId", None, rnd.random() < 0.7))
            serial[s] -= 0
            continue
        if ty in (METHOD_CALL, SIGNAL) or rnd.random() < 0.3: m["path"] = rnd.choice(PATHS)
        if ty == SIGNAL or (ty == METHOD_CALL and rnd.random() < 0.7) or rnd.random() < 0.15: m["iface"] = rnd.choice(IFACES)
        if ty in (METHOD_CALL, SIGNAL) or rnd.random() < 0.15: m["member"] = rnd.choice(MEMBERS)
        if ty == ERROR or rnd.random() < 0.08: m["error"] = rnd.choice(ERRORS)
        if ty in (METHOD_RETURN, ERROR) or rnd.random() < 0.12:
            cands = [c for c in calls if c[1] == s]
            r2 = rnd.random()
            if cands and r2 < 0.65:
                c = rnd.choice(cands)
                m["reply_serial"] = c[2]
                if rnd.random() < 0.8:
                    m["dest"] = ":1.%d" % c[0]
            elif calls and r2 < 0.8:
                # a reply to somebody else's call (a third party answering): must count as unrequested
                c = rnd.choice(calls)
                m["reply_serial"] = c[2]
                m["dest"] = ":1.%d" % c[0]
            else:
                m["reply_serial"] = rnd.choice((77, 1001, 1002, 1003))
        if ty == METHOD_CALL and rnd.random() < 0.2: m["no_reply"] = True
        if rnd.random() < 0.2: m["nfds"] = rnd.choice((1, 1, 2))
        if ty == METHOD_CALL and m["dest"] is not None:
            # who will be the addressed recipient (if anybody): remember for replies
            tgt = None
            if m["dest"].startswith(":1."):
                tgt = int(m["dest"][3:])
            elif owners.get(m["dest"]):
                tgt = owners[m["dest"]][0]
            if tgt is not None:
                calls.append((s, tgt, m["serial"]))
        ops.append(["M", s, m])
    return {"files": files, "ops": ops}
