"""Implementation side of the routing checks (C09, C05): replays a history of
events (the same text the extracted model reads, see ml/routing/driver.ml) against
the real dbus-daemon with raw-wire clients and returns one canonical token per step.

Synchronisation is by round trips only: after every event each live client does a
GetId round trip to the driver; the bus's per-connection output is FIFO, so whatever
the bus queued for that client while processing the event has been read when the
GetId reply arrives.  A disconnect is awaited through the NameOwnerChanged signal
for the unique name at a separate observer connection, followed by one observer
round trip (the callee-left expiry runs from a zero-interval timeout that the main
loop handles before it reads further input).  ETick is real time passing."""
import os, shutil, signal, sys, tempfile, time
sys.path.insert(0, os.path.dirname(os.path.abspath(__file__)))
import rawbus
from rawbus import Msg, METHOD_CALL, METHOD_RETURN, ERROR, SIGNAL, F_PATH, F_INTERFACE, F_MEMBER, F_ERROR_NAME, \
    F_REPLY_SERIAL, F_DESTINATION, F_SENDER, F_SIGNATURE, F_UNIX_FDS

RESTRICTIVE = """<policy context="default">
    <allow user="*"/>
    <allow own="*"/>
    <allow send_type="method_call"/>
    <allow send_type="signal"/>
    <allow send_requested_reply="true" send_type="method_return"/>
    <allow send_requested_reply="true" send_type="error"/>
    <allow receive_type="method_call"/>
    <allow receive_type="method_return"/>
    <allow receive_type="error"/>
    <allow receive_type="signal"/>
  </policy>"""

BUS = "org.freedesktop.DBus"
ERRP = "org.freedesktop.DBus.Error."
HIGH = 1000000          # serials of the harness's own driver calls start here; generated serials stay far below
ACTIVATABLE = (8, 9)
TYPES = {"c": METHOD_CALL, "r": METHOD_RETURN, "e": ERROR, "s": SIGNAL, "v": 5, "u": 9, "w": 255}     # v, u, w: types the bus does not know


def wk_name(k):
    return "t.N%d" % k


class Bus:
    """one daemon configured for cfg = (restrictive, max_replies, timeout_ms) plus the observer connection"""

    def __init__(self, exe, cfg):
        self.cfg = cfg
        restrictive, maxrep, tmo = cfg[:3]
        limits = '<limit name="max_replies_per_connection">%d</limit>' % maxrep
        if len(cfg) > 3:                      # optional 4th component: limits.max_outgoing_bytes (histories with B/U events)
            limits += '<limit name="max_outgoing_bytes">%d</limit>' % cfg[3]
        if tmo >= 0:
            limits += '<limit name="reply_timeout">%d</limit>' % tmo
        # service files for t.N8 and t.N9 (Routing.activatable): the Exec never claims the name, a test connection plays the
        # service by calling RequestName
        self.svcdir = tempfile.mkdtemp(prefix="verif_svc_")
        for k in ACTIVATABLE:
            with open(os.path.join(self.svcdir, wk_name(k) + ".service"), "w") as f:
                f.write("[D-BUS Service]\nName=%s\nExec=/bin/sleep 12\n" % wk_name(k))
        self.d = rawbus.Daemon(exe, policy=RESTRICTIVE if restrictive else rawbus.ALLOW_ALL, limits=limits,
                               servicedirs="<servicedir>%s</servicedir>" % self.svcdir)
        self.obs = self.connect()
        self.obs.serial = HIGH
        self.obs.hello()
        r = self.obs.call("AddMatch", "s", ("type='signal',sender='org.freedesktop.DBus',member='NameOwnerChanged'",))
        if r is None or r.mtype != METHOD_RETURN:
            raise IOError("observer AddMatch failed: %r" % (r,))

    def connect(self, **kw):
        # Daemon() returns once the socket path exists; listen() may not have happened yet
        t_end = time.time() + 10
        while True:
            try:
                return self.d.connect(**kw)
            except (ConnectionRefusedError, FileNotFoundError):
                if time.time() > t_end or not self.d.alive():
                    raise
                time.sleep(0.005)

    def stall(self, unique):
        """drive the bus's outgoing queue for connection `unique` (which is not reading) over max_outgoing_bytes: a
        harness-owned connection sends it large signals until one of them bounces with LimitsExceeded.  How many fit into
        the kernel's socket buffers first is not our business; the bounce is the observable fact 'queue full'."""
        if getattr(self, "fill", None) is None:
            self.fill = self.connect()
            self.fill.serial = HIGH
            self.fill.hello()
        f = self.fill
        for n in range(600):
            m = Msg(SIGNAL, 1, f.next_serial(), {F_PATH: "/t/fill", F_INTERFACE: "t.Fill", F_MEMBER: "Fill", F_DESTINATION: unique},
                    "s", ("f" * 16000,))
            f.send(m)
            f.barrier()
            msgs, f.inbox = f.inbox, []
            for r in msgs:
                if r.mtype == ERROR and r.fields.get(F_REPLY_SERIAL) == m.serial:
                    if r.fields.get(F_ERROR_NAME) == ERRP + "LimitsExceeded":
                        return n + 1
                    raise IOError("filler bounced with %s" % r.fields.get(F_ERROR_NAME))
        raise IOError("queue of %s never filled" % unique)

    def flush_activations(self):
        """end of a history that addressed an activatable name: claim and release t.N8 / t.N9 once so that no pending
        activation (with messages held for it) survives into the next history"""
        c = self.connect()
        c.serial = HIGH
        c.hello()
        for k in ACTIVATABLE:
            c.call("RequestName", "su", (wk_name(k), 4))
            c.call("ReleaseName", "s", (wk_name(k),))
        gone = c.unique
        c.close()
        self.wait_gone(gone, timeout=5.0)

    def wait_gone(self, unique, timeout=10.0):
        t_end = time.time() + timeout
        while True:
            for i, m in enumerate(self.obs.inbox):
                if m.mtype == SIGNAL and m.fields.get(F_MEMBER) == "NameOwnerChanged" and m.body[0] == unique and m.body[2] == "":
                    del self.obs.inbox[i]          # only this one: other connections' signals may arrive in any order
                    return True
            if self.obs.closed or time.time() > t_end:
                return False
            self.obs._pump(0.5)

    def stop(self):
        for c in (self.obs, getattr(self, "fill", None)):
            try:
                if c is not None:
                    c.close()
            except Exception:
                pass
        shutil.rmtree(self.svcdir, ignore_errors=True)
        return self.d.stop()


def close_groups(events):
    """[(i, j, k)]: events[i:j] are sends by connection k and events[j] is `D.k` (a burst that is written in one piece and
    followed at once by close() in 'close' mode); maximal runs"""
    out, i = [], 0
    while i < len(events):
        f = events[i].split(".")
        if f[0] == "S":
            j = i
            while j < len(events) and events[j].split(".")[0] == "S" and events[j].split(".")[1] == f[1]:
                j += 1
            if j < len(events) and events[j] == "D." + f[1] and j > i:
                out.append((i, j, int(f[1])))
            i = j if j > i else i + 1
        else:
            i += 1
    return out


def build_msg(ev, uniq, pad=0):
    """ev = fields of an S event: [c, type, noreply, noauto, serial, rserial, dest, nfds, token]"""
    c, ty, nr, na, ser, rser, dst, nfds, token = ev
    nfds = int(nfds)
    f = {}
    mt = TYPES[ty]
    if mt in (METHOD_CALL, SIGNAL):
        f[F_PATH] = "/t/p%s" % token
        f[F_INTERFACE] = "t.I"
        f[F_MEMBER] = "M%s" % token
    if mt == ERROR:
        f[F_ERROR_NAME] = "t.Error.E%s" % token
    if int(rser) != 0:
        f[F_REPLY_SERIAL] = int(rser)
    k = int(dst[1:])
    f[F_DESTINATION] = uniq.get(k, ":1.999999") if dst[0] == "u" else wk_name(k)
    if nfds:
        f[F_UNIX_FDS] = nfds
    flags = (1 if nr == "1" else 0) | (2 if na == "1" else 0)
    return Msg(mt, flags, int(ser), f, "us" + "h" * nfds, (int(token), "payload-%s" % token + "x" * pad) + tuple(range(nfds)))


def rule_text(f, uniq, extra=0):
    """f = [eavesdrop, type, sender, destination] of an M event"""
    def name(x):
        k = int(x[1:])
        return uniq.get(k, ":1.999999") if x[0] == "u" else wk_name(k)
    parts = []
    if f[1] != "x":
        parts.append("type='%s'" % {"c": "method_call", "r": "method_return", "e": "error", "s": "signal"}[f[1]])
    if f[2] != "x":
        parts.append("sender='%s'" % name(f[2]))
    if f[3] != "x":
        parts.append("destination='%s'" % name(f[3]))
    if f[0] == "1":
        parts.append("eavesdrop='true'")
    elif extra % 4 == 1:
        parts.append("interface='org.freedesktop.DBus'")      # plain rules never match unicast traffic, whatever their keys
    elif extra % 4 == 2:
        parts.append("member='RequestName'")
    elif extra % 4 == 3:
        parts.append("path='/org/freedesktop/DBus'")
    return ",".join(parts)


def same_message(sent, got, sender_unique):
    """C05 'intact': everything but SENDER is what was sent"""
    if (sent.mtype, sent.flags, sent.serial, sent.sig, tuple(sent.body)) != (got.mtype, got.flags, got.serial, got.sig, tuple(got.body)):
        return False
    gf = dict(got.fields)
    if gf.pop(F_SENDER, None) != sender_unique:
        return False
    sf = dict(sent.fields)
    sf[F_SIGNATURE] = sent.sig
    if got.extra:
        return False
    return sf == gf and len(got.fds) == sf.get(F_UNIX_FDS, 0)


def run_history(bus, events, pipeline=False):
    """returns (tokens, notes).  notes: dict(intact_bad=[...], drift_ms=float, fifo_bad=[...]).
    pipeline="close": a run of sends by one connection that is directly followed by that connection's disconnect is written
    with ONE sendall() and the socket is closed at once (fire and forget; bodies are padded so that the burst is tens of kB);
    the bus must still process everything that was written: the observer waits for the sender's NameOwnerChanged, then every
    live client is drained behind a round trip; forwards are attributed to the sends by body token, NoReply errors to the
    disconnect step; what the bus addressed to the closed sender itself cannot be observed.
    pipeline=True: maximal runs of consecutive sends by one connection (distinct serials) are written back to back
    without waiting; the outputs are attributed to the individual sends afterwards (forward: by body token, error: by
    reply serial) and the arrival order at each recipient must follow the order of writing (per-sender FIFO)."""
    conns, uniq, by_unique = {}, {}, {}
    blocked = set()
    stopped, hung = False, []
    drv_zero = set()          # (connection, serial) of G events: the content of the driver's answer is not routing's business
    sent = {}
    nextid = 0
    toks = []
    notes = {"intact_bad": [], "drift_ms": 0.0, "forwarded": 0, "fifo_bad": [], "pipelined": 0, "burst_bytes": 0}
    pad = 330 if pipeline == "close" else 0
    groups = {i: (j, k) for i, j, k in close_groups(events)} if pipeline == "close" else {}
    devnull = os.open("/dev/null", os.O_RDONLY)
    t_start = time.time()
    nominal = 0.0

    def collect(sort_within=False):
        outs = []
        for k in sorted(conns):
            if k in blocked:
                continue                       # stalled: does not read (and gets no answers while its queue is full)
            c = conns[k]
            r = None if c.closed else c.barrier()
            if r is None:
                outs.append((k, "X"))
                c.close()
                del conns[k]
                continue
            msgs, c.inbox = c.inbox, []
            mine = []
            for m in msgs:
                s = m.fields.get(F_SENDER)
                # a connection holding an eavesdrop rule also sees traffic to and from the bus driver (the harness's own
                # round trips, other clients' RequestName calls and the driver's answers to them): not unicast routing
                if m.serial >= HIGH and s != BUS or m.fields.get(F_INTERFACE) == "t.Fill":
                    continue            # the harness's own round trips / fillers, as seen by an eavesdropper
                if m.fields.get(F_DESTINATION) == BUS:
                    # a copy of another client's (or the own) method call to the bus driver
                    mine.append("C.%s.%d" % (by_unique.get(s, "?"), m.serial))
                    continue
                if s == BUS and m.fields.get(F_DESTINATION) not in (None, c.unique):
                    continue
                if s == BUS:
                    if m.mtype == SIGNAL:
                        continue
                    rs = m.fields.get(F_REPLY_SERIAL, 0)
                    if m.mtype == ERROR:
                        en = m.fields.get(F_ERROR_NAME, "?")
                        mine.append("E.%s.%d" % (en[len(ERRP):] if en.startswith(ERRP) else en, rs))
                    elif rs < HIGH:
                        mine.append("D.%d.%s" % (rs, "0" if (k, rs) in drv_zero or not m.body else m.body[0]))
                else:
                    notes["forwarded"] += 1
                    tok = m.body[0] if m.sig.startswith("u") and m.body else "?"
                    mine.append("F.%s.%s" % (by_unique.get(s, "?"), tok))
                    if tok not in sent or not same_message(sent[tok][1], m, uniq.get(sent[tok][0])):
                        notes["intact_bad"].append((tok, repr(m)))
                    for fd in m.fds:
                        try:
                            os.close(fd)
                        except OSError:
                            pass
            if sort_within:
                mine.sort()
            outs.extend((k, x) for x in mine)
        return "+".join("%d:%s" % o for o in outs) if outs else "-"

    def group_end(i):
        """end index (exclusive) of the run of pipelinable sends starting at i"""
        f0 = events[i].split(".")
        serials = {f0[5]}
        j = i + 1
        while j < len(events):
            f = events[j].split(".")
            if f[0] != "S" or f[1] != f0[1] or f[5] in serials:
                break
            serials.add(f[5])
            j += 1
        return j

    try:
        i = -1
        while i + 1 < len(events):
            i += 1
            tok = events[i]
            f = tok.split(".")
            if i in groups and groups[i][1] in conns and all(e.split(".")[8] == "0" for e in events[i:groups[i][0]]):
                j, k = groups[i]
                by_token, data = {}, b""
                for n in range(i, j):
                    g = events[n].split(".")
                    m = build_msg(g[1:], uniq, pad)
                    sent[int(g[9])] = (k, m)
                    by_token[g[9]] = n
                    data += m.encode()
                notes["burst_bytes"] += len(data)
                conns[k].sock.sendall(data)
                conns[k].close()
                del conns[k]
                if not bus.wait_gone(uniq[k]):
                    raise IOError("bus did not notice the disconnect of %s" % uniq[k])
                bus.obs.barrier()
                merged = collect()
                per_step = {n: [] for n in range(i, j + 1)}
                last = {}
                for x in ([] if merged == "-" else merged.split("+")):
                    r, d = x.split(":", 1)
                    parts = d.split(".")
                    n = by_token.get(parts[2], j) if parts[0] == "F" else j
                    if parts[0] == "F" and n < j:
                        if last.get(r, -1) > n:
                            notes["fifo_bad"].append((events[n], merged))
                        last[r] = max(last.get(r, -1), n)
                    per_step[n].append(x)
                per_step[j].sort()
                for n in range(i, j + 1):
                    toks.append("+".join(per_step[n]) if per_step[n] else "-")
                i = j
                continue
            if pipeline is True and f[0] == "S" and int(f[1]) in conns and group_end(i) > i + 1:
                j = group_end(i)
                k = int(f[1])
                by_token, by_serial = {}, {}
                for n in range(i, j):
                    g = events[n].split(".")
                    m = build_msg(g[1:], uniq, pad)
                    sent[int(g[9])] = (k, m)
                    by_token[g[9]], by_serial[g[5]] = n, n
                    conns[k].send(m, fds=[devnull] * int(g[8]))
                notes["pipelined"] += j - i
                merged = collect()
                per_step = {n: [] for n in range(i, j)}
                last = {}
                for x in ([] if merged == "-" else merged.split("+")):
                    r, d = x.split(":", 1)
                    parts = d.split(".")
                    n = by_token.get(parts[2]) if parts[0] == "F" else by_serial.get(parts[2]) if parts[0] == "E" else None
                    if n is None:
                        n = j - 1                      # not attributable: leave it on the last step, the diff will show it
                    elif last.get(r, -1) > n:
                        notes["fifo_bad"].append((events[n], merged))
                    last[r] = max(last.get(r, -1), n)
                    per_step[n].append(x)
                for n in range(i, j):
                    toks.append("+".join(per_step[n]) if per_step[n] else "-")
                i = j - 1
                continue
            if f[0][0] == "C":
                c = bus.connect(want_fds=(f[0][1] == "1"))
                c.serial = HIGH
                r = c.hello()
                if r is None or c.unique is None:
                    raise IOError("Hello failed")
                if f[0][1] == "1" and not c.can_fds:
                    raise IOError("fd passing not negotiated")
                conns[nextid], uniq[nextid] = c, c.unique
                by_unique[c.unique] = nextid
                nextid += 1
                toks.append(collect())
            elif f[0] == "S" and not stopped:
                k = int(f[1])
                if k not in conns or k in blocked:
                    toks.append("!")
                    continue
                m = build_msg(f[1:], uniq, pad)
                sent[int(f[9])] = (k, m)
                conns[k].send(m, fds=[devnull] * int(f[8]))
                toks.append(collect())
            elif f[0] == "D":
                k = int(f[1])
                if k not in conns:
                    toks.append("!")
                    continue
                conns[k].close()
                del conns[k]
                blocked.discard(k)
                if not bus.wait_gone(uniq[k]):
                    raise IOError("bus did not notice the disconnect of %s" % uniq[k])
                bus.obs.barrier()
                toks.append(collect(sort_within=True))
            elif f[0] == "T":
                time.sleep(int(f[1]) / 1000.0)
                nominal += int(f[1])
                bus.obs.barrier()
                toks.append(collect(sort_within=True))
            elif f[0] == "Z":
                # freeze the daemon: what the clients do until Y is seen by ONE main-loop iteration after SIGCONT
                pid = bus.d.proc.pid
                os.kill(pid, signal.SIGSTOP)
                for _ in range(400):
                    with open("/proc/%d/stat" % pid) as fh:
                        if fh.read().rsplit(")", 1)[1].split()[0] == "T":
                            break
                    time.sleep(0.002)
                else:
                    raise IOError("daemon did not stop")
                stopped = True
                toks.append("~")
            elif f[0] == "Y":
                os.kill(bus.d.proc.pid, signal.SIGCONT)
                stopped = False
                for k in hung:
                    if not bus.wait_gone(uniq[k]):
                        raise IOError("bus did not notice the disconnect of %s" % uniq[k])
                hung = []
                bus.obs.barrier()
                toks.append(collect(sort_within=True))
            elif f[0] == "H":
                k = int(f[1])
                if not stopped or k not in conns:
                    raise ValueError("H outside a frozen batch")
                conns[k].close()
                del conns[k]
                hung.append(k)
                toks.append("~")
            elif stopped and f[0] == "S":
                k = int(f[1])
                m = build_msg(f[1:], uniq, pad)
                sent[int(f[9])] = (k, m)
                conns[k].send(m)
                toks.append("~")
            elif f[0] == "B":
                k = int(f[1])
                if k not in conns or k in blocked:
                    toks.append("!")
                    continue
                t0 = time.time()
                blocked.add(k)
                notes["fillers"] = notes.get("fillers", 0) + bus.stall(uniq[k])
                toks.append(collect())
                nominal += (time.time() - t0) * 1000.0          # filling is not part of the model's clock
            elif f[0] == "U":
                k = int(f[1])
                if k not in conns or k not in blocked:
                    toks.append("!")
                    continue
                t0 = time.time()
                c = conns[k]
                # read until the bus has flushed its queue (while it is over the limit even the GetId reply would be dropped)
                quiet = 0
                while quiet < 2 and not c.closed:
                    n = len(c.inbox) + len(c.buf)
                    c._pump(0.03)
                    quiet = quiet + 1 if len(c.inbox) + len(c.buf) == n else 0
                for _ in range(20):
                    if c.closed or c.call("GetId", timeout=0.5) is not None:
                        break
                blocked.discard(k)
                toks.append(collect())
                nominal += (time.time() - t0) * 1000.0
            elif f[0] == "G":
                k = int(f[1])
                if k not in conns or k in blocked:
                    toks.append("!")
                    continue
                ser = int(f[2])
                drv_zero.add((k, ser))
                if ser % 2:
                    m = Msg(METHOD_CALL, 0, ser, {F_PATH: "/org/freedesktop/DBus", F_INTERFACE: BUS, F_MEMBER: "GetId", F_DESTINATION: BUS})
                else:
                    m = Msg(METHOD_CALL, 0, ser, {F_PATH: "/org/freedesktop/DBus", F_INTERFACE: BUS, F_MEMBER: "NameHasOwner", F_DESTINATION: BUS},
                            "s", (wk_name(ser % 3),))
                conns[k].send(m)
                toks.append(collect())
            elif f[0] == "M":
                k = int(f[1])
                if k not in conns or k in blocked:
                    toks.append("!")
                    continue
                conns[k].send(Msg(METHOD_CALL, 0, int(f[2]), {F_PATH: "/org/freedesktop/DBus", F_INTERFACE: BUS, F_MEMBER: "AddMatch",
                                                              F_DESTINATION: BUS}, "s", (rule_text(f[3:], uniq, int(f[2])),)))
                toks.append(collect())
            elif f[0] in ("R", "L"):
                k = int(f[1])
                if k not in conns or k in blocked:
                    toks.append("!")
                    continue
                drv_zero.discard((k, int(f[2])))
                if f[0] == "R":
                    fl = int(f[4])
                    m = Msg(METHOD_CALL, 0, int(f[2]), {F_PATH: "/org/freedesktop/DBus", F_INTERFACE: BUS, F_MEMBER: "RequestName",
                                                        F_DESTINATION: BUS}, "su", (wk_name(int(f[3])), fl))
                else:
                    m = Msg(METHOD_CALL, 0, int(f[2]), {F_PATH: "/org/freedesktop/DBus", F_INTERFACE: BUS, F_MEMBER: "ReleaseName",
                                                        F_DESTINATION: BUS}, "s", (wk_name(int(f[3])),))
                conns[k].send(m)
                toks.append(collect())
            else:
                raise ValueError("event " + tok)
        notes["drift_ms"] = (time.time() - t_start) * 1000.0 - nominal
    finally:
        if stopped:
            os.kill(bus.d.proc.pid, signal.SIGCONT)
        os.close(devnull)
        for k in sorted(conns):
            conns[k].close()
        for k in sorted(conns):
            bus.wait_gone(uniq[k], timeout=5.0)
        if any((".n%d." % k) in e or e.endswith(".%d.%s" % (k, "x")) for e in events for k in ACTIVATABLE if e[0] == "S"):
            bus.flush_activations()
        bus.obs.inbox = []
    return toks, notes


def canon_model_token(tok, sort_within):
    """bring the model's step token into the per-recipient grouping the sockets can observe"""
    if tok in ("-", "!"):
        return tok
    items = []
    for i, x in enumerate(tok.split("+")):
        r, d = x.split(":", 1)
        items.append((int(r), d if sort_within else "", i, d))
    items.sort()
    return "+".join("%d:%s" % (r, d) for r, _, _, d in items)


def run_chunk(args):
    """worker entry: (exe, cfg, [(idx, events)], retries) -> [(idx, tokens, notes)], (rc, stderr)"""
    exe, cfg, hists = args
    try:
        bus = Bus(exe, cfg)
    except (IOError, OSError):
        time.sleep(0.2)
        bus = Bus(exe, cfg)          # one retry: a loaded machine can miss the 10 s start-up window
    res = []
    try:
        for h in hists:
            idx, events = h[0], h[1]
            pipeline = len(h) > 2 and h[2]
            try:
                toks, notes = run_history(bus, events, pipeline)
                # timed configuration: the model assumes non-tick steps take no time; rerun when the machine was too slow
                tries = 0
                while cfg[2] >= 0 and notes["drift_ms"] > cfg[2] / 4.0 and tries < 3:
                    toks, notes = run_history(bus, events, pipeline)
                    tries += 1
                notes["tainted"] = cfg[2] >= 0 and notes["drift_ms"] > cfg[2] / 4.0
                res.append((idx, toks, notes))
            except Exception as e:            # harness trouble or daemon death: report, restart the daemon
                alive = bus.d.alive()
                rc, err = bus.stop()
                res.append((idx, None, {"exception": repr(e), "daemon_alive": alive, "rc": rc, "stderr": err[-3000:]}))
                bus = Bus(exe, cfg)
    finally:
        rc, err = bus.stop()
    return res, (rc, err[-4000:])
