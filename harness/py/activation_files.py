"""Generators and runner for the helper part of C19: command lines for
_dbus_shell_parse_argv, .service file contents for bus_desktop_file_load, and
complete invocations of dbus-daemon-launch-helper-for-tests (name argument,
configured service directories with generated files)."""
import os, shutil, subprocess, tempfile
from concurrent.futures import ThreadPoolExecutor

# ---------------------------------------------------------------- command lines
SHELL_ALPHA = [b"a", b"b", b"/", b" ", b" ", b"\t", b"\n", b"\\", b"\\", b'"', b'"', b"'", b"'", b"#", b"$", b"`", b"x", b"-", b"=", b"\xc3\xa9", b"\r"]


def gen_shell(rnd):
    r = rnd.random()
    if r < 0.45:
        return b"".join(rnd.choice(SHELL_ALPHA) for _ in range(rnd.randint(0, 12)))
    if r < 0.9:
        words = []
        for _ in range(rnd.randint(1, 4)):
            w = b"".join(rnd.choice([b"a", b"b c", b"\\", b'"', b"'", b"$x", b"`", b"#", b"\n", b"e\\"]) for _ in range(rnd.randint(0, 3)))
            q = rnd.random()
            if q < 0.3:
                w = b'"' + w.replace(b'"', b'\\"') + b'"'
            elif q < 0.5:
                w = b"'" + w.replace(b"'", b"'\\''") + b"'"
            elif q < 0.6:
                w = w.replace(b" ", b"\\ ")
            elif q < 0.7:
                w = b'"' + w + rnd.choice([b'"', b"", b'\\"', b'\\\\"'])
            words.append(w)
        sep = rnd.choice([b" ", b"  ", b"\t", b" \t ", b"\n"])
        return rnd.choice([b"", b" ", b""]) + sep.join(words) + rnd.choice([b"", b"", b" ", b"\n", b"#", b" #c", b"\\", b"\\\n"])
    return bytes(rnd.choice([0, 9, 10, 32, 34, 35, 39, 92, 97, 128, 255]) for _ in range(rnd.randint(0, 8)))


SHELL_FIXED = [b"", b" ", b"a", b"a ", b" a", b"a  b", b"a\tb", b"a\nb", b"a\n", b"\n", b"\n\n", b"#", b"a#", b"a #", b"a #b", b"a#b\nc", b"#\n", b"# x\ny",
               b"\\", b"a\\", b"a\\\nb", b"\\\n", b"a\\ b", b"\\a", b"\\\\", b"\\\\\\", b'"', b'""', b'"a b"', b'"a\\"b"', b'"a\\\\"', b'"a\\\\\\"', b'"a\\\\\\""',
               b'"\\x"', b'"\\$\\`\\\n"', b'"a', b"'", b"''", b"'a b'", b"'a\\'", b"'a\\'b'", b"'a", b"a'b c'd", b'a"b c"d', b"'a'\"b\"", b"'#'", b'"#"', b"a'#'b",
               b"a\\#b", b"\\#", b"a \\# b", b'"a"#b', b"a\0b", b"\0", b'a "" b', b"a '' b", b"''", b'"" ""', b"a\\\n", b'"\\\n"', b"a \\\nb", b"a\r\nb", b"\\\"", b"\\'",
               b"a\\", b'"\\', b'"\\\\', b"'\\", b"a #\\", b"a\\ #b", b"$HOME `x` *"]

# ---------------------------------------------------------------- .service files
SEC = b"[D-BUS Service]"
EOLS = [b"\n", b"\n", b"\n", b"\r\n", b"\r"]


def gen_value(rnd, base=None):
    if base is None:
        base = rnd.choice([b"x", b"t.N1", b"/bin/true", b"a b", b"", b"root", b"\xc3\xa9"])
    r = rnd.random()
    if r < 0.6:
        return base
    if r < 0.75:
        return base + rnd.choice([b"\\s", b"\\t", b"\\n", b"\\r", b"\\\\", b"\\s\\s"])
    if r < 0.85:
        return base + rnd.choice([b"\\", b"\\x", b"\\0", b"\\S", b"\\ ", b"\\\""])        # invalid escapes
    if r < 0.92:
        return rnd.choice([b" ", b"  ", b"\t"]) + base + rnd.choice([b" ", b"\t", b""])
    return base + rnd.choice([b"=y", b"[x]", b"#c", b";", b"\x01", b"\x7f"])


def gen_line(rnd, vals):
    r = rnd.random()
    if r < 0.42:
        key = rnd.choice([b"Name", b"Name", b"Exec", b"Exec", b"User", b"User", b"SystemdService", b"X-Foo", b"name", b"NAME", b"Name2", b"Na-me"])
        v = gen_value(rnd, vals.get(key))
        eq = rnd.choice([b"=", b"=", b"=", b" =", b"= ", b" = ", b"  =  ", b"\t=", b"=\t"])
        return key + eq + v
    if r < 0.50:
        return rnd.choice([b"Name[de]=x", b"Name[=x", b"Name[de", b"Exec[C]=/bin/false", b"Name [de]=x"])
    if r < 0.58:
        return rnd.choice([b"Name", b"Name x", b"=x", b" Name=x", b"\tName=x", b"Na_me=x", b"Na.me=x", b"Name:x", b"N\xc3\xa4me=x", b"Name==x", b"-=x", b"9=x"])
    if r < 0.68:
        return rnd.choice([b"", b" ", b"  \t", b"\f", b" \r ", b"\x0b", b" \r x", b"\t\r"])
    if r < 0.76:
        return rnd.choice([b"#", b"# comment", b"#Name=evil", b" #x", b"#\\"])
    if r < 0.90:
        return rnd.choice([SEC, SEC, SEC, b"[D-BUS Service] ", b" [D-BUS Service]", b"[D-BUS  Service]", b"[d-bus service]", b"[Other]", b"[Desktop Entry]", b"[]", b"[a]",
                           b"[", b"[a", b"[a]]", b"[[a]", b"[a]b", b"[a\x01]", b"[a\x7f]", b"[\xc3\xa9]", b"[ ]", b"[a][b]"])
    return bytes(rnd.choice([0, 9, 10, 13, 32, 35, 61, 91, 92, 93, 97, 110, 115, 128, 195, 169, 255]) for _ in range(rnd.randint(1, 6)))


def gen_desk(rnd, vals=None, good=0.35):
    """vals: preferred values for Name/Exec/User (so that complete files are common)"""
    vals = vals or {}
    if rnd.random() < good:
        # a well-formed file, lightly decorated
        keys = [b"Name", b"Exec", b"User"]
        rnd.shuffle(keys)
        if rnd.random() < 0.3:
            keys.remove(rnd.choice(keys))
        lines = [SEC]
        for k in keys:
            v = vals.get(k, b"v")
            if rnd.random() < 0.2:
                lines.append(rnd.choice([b"", b"# c", b"  ", b"X-Other=1"]))
            lines.append(k + rnd.choice([b"=", b"=", b" = "]) + (v if rnd.random() < 0.85 else gen_value(rnd, v)))
        if rnd.random() < 0.25:
            lines.insert(0, rnd.choice([b"", b"# c", b"[Other]", b"[Other]\nName=other"]))
        if rnd.random() < 0.2:
            lines.append(rnd.choice([b"[Other]", b"Name=second", SEC + b"\nName=dup", b"[X]\nUser=u2\nExec=/e2"]))
        eol = rnd.choice(EOLS)
        return eol.join(lines) + rnd.choice([eol, eol, b""])
    lines = [gen_line(rnd, vals) for _ in range(rnd.randint(0, 7))]
    if rnd.random() < 0.6:
        lines.insert(rnd.randint(0, min(1, len(lines))), SEC)
    out = b""
    for l in lines:
        out += l + rnd.choice(EOLS)
    if rnd.random() < 0.3:
        out = out[:-1] if out else out
    return out


DESK_FIXED = [b"", b"\n", SEC, SEC + b"\n", SEC + b"\nName=a", SEC + b"\nName=a\nExec=b\nUser=c\n", b"Name=a\n" + SEC + b"\n", SEC + b"\r\nName=a\r\nExec=b\r\n",
              SEC + b"\rName=a\rExec=b", SEC + b"\n \rName=a\n", SEC + b"\nName=a\rExec=evil\n", SEC + b"\nName=a\\nExec=b\n", SEC + b"\nName=\n", SEC + b"\nName\n",
              SEC + b"\nName=a\nName=b\n", SEC + b"\nExec=1\n" + SEC + b"\nName=a\n", b"[X]\nName=a\n" + SEC + b"\nExec=e\n", SEC + b"\nName=a\0b\n", SEC + b"\nName=\xff\n",
              SEC + b"\nName=\xc3\xa9\n", SEC + b" \nName=a\n", b"\xef\xbb\xbf" + SEC + b"\nName=a\n", b" " + SEC + b"\nName=a\n", b"#\n" + SEC + b"\nName=a", SEC + b"\n[]\n",
              SEC + b"\n[a\n", b"[a]", b"[ab", b"[]", b"[", SEC + b"\nName=a\\", SEC + b"\nName=a\\q\n", SEC + b"\nName=\\s\\t\\n\\r\\\\\n", SEC + b"\nNa me=a\n",
              SEC + b"\nName[de]=x\nName=a\n", SEC + b"\nName[de\n", SEC + b"\n=a\n", SEC + b"\n\f\nName=a\n", SEC + b"\n\x0b\n", SEC + b"\n \r \nName=a\n", SEC + b"\n \rX\n",
              SEC + b"\nName  =   a  \n", SEC + b"\nName\t=a\n", SEC + b"\nName=\ta\n"]

# ---------------------------------------------------------------- helper invocations
STUB_SH = b"""#!/bin/sh
for a in "$0" "$@"; do printf '%s\\0' "$a"; done > "$C19_OUT"
"""

NAME_POOL = [b"t.N1", b"t.N1", b"t.N1", b"org.example.Svc", b"a.b", b"t.N-1", b"t._1", b"A.B.C9", b":1.5", b":", b":a", b":1", b":1.5.x", b"t", b"t.", b".t", b"t..N", b"t.1N",
             b"t/N1", b"../x.y", b"t.N1/..", b"t N1", b"t.N1 ", b"", b"t.N1\n", b"t.\xc3\xa9", b"-t.N", b"t.N1.service", b"*.*", b"a" * 126 + b".b" * 64, b"a" * 127 + b".b" * 64 + b"c"]


VALID_NAMES = [b"t.N1", b"t.N1", b"org.example.Svc", b"a.b", b"t.N-1", b"t._1", b"A.B.C9", b":1.5", b":1.5.x", b"-t.N", b"t.N1.service", b"a" * 126 + b".b" * 64]


def gen_helper_case(rnd, stub):
    """returns (name, perm_ok, dirs) with dirs = [ {filename: content} ]; the Exec lines mostly run the stub"""
    name = rnd.choice(VALID_NAMES) if rnd.random() < 0.7 else rnd.choice(NAME_POOL)
    other = rnd.choice([b"t.N2", b"t.N1x", b"T.N1", b"t.n1", name + b"x", name[:-1], b":1.6", b"t.N1 "])
    ndirs = rnd.choice((0, 1, 1, 1, 1, 1, 2, 2, 2, 3, 3))
    dirs = []
    for _ in range(ndirs):
        d = {}
        for _ in range(rnd.choice((0, 1, 1, 1, 1, 1, 2))):
            r = rnd.random()
            fn = (name if r < 0.85 else other) + rnd.choice([b".service"] * 8 + [b".Service", b".service ", b".servic", b""])
            if b"/" in fn or b"\0" in fn or fn in (b"", b".", b"..") or len(fn) > 250:
                continue
            ex = exec_line(rnd, stub)
            nm = name if rnd.random() < 0.7 else rnd.choice([other, name + b" ", b" " + name, name.upper(), name + b"\\s", b""])
            vals = {b"Name": nm, b"Exec": ex, b"User": rnd.choice([b"root", b"nobody", b"", b"no such user"])}
            d[fn] = gen_desk(rnd, vals, good=0.8)
        dirs.append(d)
    return name, True, dirs


def exec_line(rnd, stub):
    r = rnd.random()
    args = [rnd.choice([b"a", b"'b c'", b'"d e"', b"f\\ g", b"--x=y", b"'#'", b"$HOME", b'"\\$q"', b"h\\\\s", b"''", b'""']) for _ in range(rnd.randint(0, 3))]
    tail = rnd.choice([b"", b"", b"", b" ", b" #c", b"\\s", b"\\n", b"\\nz"])
    if r < 0.72:
        head = rnd.choice([stub, stub, stub, b"'" + stub + b"'", b'"' + stub + b'"', b"''" + stub, stub + b'""', b"\\s" + stub])
        return head + b"".join(b" " + a for a in args) + tail
    if r < 0.82:
        return rnd.choice([b"/nonexistent/c19", b"c19-relative", b"", b"\\s", b"''", b"#" + stub, b"/nonexistent/c19 " + stub])
    if r < 0.92:
        return stub + b" " + rnd.choice([b"'unclosed", b'"unclosed', b"trailing\\\\", b"#", b'"a\\\\"b"'])       # \\\\ is one backslash after unescaping
    return stub + b" " + gen_shell(rnd).replace(b"\\", b"\\\\").replace(b"\n", b"\\n").replace(b"\r", b"\\r").replace(b"\0", b"")


def helper_line(case):
    name, perm, dirs = case
    hx = lambda b: b.hex() if b else "-"
    ds = "/".join(",".join("%s:%s" % (hx(fn), hx(c)) for fn, c in d.items()) or "-" for d in dirs) or "."
    return "helper %s %d %s" % (hx(name), 1 if perm else 0, ds)


def make_stub():
    """the program the generated Exec lines name; written once, before any helper is forked (a script that is still open for
    writing in a concurrently forked child cannot be executed: ETXTBSY)"""
    d = tempfile.mkdtemp(prefix="verif_hstub_")
    stub = os.path.join(d, "stub")
    with open(stub, "wb") as f:
        f.write(STUB_SH)
    os.chmod(stub, 0o755)
    return d, stub


def run_helper_one(helper_exe, case, stub):
    """returns the canonical result of the real binary: 'exit <code>' or 'exec <argv hex,...>' (plus notes)"""
    name, perm, dirs = case
    tmp = tempfile.mkdtemp(prefix="verif_hlp_")
    try:
        conf = ['<!DOCTYPE busconfig PUBLIC "-//freedesktop//DTD D-Bus Bus Configuration 1.0//EN" "http://www.freedesktop.org/standards/dbus/1.0/busconfig.dtd">',
                "<busconfig>", "<user>root</user>", "<type>system</type>"]
        for i, d in enumerate(dirs):
            dp = os.path.join(tmp, "d%d" % i)
            os.mkdir(dp)
            conf.append("<servicedir>%s</servicedir>" % dp)
            for fn, content in d.items():
                with open(os.path.join(dp.encode(), fn), "wb") as f:
                    f.write(content.replace(b"@STUB@", stub.encode()))
        conf.append("</busconfig>")
        cp = os.path.join(tmp, "conf.xml")
        with open(cp, "w") as f:
            f.write("\n".join(conf))
        # a file one level above the first directory, for the traversal names
        with open(os.path.join(tmp, "x.y.service"), "wb") as f:
            f.write(b"[D-BUS Service]\nName=../x.y\nExec=" + stub.encode() + b" traversed\nUser=root\n")
        outp = os.path.join(tmp, "out")
        env = {"TEST_LAUNCH_HELPER_CONFIG": cp, "C19_OUT": outp, "PATH": "/usr/bin:/bin",
               "ASAN_OPTIONS": "detect_leaks=0:abort_on_error=0:exitcode=99", "UBSAN_OPTIONS": "print_stacktrace=1:halt_on_error=1"}
        try:
            r = subprocess.run([helper_exe.encode(), name], env=env, cwd=tmp, capture_output=True, timeout=60)
        except ValueError:
            return "unrunnable", ""                       # NUL in argv
        err = r.stderr.decode("utf-8", "replace")
        if os.path.exists(outp):
            argv = open(outp, "rb").read().split(b"\0")[:-1]
            res = "exec " + ",".join(a.replace(stub.encode(), b"@STUB@").hex() if a else "-" for a in argv)
            if r.returncode != 0:
                res += " rc=%d" % r.returncode
        else:
            res = "exit %d" % r.returncode
        return res, err
    finally:
        shutil.rmtree(tmp, ignore_errors=True)


def expected_from_model(mres):
    """what the model's answer means for the observation above: execv of anything but the stub fails (exit 9)"""
    if mres.startswith("exec "):
        _, user, argv = mres.split(" ")
        args = argv.split(",")
        if args[0] == b"@STUB@".hex():
            return "exec " + argv
        return "exit 9"
    return mres


def run_helper_cases(helper_exe, cases, workers=8):
    d, stub = make_stub()
    try:
        with ThreadPoolExecutor(workers) as ex:
            return list(ex.map(lambda c: run_helper_one(helper_exe, c, stub), cases))
    finally:
        shutil.rmtree(d, ignore_errors=True)


# ---------------------------------------------------------------- the bus's service-file cache (bus/activation.c)
CACHE_NAMES = [b"a.b", b"a.b", b"a.c", b"x.y", b":1.7", b"nodot"]


def cache_content(rnd, name):
    r = rnd.random()
    ex = rnd.choice([b"/bin/x", b"/bin/y 1", b"/z 'q r'", b""])
    if r < 0.70:
        lines = [b"Name=" + name, b"Exec=" + ex]
        if rnd.random() < 0.3:
            lines.append(b"User=" + rnd.choice([b"root", b"u"]))
        if rnd.random() < 0.2:
            lines.append(b"SystemdService=" + rnd.choice([b"x.service", b""]))
        rnd.shuffle(lines)
        return SEC + b"\n" + b"\n".join(lines) + b"\n"
    if r < 0.78:
        return SEC + b"\nName=" + name + b"\n"                     # no Exec
    if r < 0.86:
        return SEC + b"\nExec=" + ex + b"\n"                        # no Name
    if r < 0.92:
        return b"[Other]\nName=" + name + b"\nExec=" + ex + b"\n"   # wrong group
    return rnd.choice([b"Name=" + name + b"\n", SEC + b"\nName\n", b"\xff", b"", SEC + b"\nName=" + name + b"\\q\nExec=x\n"])


def gen_cache_case(rnd):
    """returns (flags, ops) with ops as tuples: ('W', d, fname, mtime, content) ('R', d, fname) ('X', d) ('M', d) ('L',) ('F', name)"""
    nd = rnd.choice((1, 2, 2, 2, 3))
    flags = "".join("1" if rnd.random() < 0.25 else "0" for _ in range(nd))
    state = [dict() for _ in range(nd)]
    ops = []

    def fname_for(name):
        return rnd.choice([name + b".service"] * 5 + [b"other.service", b"zz.service", name + b".servic", b"README", name.upper() + b".service"])

    def write(d, mt=None):
        if state[d] is None:
            return
        name = rnd.choice(CACHE_NAMES)
        if state[d] and rnd.random() < 0.45:
            fn = rnd.choice(sorted(state[d]))                        # rewrite an existing file (same / newer / older mtime)
            old = state[d][fn][0]
            mt = rnd.choice([old, old, old + 1, old + 5, max(0, old - 1)])
        else:
            fn = fname_for(name)
            mt = rnd.randint(1, 9) if mt is None else mt
        c = cache_content(rnd, name)
        state[d][fn] = (mt, c)
        ops.append(("W", d, fn, mt, c))

    for _ in range(rnd.randint(1, 6)):
        write(rnd.randrange(nd))
    ops.append(("L",))
    for _ in range(rnd.randint(3, 10)):
        r = rnd.random()
        d = rnd.randrange(nd)
        if r < 0.30:
            write(d)
        elif r < 0.42:
            if state[d]:
                fn = rnd.choice(sorted(state[d]))
                del state[d][fn]
                ops.append(("R", d, fn))
        elif r < 0.46:
            if state[d] is not None:
                state[d] = None
                ops.append(("X", d))
            else:
                state[d] = {}
                ops.append(("M", d))
        elif r < 0.90:
            ops.append(("F", rnd.choice(CACHE_NAMES)))
        else:
            ops.append(("L",))
    ops.append(("F", rnd.choice(CACHE_NAMES)))
    return flags, ops


CACHE_FIXED = [
    # first directory wins; a later duplicate is ignored
    ("00", [("W", 0, b"a.b.service", 5, SEC + b"\nName=a.b\nExec=/x\n"), ("W", 1, b"a.b.service", 5, SEC + b"\nName=a.b\nExec=/y\n"), ("L",), ("F", b"a.b")]),
    # finding F19.4: the winner is removed; the first lookup says unknown although the second directory has a valid file
    ("00", [("W", 0, b"a.b.service", 5, SEC + b"\nName=a.b\nExec=/x\n"), ("W", 1, b"z.service", 5, SEC + b"\nName=a.b\nExec=/y\n"), ("L",), ("F", b"a.b"),
            ("R", 0, b"a.b.service"), ("F", b"a.b"), ("F", b"a.b")]),
    # strict naming: only in the directory flagged so
    ("10", [("W", 0, b"zz.service", 5, SEC + b"\nName=a.b\nExec=/x\n"), ("W", 1, b"zz.service", 5, SEC + b"\nName=a.c\nExec=/y\n"), ("L",), ("F", b"a.b"), ("F", b"a.c")]),
    # unique and malformed names are taken as they are (F19.1)
    ("0", [("W", 0, b"u.service", 5, SEC + b"\nName=:1.7\nExec=/x\n"), ("W", 0, b"n.service", 5, SEC + b"\nName=nodot\nExec=/x\n"), ("L",), ("F", b":1.7")]),
    # mtime: same second -> the change is not seen; newer -> reloaded; the Name changes to one that is taken -> entry dropped from the table, old object handed back
    ("0", [("W", 0, b"a.b.service", 5, SEC + b"\nName=a.b\nExec=/x\n"), ("W", 0, b"a.c.service", 5, SEC + b"\nName=a.c\nExec=/y\n"), ("L",),
           ("W", 0, b"a.b.service", 5, SEC + b"\nName=a.b\nExec=/changed\n"), ("F", b"a.b"),
           ("W", 0, b"a.b.service", 6, SEC + b"\nName=a.b\nExec=/changed\n"), ("F", b"a.b"),
           ("W", 0, b"a.b.service", 7, SEC + b"\nName=a.c\nExec=/clash\n"), ("F", b"a.b"), ("F", b"a.b"), ("F", b"a.c")]),
    # a file that stops parsing keeps its old entry
    ("0", [("W", 0, b"a.b.service", 5, SEC + b"\nName=a.b\nExec=/x\n"), ("L",), ("W", 0, b"a.b.service", 8, b"garbage"), ("F", b"a.b"), ("L",), ("F", b"a.b")]),
    # added file found by the rescan on a miss; directory removed and recreated
    ("00", [("L",), ("F", b"a.b"), ("W", 1, b"q.service", 3, SEC + b"\nExec=/x\nName=a.b\nUser=u\nSystemdService=s.service\n"), ("F", b"a.b"), ("X", 1), ("F", b"a.b"), ("M", 1), ("F", b"a.b")]),
]


def cache_impl_line(case):
    flags, ops = case
    hx = lambda b: b.hex() if b else "-"
    toks = []
    for op in ops:
        if op[0] == "W":
            toks.append("W.%d.%s.%d.%s" % (op[1], hx(op[2]), op[3], hx(op[4])))
        elif op[0] == "R":
            toks.append("R.%d.%s" % (op[1], hx(op[2])))
        elif op[0] in "XM":
            toks.append("%s.%d" % (op[0], op[1]))
        elif op[0] == "L":
            toks.append("L")
        else:
            toks.append("F.%s" % hx(op[1]))
    return "cache %s %s" % (flags, " ".join(toks))


def cache_model_line(case, impl_result):
    """the model reads the same operations, with the file system as readdir showed it to the implementation at each L / F"""
    flags, ops = case
    hx = lambda b: b.hex() if b else "-"
    state = [dict() for _ in flags]
    outs = impl_result.split(" ")
    k = 0
    toks = []
    for op in ops:
        if op[0] == "W":
            if state[op[1]] is not None:
                state[op[1]][op[2]] = (op[3], op[4])
        elif op[0] == "R":
            if state[op[1]] is not None:
                state[op[1]].pop(op[2], None)
        elif op[0] == "X":
            state[op[1]] = None
        elif op[0] == "M":
            if state[op[1]] is None:
                state[op[1]] = {}
        else:
            if k >= len(outs) or outs[k].count("/") != 2:
                return None
            order = outs[k].split("/")[2].split("|")
            k += 1
            dirs = []
            for d, o in enumerate(order):
                if o == "!":
                    dirs.append("!")
                elif o == "-":
                    dirs.append("-")
                else:
                    fs = []
                    for fh in o.split(","):
                        fn = bytes.fromhex(fh)
                        if state[d] is None or fn not in state[d]:
                            return None                      # the harness's book-keeping is off
                        mt, c = state[d][fn]
                        fs.append("%s:%d:%s" % (fh, mt, hx(c)))
                    dirs.append(",".join(fs))
            fsx = "|".join(dirs)
            toks.append(("L@" if op[0] == "L" else "F.%s@" % hx(op[1])) + fsx)
    return "cachem %s %s" % (flags, " ".join(toks))


def cache_strip_order(impl_result):
    return " ".join("/".join(t.split("/")[:2]) for t in impl_result.split(" "))
