"""History generators for the routing checks (C09 restrictive policy / C05 permissive policy).
A history is a list of event tokens (grammar in ml/routing/driver.ml).  The generator keeps a rough
shadow of who is connected and which calls are probably outstanding so that most replies are
'interesting' (genuine, duplicate, wrong serial, from / to a third party); exactness is not needed:
the model and the real bus both decide every event themselves."""

TIMEOUT = 300          # ms, the finite reply_timeout used in timed configurations
TICK_PART = 170        # two of these exceed TIMEOUT, one does not
TICK_FULL = 420


class Shadow:
    def __init__(self, rnd, cfg, mode):
        self.rnd, self.cfg, self.mode = rnd, cfg, mode
        self.live = {}            # id -> fds flag
        self.gone = []
        self.nextid = 0
        self.out = []             # probably outstanding (caller, callee, serial)
        self.done = []            # answered / dropped ones, for duplicates
        self.names = {}           # name -> [ids] (rough queue)
        self.token = 0
        self.ev = []
        self.fresh = 10
        self.nrules = 0
        self.blocked = set()

    def tok(self):
        self.token += 1
        return self.token

    def serial(self):
        if self.rnd.random() < 0.6:
            return self.rnd.choice((1, 2, 3))
        self.fresh += 1
        return self.fresh

    def connect(self, fds=None):
        if fds is None:
            fds = self.rnd.random() < (0.35 if self.mode == "c09" else 0.25)
        self.live[self.nextid] = fds
        self.nextid += 1
        self.ev.append("C%d" % (1 if fds else 0))

    def send(self, c, ty, dst, serial=None, rserial=0, noreply=None, noauto=None, nfds=None):
        rnd = self.rnd
        if serial is None:
            serial = self.serial()
        if noreply is None:
            noreply = rnd.random() < (0.15 if ty == "c" else 0.3)
        if noauto is None:
            noauto = rnd.random() < 0.4
        if nfds is None:
            nfds = rnd.choice((1, 1, 2)) if (self.live.get(c) and rnd.random() < 0.18) else 0
        t = self.tok()
        self.ev.append("S.%d.%s.%d.%d.%d.%d.%s.%d.%d" % (c, ty, noreply, noauto, serial, rserial, dst, nfds, t))
        if ty == "c" and not noreply and dst[0] == "u" and int(dst[1:]) in self.live:
            self.out.append((c, int(dst[1:]), serial))
        elif ty == "c" and not noreply and dst[0] == "n" and self.names.get(int(dst[1:])):
            self.out.append((c, self.names[int(dst[1:])][0], serial))
        if rserial and dst[0] == "u" and ty in "cres":
            k = (int(dst[1:]), c, rserial)
            if k in self.out:
                self.out.remove(k)
                self.done.append(k)

    def pick_dest(self, c):
        rnd = self.rnd
        r = rnd.random()
        others = [k for k in self.live if k != c]
        if r < 0.68 and others:
            return "u%d" % rnd.choice(others)
        if r < 0.76:
            return "u%d" % c
        if r < 0.86 or self.mode == "c05" and r < 0.95:
            return "n%d" % rnd.choice((0, 1, 2))
        if self.gone and r < 0.97:
            return "u%d" % rnd.choice(self.gone)
        return "u%d" % (self.nextid + rnd.choice((0, 3)))

    def disconnect(self, c):
        self.ev.append("D.%d" % c)
        self.blocked.discard(c)
        del self.live[c]
        self.gone.append(c)
        for k in list(self.out):
            if c in k[:2]:
                self.out.remove(k)
                self.done.append(k)
        for n in list(self.names):
            self.names[n] = [x for x in self.names[n] if x != c]

    def add_match(self, c):
        """match rules on unicast traffic: mostly eavesdrop='true', held by recipients (own incoming traffic), senders and
        bystanders alike; type / sender / destination keys"""
        rnd = self.rnd
        def name():
            r = rnd.random()
            if r < 0.6 and self.live:
                return "u%d" % rnd.choice(list(self.live))
            return "n%d" % rnd.choice((0, 1, 2))
        ev = 1 if rnd.random() < 0.8 else 0
        ty = rnd.choice("xxxxcres")
        sd = name() if rnd.random() < 0.3 else "x"
        ds = name() if rnd.random() < 0.4 else "x"
        if not ev and ty == "x" and sd == "x" and ds == "x":
            ty = "s"
        self.nrules += 1
        self.ev.append("M.%d.%d.%d.%s.%s.%s" % (c, self.serial(), ev, ty, sd, ds))

    def name_op(self, c):
        rnd = self.rnd
        n = rnd.choice((0, 1, 2))
        if rnd.random() < 0.7:
            fl = rnd.choice((0, 0, 1, 2, 3, 4, 4, 5, 6, 7))
            self.ev.append("R.%d.%d.%d.%d" % (c, self.serial(), n, fl))
            q = self.names.setdefault(n, [])
            if c not in q:
                if fl & 2 and q and rnd.random() < 0.5:
                    q.insert(0, c)
                elif not (fl & 4) or not q:
                    q.append(c)
        else:
            self.ev.append("L.%d.%d.%d" % (c, self.serial(), n))
            if n in self.names:
                self.names[n] = [x for x in self.names[n] if x != c]


def gen_history(rnd, cfg, mode, nsteps):
    """mode 'c09' (replies in every flavour) or 'c05' (names, all four types, ownership changes)"""
    sh = Shadow(rnd, cfg, mode)
    timed = cfg[2] >= 0
    sh.connect()
    sh.connect()
    if rnd.random() < 0.7:
        sh.connect()
    nticks = 0
    while len(sh.ev) < nsteps:
        live = [k for k in sh.live if k not in sh.blocked]          # stalled connections write nothing
        if len(live) < 2 and sh.nextid < 7:
            sh.connect()
            continue
        if not live:
            break
        w = {"call": 6, "connect": 1.0 if len(live) < 4 and sh.nextid < 6 else 0, "disc": 1.3,
             "genuine": 5 if sh.out else 0, "dup": 2 if sh.done else 0, "wrong": 2 if sh.out else 0,
             "third": 2 if sh.out and len(live) >= 3 else 0, "tothird": 2 if sh.out and len(live) >= 3 else 0,
             "callrs": 0.7 if sh.out or sh.done else 0.2, "sigrs": 0.5, "unsol": 0.8, "sig": 0.8, "name": 1.0, "match": 0.3, "drv": 0.3, "unk": 2.0 if sh.out else 0.4,
             "tick": ((10.0 if sh.out else 2.0) if nticks < 3 else 0) if timed else 0.15}
        if len(cfg) > 3:
            idle = [k for k in live if not any(o[0] == k for o in sh.out)]
            w["block"] = 2.0 if idle and len(sh.blocked) < 2 and len(live) > 2 else 0
            w["drain"] = 1.5 if sh.blocked else 0
        if mode == "c05":
            w.update({"drv": 2.0, "match": 2.5 if sh.nrules < 5 else 0.3, "name": 4, "sig": 3, "call": 6, "unsol": 2.5, "genuine": 3 if sh.out else 0, "dup": 0.5 if sh.done else 0,
                      "wrong": 0.5 if sh.out else 0, "third": 0.5 if w["third"] else 0, "tothird": 0.5 if w["tothird"] else 0})
        kinds = [k for k in w if w[k] > 0]
        kind = rnd.choices(kinds, [w[k] for k in kinds])[0]
        rty = rnd.choice(("r", "r", "e"))
        if kind == "call":
            c = rnd.choice(live)
            sh.send(c, "c", sh.pick_dest(c))
        elif kind == "connect":
            sh.connect()
        elif kind == "disc":
            # prefer a party of an outstanding call
            if sh.out and rnd.random() < 0.7:
                k = rnd.choice(sh.out)
                c = k[rnd.choice((0, 1, 1))]
            else:
                c = rnd.choice(live)
            if c in sh.live:
                sh.disconnect(c)
        elif kind == "genuine":
            a, b, s = rnd.choice(sh.out)
            if b in live:
                sh.send(b, rty, "u%d" % a, rserial=s)
        elif kind == "dup":
            a, b, s = rnd.choice(sh.done)
            if b in live:
                sh.send(b, rty, "u%d" % a, rserial=s)
        elif kind == "wrong":
            a, b, s = rnd.choice(sh.out)
            if b in live:
                sh.send(b, rty, "u%d" % a, rserial=s + rnd.choice((1, 2, 7)))
        elif kind == "third":
            a, b, s = rnd.choice(sh.out)
            cs = [k for k in live if k != b]
            if cs:
                sh.send(rnd.choice(cs), rty, "u%d" % a, rserial=s)
        elif kind == "tothird":
            a, b, s = rnd.choice(sh.out)
            cs = [k for k in live if k != a]
            if cs and b in live:
                sh.send(b, rty, "u%d" % rnd.choice(cs), rserial=s)
        elif kind == "callrs":
            pool = sh.out + sh.done
            if pool and rnd.random() < 0.8:
                a, b, s = rnd.choice(pool)
                if b in live:
                    sh.send(b, "c", "u%d" % a, rserial=s)
            else:
                c = rnd.choice(live)
                sh.send(c, "c", sh.pick_dest(c), rserial=rnd.choice((1, 2, 3)))
        elif kind == "sigrs":
            if sh.out and rnd.random() < 0.7:
                a, b, s = rnd.choice(sh.out)
                if b in live:
                    sh.send(b, "s", "u%d" % a, rserial=s)
            else:
                c = rnd.choice(live)
                sh.send(c, "s", sh.pick_dest(c), rserial=rnd.choice((1, 2, 3)))
        elif kind == "unsol":
            c = rnd.choice(live)
            sh.send(c, rty, sh.pick_dest(c), rserial=rnd.choice((1, 2, 3, 9)))
        elif kind == "sig":
            c = rnd.choice(live)
            sh.send(c, "s", sh.pick_dest(c))
        elif kind == "name":
            sh.name_op(rnd.choice(live))
        elif kind == "block":
            c = rnd.choice(idle)
            sh.blocked.add(c)
            sh.ev.append("B.%d" % c)
        elif kind == "drain":
            c = rnd.choice(sorted(sh.blocked))
            sh.blocked.discard(c)
            sh.ev.append("U.%d" % c)
        elif kind == "match":
            sh.add_match(rnd.choice(live))
        elif kind == "unk":
            # a message of a type the bus does not know (5, 9, 255), carrying the reply serial of an outstanding call: from the
            # callee, from a third party, to a third party, or with no / a wrong reply serial
            uty = rnd.choice("vuw")
            if sh.out and rnd.random() < 0.8:
                a, b, s0 = rnd.choice(sh.out)
                r = rnd.random()
                if r < 0.6 and b in live:
                    sh.send(b, uty, "u%d" % a, rserial=s0, nfds=0)
                elif r < 0.8:
                    cs = [k for k in live if k != b]
                    if cs:
                        sh.send(rnd.choice(cs), uty, "u%d" % a, rserial=s0, nfds=0)
                elif b in live:
                    sh.send(b, uty, sh.pick_dest(b), rserial=s0, nfds=0)
            else:
                c = rnd.choice(live)
                sh.send(c, uty, sh.pick_dest(c), rserial=rnd.choice((0, 0, 1, 2, 3)))
        elif kind == "drv":
            sh.ev.append("G.%d.%d" % (rnd.choice(live), sh.serial()))
        elif kind == "tick":
            nticks += 1
            d = rnd.choice((TICK_PART, TICK_PART, TICK_FULL, TICK_FULL)) if timed else 40
            sh.ev.append("T.%d" % d)
            if timed and d == TICK_FULL:          # everything outstanding has expired: later replies are late replies
                sh.done += sh.out
                sh.out = []
    return sh.ev


def scenarios():
    """hand-written boundary histories: (name, cfg, events).  cfg = (restrictive, max_replies, timeout)."""
    S = []
    T = TIMEOUT

    def call(c, d, ser, tok, nr=0, nfds=0, rs=0, na=0):
        return "S.%d.c.%d.%d.%d.%d.%s.%d.%d" % (c, nr, na, ser, rs, d, nfds, tok)

    def ret(c, d, ser, rs, tok, ty="r", nfds=0):
        return "S.%d.%s.0.0.%d.%d.%s.%d.%d" % (c, ty, ser, rs, d, nfds, tok)

    for restrictive in (1, 0):
        R = restrictive
        # F7: fd-carrying call to a peer without fd passing: NotSupported, then forged reply / disconnect / timeout
        S.append(("f7-forged-reply", (R, 4, -1), ["C1", "C0", call(0, "u1", 7, 1, nfds=1), ret(1, "u0", 9, 7, 2), ret(1, "u0", 10, 7, 3)]))
        S.append(("f7-disconnect", (R, 4, -1), ["C1", "C0", call(0, "u1", 7, 1, nfds=1), "D.1"]))
        S.append(("f7-timeout", (R, 4, T), ["C1", "C0", call(0, "u1", 7, 1, nfds=2), "T.%d" % TICK_FULL]))
        S.append(("f7-limit", (R, 1, -1), ["C1", "C0", call(0, "u1", 7, 1, nfds=1), call(0, "u1", 8, 2), "D.1"]))
        S.append(("f7-dup", (R, 4, -1), ["C1", "C0", call(0, "u1", 7, 1, nfds=1), call(0, "u1", 7, 2), ret(1, "u0", 3, 7, 3)]))
        # reply side: the slot is consumed although the reply is refused afterwards
        S.append(("reply-fd-refused", (R, 4, -1), ["C0", "C1", call(0, "u1", 7, 1), ret(1, "u0", 9, 7, 2, nfds=1), ret(1, "u0", 10, 7, 3), "D.1"]))
        S.append(("callrs-refused-limit", (R, 1, -1), ["C0", "C0", "C0", call(1, "u2", 5, 1), call(0, "u1", 7, 2), call(1, "u0", 6, 3, rs=7), ret(1, "u0", 8, 7, 4), "D.1"]))
        S.append(("callrs-passes", (R, 4, -1), ["C0", "C0", call(0, "u1", 7, 1), call(1, "u0", 6, 2, rs=7), ret(1, "u0", 8, 7, 3), ret(0, "u1", 9, 6, 4)]))
        # limit boundary
        for lim in (1, 2, 3):
            ev = ["C0", "C0", "C0"]
            for i in range(lim + 1):
                ev.append(call(0, "u%d" % (1 + i % 2), 10 + i, 1 + i))
            ev += [ret(1, "u0", 50, 10, 20), call(0, "u2", 30, 21), call(0, "u2", 31, 22), "D.1", call(0, "u2", 32, 23)]
            S.append(("limit-%d" % lim, (R, lim, -1), ev))
        S.append(("limit-0", (R, 0, -1), ["C0", "C0", call(0, "u1", 1, 1), call(0, "u1", 2, 2, nr=1), ret(1, "u0", 3, 2, 3)]))
        # serial reuse: same triple refused, other callee fine, after the answer fine again
        S.append(("reuse", (R, 5, -1), ["C0", "C0", "C0", call(0, "u1", 7, 1), call(0, "u1", 7, 2), call(0, "u2", 7, 3), ret(1, "u0", 1, 7, 4),
                                        call(0, "u1", 7, 5), ret(2, "u0", 1, 7, 6), ret(2, "u0", 2, 7, 7), ret(1, "u0", 2, 7, 8), ret(1, "u0", 3, 7, 9)]))
        # no-reply flag opens nothing; self call; caller leaves; callee leaves with several callers
        S.append(("noreply", (R, 5, -1), ["C0", "C0", call(0, "u1", 7, 1, nr=1), ret(1, "u0", 1, 7, 2), "D.1"]))
        S.append(("self", (R, 5, -1), ["C0", call(0, "u0", 7, 1), call(0, "u0", 7, 2), ret(0, "u0", 8, 7, 3), ret(0, "u0", 9, 7, 4), call(0, "u0", 7, 5), "D.0"]))
        S.append(("caller-leaves", (R, 5, -1), ["C0", "C0", "C0", call(0, "u1", 7, 1), "D.0", ret(1, "u0", 1, 7, 2), "C0", ret(1, "u3", 2, 7, 3)]))
        S.append(("callee-leaves", (R, 5, -1), ["C0", "C0", "C0", call(0, "u1", 7, 1), call(2, "u1", 7, 2), call(0, "u1", 8, 3), call(0, "u2", 9, 4),
                                                call(1, "u1", 3, 5), "D.1", ret(2, "u0", 1, 9, 6)]))
        # timeouts: partial expiry, late reply, finite vs infinite
        S.append(("timeout-partial", (R, 5, T), ["C0", "C0", call(0, "u1", 7, 1), "T.%d" % TICK_PART, call(0, "u1", 8, 2), "T.%d" % TICK_PART,
                                                 ret(1, "u0", 1, 7, 3), ret(1, "u0", 2, 8, 4), "T.%d" % TICK_FULL]))
        S.append(("timeout-none", (R, 5, -1), ["C0", "C0", call(0, "u1", 7, 1), "T.%d" % TICK_FULL, ret(1, "u0", 1, 7, 2)]))
        S.append(("timeout-two-callers", (R, 5, T), ["C0", "C0", "C0", call(0, "u1", 7, 1), call(2, "u1", 7, 2), call(0, "u2", 7, 3), "T.%d" % TICK_FULL, "D.1"]))
        # well-known names: owner changes between call and reply; queue promotion on disconnect
        S.append(("name-handover", (R, 5, -1), ["C0", "C0", "C0", "R.1.20.0.1", "R.2.20.0.0", call(0, "n0", 7, 1), "L.1.21.0", ret(2, "u0", 1, 7, 2),
                                                ret(1, "u0", 2, 7, 3), call(0, "n0", 8, 4), "D.2", call(0, "n0", 9, 5, na=1), call(0, "n0", 9, 6)]))
        S.append(("name-replace", (R, 5, -1), ["C0", "C0", "C0", "R.1.20.1.1", "R.2.21.1.3", call(0, "n1", 7, 1), "R.1.22.1.6", call(0, "n1", 8, 2),
                                               "R.1.23.1.2", "D.2", call(0, "n1", 9, 3), "S.0.s.0.0.4.0.n1.0.4", "S.0.e.0.0.5.3.n1.0.5"]))
    for R in (0, 1):
        allty = [ret(0, "u1", 31, 5, 1), ret(0, "u1", 32, 5, 2, ty="e"), "S.0.s.0.0.33.0.u1.0.3", call(0, "u1", 34, 4, nr=1), call(0, "u1", 35, 5),
                 "S.0.s.0.0.36.0.n0.0.6", call(0, "n0", 37, 7, nr=1)]
        # the addressed recipient holds eavesdrop rules matching its own incoming traffic: still exactly one copy
        S.append(("match-own-rule", (R, 50, -1), ["C0", "C0", "C0", "R.1.20.0.0", "M.1.21.1.x.x.x", "M.1.22.1.s.x.u1", "M.1.23.1.x.u0.n0"] + allty))
        # recipient with own rule + pure eavesdropper + bystander with ordinary rules + eavesdropping sender
        S.append(("match-mixed", (R, 50, -1), ["C0", "C0", "C0", "C0", "R.1.20.0.0", "M.1.21.1.x.x.x", "M.2.22.1.x.x.x", "M.2.23.1.s.x.x", "M.3.24.0.s.x.x",
                                               "M.3.25.0.x.u0.x", "M.0.26.1.x.x.u1"] + allty + ["D.2", "S.0.s.0.0.38.0.u1.0.8"]))
        # rule keyed on a well-known name whose owner changes; eavesdropper without fd passing and an fd-carrying message
        S.append(("match-name-handover", (R, 50, -1), ["C1", "C1", "C0", "C1", "R.1.20.0.0", "R.3.21.0.0", "M.2.22.1.x.x.n0", "M.3.23.1.x.x.n0", "M.1.24.1.x.n0.x",
                                                       "S.0.s.0.0.30.0.n0.0.1", "S.0.s.0.0.31.0.u1.1.2", "S.0.s.0.0.32.0.u3.0.3", "L.1.25.0", "S.0.s.0.0.33.0.n0.0.4",
                                                       "S.0.s.0.0.34.0.u1.0.5", "S.3.s.0.0.35.0.u0.0.6", "S.1.s.0.0.36.0.u0.0.7"]))
    # stalled recipients: queue at the bus over max_outgoing_bytes -> LimitsExceeded, NO slot (4th cfg component = limit)
    Q = 30000
    for R in (1, 0):
        S.append(("queue-bounce-then-reply", (R, 4, -1, Q), ["C0", "C0", "C0", "B.1", call(0, "u1", 7, 1), "S.2.s.0.0.3.0.u1.0.2", call(0, "u1", 7, 3),
                                                            "U.1", ret(1, "u0", 9, 7, 4), call(0, "u1", 7, 5), ret(1, "u0", 10, 7, 6), ret(1, "u0", 11, 7, 7), "D.1"]))
        S.append(("queue-bounce-then-leave", (R, 4, -1, Q), ["C0", "C0", "B.1", call(0, "u1", 7, 1), call(0, "u1", 8, 2, nr=1), "D.1", "C0", call(0, "u2", 7, 3), "D.2"]))
        S.append(("queue-bounce-timeout", (R, 4, T, Q), ["C0", "C0", "B.1", call(0, "u1", 7, 1), "T.%d" % TICK_FULL, "U.1", ret(1, "u0", 9, 7, 2),
                                                         call(0, "u1", 8, 3), "T.%d" % TICK_FULL]))
        S.append(("queue-name", (R, 4, -1, Q), ["C0", "C0", "C0", "R.1.20.0.0", "R.2.21.0.0", "B.1", call(0, "n0", 7, 1), "S.0.s.0.0.8.0.n0.0.2", "D.1",
                                                call(0, "n0", 7, 3), ret(2, "u0", 9, 7, 4)]))
        S.append(("queue-limit", (R, 1, -1, Q), ["C0", "C0", "C0", "B.1", call(0, "u1", 7, 1), call(0, "u2", 8, 2), call(0, "u2", 9, 3), "U.1", call(0, "u1", 7, 4)]))
        S.append(("queue-reply-serial", (R, 4, -1, Q), ["C0", "C0", "C0", call(2, "u0", 5, 1), "B.1", ret(0, "u1", 6, 5, 2), ret(0, "u2", 7, 5, 3), "S.0.s.0.0.8.9.u1.0.4", "U.1",
                                                        ret(0, "u1", 9, 5, 5)]))
    # activation: messages held for t.N8 are released in order to whoever acquires it, before its RequestName reply
    for R in (0, 1):
        S.append(("act-hold-release", (R, 50, -1), ["C0", "C0", "C0", call(0, "n8", 3, 1, nr=1), "S.0.s.0.0.4.0.n8.0.2", call(2, "n8", 5, 3), call(0, "n8", 6, 4, nr=1, na=1),
                                                   call(0, "n3", 7, 5, nr=1), "R.1.9.8.0", "S.0.s.0.0.8.0.n8.0.6", ret(1, "u2", 2, 5, 7), "L.1.10.8",
                                                   call(0, "n8", 11, 8, nr=1), "D.0", "R.2.12.8.0"]))
        S.append(("act-six-in-a-row", (R, 50, -1), ["C0", "C0"] + [call(0, "n9", 30 + i, 1 + i, nr=1) for i in range(6)] + ["R.1.9.9.4", call(0, "n9", 40, 9, nr=1)]))
        S.append(("act-reply-serial", (R, 50, -1), ["C0", "C0", "C0", call(1, "u0", 5, 1), ret(0, "n8", 6, 5, 2), "S.0.s.0.0.7.0.n8.0.3", "R.1.9.8.0"]))
    # calls to the bus driver are unicast: plain rules of every shape get nothing, eavesdrop rules one copy (also the caller's own)
    for R in (0, 1):
        S.append(("driver-calls", (R, 50, -1), ["C0", "C0", "C0", "C0", "M.1.20.0.x.x.x", "M.1.21.0.c.x.x", "M.1.22.0.x.u0.x", "M.1.23.0.s.x.x", "M.2.24.1.x.x.x",
                                                "M.3.25.1.c.u0.x", "M.3.26.1.s.x.x", "R.0.30.3.0", "G.0.31", "G.0.32", "L.0.33.3", "M.0.34.1.x.x.x", "G.0.35",
                                                "R.1.36.4.4", "G.3.37", "D.2", "G.0.38"]))
    # message types the bus does not know are refused first and change nothing, whatever reply serial they carry
    def unk(c, d, ser, rs, tok, ty="u"):
        return "S.%d.%s.0.0.%d.%d.%s.0.%d" % (c, ty, ser, rs, d, tok)
    for R in (1, 0):
        S.append(("unknown-type-then-reply", (R, 4, -1), ["C0", "C0", "C0", call(0, "u1", 7, 1), unk(1, "u0", 8, 7, 2), unk(2, "u0", 8, 7, 3, "v"), unk(1, "u2", 9, 7, 4, "w"),
                                                         ret(1, "u0", 10, 7, 5), ret(1, "u0", 11, 7, 6), unk(1, "u0", 12, 0, 7), unk(1, "n2", 13, 7, 8), unk(1, "n8", 14, 7, 9)]))
        S.append(("unknown-type-then-leave", (R, 4, -1), ["C0", "C0", call(0, "u1", 7, 1), unk(1, "u0", 8, 7, 2), unk(1, "u0", 9, 7, 3, "w"), "D.1"]))
        S.append(("unknown-type-then-timeout", (R, 4, T), ["C0", "C0", call(0, "u1", 7, 1), unk(1, "u0", 8, 7, 2, "v"), "T.%d" % TICK_FULL, unk(1, "u0", 9, 7, 3)]))
    S.append(("queue-eavesdropper", (0, 4, -1, Q), ["C0", "C0", "C0", "M.2.20.1.x.x.x", "B.2", "S.0.s.0.0.7.0.u1.0.1", call(0, "u1", 8, 2), "U.2", "S.0.s.0.0.9.0.u1.0.3"]))
    return S


def enum_cases(depth, restrictive=1, maxrep=2):
    """every sequence of `depth` events from a small alphabet after three connects: all orders of call / reply / forged
    reply / duplicate / disconnect around one or two outstanding calls"""
    import itertools
    alpha = ["S.0.c.0.0.7.0.u1.0.%d", "S.0.c.1.0.7.0.u1.0.%d", "S.0.c.0.0.7.0.u2.0.%d", "S.0.c.0.0.8.0.u1.0.%d",
             "S.1.r.0.0.1.7.u0.0.%d", "S.2.e.0.0.1.7.u0.0.%d", "S.1.r.0.0.1.7.u2.0.%d", "S.1.e.0.0.1.8.u0.0.%d",
             "S.1.c.0.0.7.0.u0.0.%d", "S.0.r.0.0.2.7.u1.0.%d", "D.1", "D.0"]
    out = []
    for seq in itertools.product(range(len(alpha)), repeat=depth):
        ev = ["C0", "C0", "C0"]
        for i, k in enumerate(seq):
            ev.append(alpha[k] % (i + 1) if "%d" in alpha[k] else alpha[k])
        out.append(("enum", (restrictive, maxrep, -1), ev))
    return out
