"""C13 implementation side: replays one history of events against a fresh
dbus-daemon (the ASan build of /repo's working tree) configured with generated
<limit> values, using raw-wire clients, and reports per event what the model
driver (ml/limits/driver.ml) reports: every message each connection received
because of the event, per socket in arrival order, as  <conn>><msg>,...

Events (same text as the model driver's input):
  C<uid>              connect with the credentials of <uid> (the process switches its
                      effective uid around connect(); the sandbox runs as root) and send a
                      bare "AUTH" line: "accepted" (the server answers REJECTED <mechanisms>)
                      or "waiting" (nobody accept()ed)
  U<c>                AUTH EXTERNAL <uid>, BEGIN: "authok"
  H<c>                Hello
  D<c>                close the socket
  R<c>,<hex>,<flags>  RequestName          L<c>,<hex>  ReleaseName
  A<c>,<rule|x>       AddMatch             V<c>,<rule|x>  RemoveMatch   (x: unparsable text)
  K<c>,<d>,<serial>,<0|1>,<rs>   method call from c to d's unique name (1: NO_REPLY_EXPECTED; rs != 0: with a REPLY_SERIAL field)
  Y<d>,<c>,<serial>   method return from d to c's unique name
  T<c>,<serial>       wait until c got the NoReply error for that call (reply_timeout configured)
  E<c>,<tag>          signal that rule <tag> selects
  M<c>,<size>[,<pad>[,<B|L>]]  message to the driver of exactly <size> bytes on the wire, with <pad> (0..7) bytes of
                      padding after the header field array, big- or little-endian (reported to the model as its first 16 bytes)
  G<7 limits>         rewrite the configuration file with these limits and call ReloadConfig
  Q<hex>              probe ListQueuedOwners         N   probe ListNames       S  (model only)

Synchronisation is by round trips only: after an event every live connection does a
GetId round trip (an error reply before Hello), so everything the bus queued for it
before has arrived.  Connection 0 is the control connection (first to connect,
registers, never leaves)."""
import os, select, socket, struct, sys, time
sys.path.insert(0, os.path.dirname(os.path.abspath(__file__)))
import rawbus
from rawbus import METHOD_CALL, METHOD_RETURN, ERROR, SIGNAL, F_REPLY_SERIAL, F_SENDER, F_PATH, F_INTERFACE, F_MEMBER, F_DESTINATION, F_ERROR_NAME

BUS = "org.freedesktop.DBus"
ERR_PREFIX = "org.freedesktop.DBus.Error."
T_IFACE = "com.example.T"
LIMIT_NAMES = ["max_completed_connections", "max_connections_per_user", "max_incomplete_connections",
               "max_names_per_connection", "max_match_rules_per_connection", "max_replies_per_connection", "max_message_size"]
POLICY = """<policy context="default">
    <allow user="*"/>
    <allow send_destination="*" eavesdrop="true"/>
    <allow eavesdrop="true"/>
    <allow own="*"/>
  </policy>"""


class Broken(Exception):
    pass


def rule_text(r):
    if r == "x":
        return "type='signal',,nonsense"
    return "type='signal',interface='%s',member='M%d'" % (T_IFACE, int(r))


def limits_xml(limits, reply_timeout=None):
    x = "".join('<limit name="%s">%d</limit>\n  ' % (n, v) for n, v in zip(LIMIT_NAMES, limits))
    x += '<limit name="auth_timeout">600000</limit>\n  '
    if reply_timeout is not None:
        x += '<limit name="reply_timeout">%d</limit>\n  ' % reply_timeout
    return x


def _msg(serial, member, body, le):
    hdr = {F_PATH: "/org/freedesktop/DBus", F_INTERFACE: BUS, F_DESTINATION: BUS, F_MEMBER: member}
    # MEMBER goes last in the field array (every field starts on an 8-byte boundary, so only the last field's
    # length decides how much padding follows the array)
    return rawbus.Msg(METHOD_CALL, 0, serial, hdr, "ay", (body,), le=le).encode(
        field_order=[F_PATH, F_INTERFACE, F_DESTINATION, rawbus.F_SIGNATURE, F_MEMBER])


def message_of_size(serial, size, pad=None, be=False):
    """a call to the driver with an `ay` argument such that the whole message has `size` bytes on the wire
    (None if no such message exists).  pad: number of padding bytes (0..7) between the header field array and the
    body, obtained by lengthening the MEMBER field (None: whatever "GetId" gives); be: big-endian."""
    le = not be
    member = "GetId"
    if pad is not None:
        for k in range(8):
            data = _msg(serial, "GetId" + "x" * k, b"", le)
            fl = struct.unpack_from("<I" if le else ">I", data, 12)[0]
            if (-(16 + fl)) % 8 == pad:
                member = "GetId" + "x" * k
                break
        else:
            return None
    base = len(_msg(serial, member, b"", le))
    if size < base:
        return None
    data = _msg(serial, member, b"z" * (size - base), le)
    return data if len(data) == size else None


def parse_m(ev):
    """M<c>,<size>[,<pad 0..7|->[,<B|L>]] -> (c, size, pad, be)"""
    parts = ev[1:].split(",")
    pad = int(parts[2]) if len(parts) > 2 and parts[2] != "-" else None
    be = len(parts) > 3 and parts[3] == "B"
    return int(parts[0]), int(parts[1]), pad, be


class Session:
    def __init__(self, daemon_exe, limits, reply_timeout=None):
        self.reply_timeout = reply_timeout
        self.d = rawbus.Daemon(daemon_exe, policy=POLICY, limits=limits_xml(limits, reply_timeout))
        os.chmod(self.d.dir, 0o755)
        self.clients = []          # index -> RawConn or None (closed)
        self.unique = {}           # index -> unique name
        self.by_name = {}          # unique name -> index
        self.skip_serial = {}      # index -> set of serials whose replies are not part of the comparison
        self.uid = {}              # index -> uid it connected as
        self.authed = set()        # indices that completed authentication

    # ---- canonical text -------------------------------------------------------
    def key(self, s):
        if s in self.by_name:
            return "U%d" % self.by_name[s]
        b = s.encode("utf-8")
        return "S" + (b.hex() if b else "-")

    def optc(self, s):
        if s == "":
            return "-"
        return str(self.by_name[s]) if s in self.by_name else "?" + s

    def canon_msg(self, idx, m, op_serial, op_kind):
        f = m.fields
        snd = f.get(F_SENDER)
        rs = f.get(F_REPLY_SERIAL)
        if m.mtype == ERROR and snd == BUS:
            n = f.get(F_ERROR_NAME, "")
            short = n[len(ERR_PREFIX):] if n.startswith(ERR_PREFIX) else n
            if short == "NoReply":
                return "noreply:%d" % rs
            if rs == op_serial:
                return "err:" + short
            return "stray-error:%s:%s" % (short, rs)
        if m.mtype == METHOD_RETURN and snd == BUS:
            if rs != op_serial:
                return "stray-reply:%r" % (m,)
            if op_kind == "H" and m.sig == "s":
                return "hello:%s" % (self.by_name.get(m.body[0], "?" + m.body[0]),)
            if op_kind in ("R", "L") and m.sig == "u":
                return "reply:%d" % m.body[0]
            if op_kind in ("A", "V") and m.sig == "":
                return "ack"
            return "badreply:%r" % (m,)
        if m.mtype == SIGNAL and snd == BUS:
            mem = f.get(F_MEMBER)
            if mem in ("NameAcquired", "NameLost") and m.sig == "s":
                ok = f.get(F_DESTINATION) == self.unique.get(idx)
                return ("acq:" if mem == "NameAcquired" else "lost:") + self.key(m.body[0]) + ("" if ok else "!dest")
            if mem == "NameOwnerChanged" and m.sig == "sss":
                return "noc:%s:%s:%s" % (self.key(m.body[0]), self.optc(m.body[1]), self.optc(m.body[2]))
            return "other:%r" % (m,)
        who = self.by_name.get(snd)
        if who is None:
            return "other:%r" % (m,)
        if m.mtype == METHOD_CALL:
            return "call:%d:%d" % (who, m.serial)
        if m.mtype == METHOD_RETURN:
            return "ret:%d:%d" % (who, rs)
        if m.mtype == SIGNAL and f.get(F_INTERFACE) == T_IFACE and (f.get(F_MEMBER) or "").startswith("M"):
            return "sig:%d:%s" % (who, f.get(F_MEMBER)[1:])
        return "other:%r" % (m,)

    # ---- plumbing ---------------------------------------------------------------
    def live(self):
        """connections that can do a round trip (authenticated, open)"""
        return [(i, c) for i, c in enumerate(self.clients) if c is not None and i in self.authed]

    def control(self):
        return self.clients[0] if self.clients and self.clients[0] is not None and 0 in self.unique else None

    def ctl_barrier(self):
        c = self.control()
        if c is not None and c.barrier() is None:
            raise Broken("control connection: no reply to the barrier")

    def raw_connect(self, uid):
        """socket connected with the credentials of uid, AUTH line sent"""
        t_end = time.time() + 10
        while True:
            c = None
            try:
                if uid != 0:
                    os.seteuid(uid)
                try:
                    c = rawbus.RawConn(self.d.address, auth=False)
                finally:
                    if uid != 0:
                        os.seteuid(0)
                break
            except (ConnectionRefusedError, FileNotFoundError):
                # the socket file exists after bind(), possibly before listen()
                if time.time() > t_end or not self.d.alive():
                    raise
                time.sleep(0.002)
        c.sock.sendall(b"\0AUTH\r\n")
        return c

    def connect(self, uid):
        c = self.raw_connect(uid)
        got = False
        if self.control() is None:
            r, _, _ = select.select([c.sock], [], [], 10.0)
            got = bool(r)
        else:
            # the bus accepts in the main-loop iteration that sees the pending connection, reads the AUTH line in
            # the next and answers; every barrier on the control connection takes at least one iteration
            for _ in range(8):
                self.ctl_barrier()
                r, _, _ = select.select([c.sock], [], [], 0)
                if r:
                    got = True
                    break
            if not got:
                r, _, _ = select.select([c.sock], [], [], 0.03)
                got = bool(r)
        if not got:
            c.close()
            return None
        line = c._readline()
        if not line.startswith(b"REJECTED"):
            raise Broken("unexpected answer to a bare AUTH: %r" % (line,))
        return c

    def authenticate(self, idx):
        c = self.clients[idx]
        uid = self.uid[idx]
        c.sock.sendall(b"AUTH EXTERNAL " + str(uid).encode().hex().encode() + b"\r\n")
        line = c._readline()
        if not line.startswith(b"OK"):
            raise Broken("authentication as uid %d refused: %r" % (uid, line))
        c.sock.sendall(b"BEGIN\r\n")
        self.authed.add(idx)

    def collect(self, actor, op_serial, op_kind):
        outs = []
        closed_set = set()

        def barrier(i, c):
            try:
                if c.barrier() is None:
                    if not c.closed:
                        raise Broken("connection %d: no reply to the barrier" % i)
                    closed_set.add(i)
            except (BrokenPipeError, ConnectionResetError):
                closed_set.add(i)
        # the actor first: once its round trip is answered the bus has dispatched the event's message, and
        # whatever that made the bus send to others is queued before their barrier replies
        if actor is not None and self.clients[actor] is not None:
            barrier(actor, self.clients[actor])
        for i, c in self.live():
            if i not in closed_set:
                barrier(i, c)
            closed = i in closed_set
            msgs, c.inbox = c.inbox, []
            skip = self.skip_serial.get(i, ())
            texts = []
            for m in msgs:
                if m.fields.get(F_REPLY_SERIAL) in skip and m.fields.get(F_SENDER) == BUS and m.mtype in (METHOD_RETURN, ERROR):
                    continue
                texts.append(self.canon_msg(i, m, op_serial if i == actor else None, op_kind))
            if i == actor and op_kind == "V" and any(t.startswith("err:") for t in texts) and "ack" in texts:
                texts.remove("ack")        # C07's recorded finding F9 (acknowledged, then refused); not this property's business
            if closed:
                texts.insert(0, "closed")
                c.close()
                self.clients[i] = None
            outs += ["%d>%s" % (i, t) for t in texts]
        return outs

    def send_only(self, c, m):
        try:
            c.send(m)
        except (BrokenPipeError, ConnectionResetError):
            pass

    # ---- one event ------------------------------------------------------------------
    def event(self, ev):
        """returns the canonical result text of the event"""
        kind, parts = ev[0], ev[1:].split(",")
        if kind == "C":
            uid = int(parts[0])
            idx = len(self.clients)
            c = self.connect(uid)
            if c is None:
                return ["%d>waiting" % idx] + self.collect(None, None, kind)
            self.clients.append(c)
            self.uid[idx] = uid
            return ["%d>accepted" % idx] + self.collect(None, None, kind)
        if kind == "Q":
            name = bytes.fromhex("" if parts[0] == "-" else parts[0]).decode("utf-8")
            r = self.control().call("ListQueuedOwners", "s", (name,))
            if r is None:
                raise Broken("no reply to ListQueuedOwners")
            if r.mtype == METHOD_RETURN and r.sig == "as":
                return ["q=" + ("+".join("c%s" % self.by_name.get(x, "?" + x) for x in r.body[0]) if r.body[0] else "empty")]
            if r.mtype == ERROR and r.fields.get(F_ERROR_NAME) == ERR_PREFIX + "NameHasNoOwner":
                return ["q=none"]
            return ["q=?%r" % (r,)]
        if kind == "N":
            r = self.control().call("ListNames")
            if r is None or r.mtype != METHOD_RETURN or r.sig != "as":
                raise Broken("bad reply to ListNames: %r" % (r,))
            return ["n=" + "+".join(sorted("B" if x == BUS else self.key(x) for x in r.body[0]))]
        if kind == "S":
            return ["*"]
        if kind == "G":
            limits = [int(x) for x in parts]
            conf = rawbus.SESSION_CONF % {"type": "session", "sock": self.d.sock, "policy": POLICY,
                                          "limits": limits_xml(limits, self.reply_timeout), "servicedirs": "", "auth": ""}
            with open(self.d.conf, "w") as f:
                f.write(conf)
            r = self.control().call("ReloadConfig")
            if r is None or r.mtype != METHOD_RETURN:
                raise Broken("ReloadConfig failed: %r" % (r,))
            return self.collect(None, None, kind)
        actor = int(parts[0])
        c = self.clients[actor] if actor < len(self.clients) else None
        if c is None:
            raise Broken("event %s names a connection that is not open" % ev)
        serial = None
        if kind == "U":
            if actor in self.authed:
                raise Broken("event %s: already authenticated" % ev)
            self.authenticate(actor)
            return ["%d>authok" % actor] + self.collect(None, None, kind)
        if kind != "D" and actor not in self.authed:
            raise Broken("event %s by a connection that has not authenticated" % ev)

        def hdr(member):
            return {F_PATH: "/org/freedesktop/DBus", F_INTERFACE: BUS, F_DESTINATION: BUS, F_MEMBER: member}
        if kind == "D":
            c.close()
            self.clients[actor] = None
            self.ctl_barrier()
            self.ctl_barrier()
            return self.collect(None, None, kind)
        if kind in "HRLAV":
            if kind == "H":
                m = rawbus.Msg(METHOD_CALL, 0, c.next_serial(), hdr("Hello"))
            elif kind == "R":
                name = bytes.fromhex("" if parts[1] == "-" else parts[1]).decode("utf-8")
                m = rawbus.Msg(METHOD_CALL, 0, c.next_serial(), hdr("RequestName"), "su", (name, int(parts[2])))
            elif kind == "L":
                name = bytes.fromhex("" if parts[1] == "-" else parts[1]).decode("utf-8")
                m = rawbus.Msg(METHOD_CALL, 0, c.next_serial(), hdr("ReleaseName"), "s", (name,))
            else:
                m = rawbus.Msg(METHOD_CALL, 0, c.next_serial(), hdr("AddMatch" if kind == "A" else "RemoveMatch"), "s", (rule_text(parts[1]),))
            serial = c.send(m)
            r = _wait_reply_keep(c, serial)
            if r is None:
                raise Broken("no reply to %s (closed by the bus: %s, daemon alive: %s)" % (ev, c.closed, self.d.alive()))
            if kind == "H" and r.mtype == METHOD_RETURN and r.sig == "s":
                self.unique[actor] = r.body[0]
                self.by_name[r.body[0]] = actor
            return self.collect(actor, serial, kind)
        if kind == "K":
            d, serial, noreply, rs = int(parts[1]), int(parts[2]), parts[3] == "1", int(parts[4])
            dest = self.unique.get(d, ":0.%d" % d)            # ":0.N" is never assigned by the bus
            fields = {F_PATH: "/t", F_INTERFACE: T_IFACE, F_MEMBER: "Ping", F_DESTINATION: dest}
            if rs:
                fields[F_REPLY_SERIAL] = rs
            m = rawbus.Msg(METHOD_CALL, 1 if noreply else 0, serial, fields)
            self.send_only(c, m)
            return self.collect(actor, serial, kind)
        if kind == "Y":
            to, rserial = int(parts[1]), int(parts[2])
            dest = self.unique.get(to, ":0.%d" % to)
            m = rawbus.Msg(METHOD_RETURN, 1, c.next_serial(), {F_REPLY_SERIAL: rserial, F_DESTINATION: dest})
            serial = m.serial
            self.send_only(c, m)
            return self.collect(actor, serial, kind)
        if kind == "E":
            m = rawbus.Msg(SIGNAL, 1, c.next_serial(), {F_PATH: "/t", F_INTERFACE: T_IFACE, F_MEMBER: "M%d" % int(parts[1])})
            serial = m.serial
            self.send_only(c, m)
            return self.collect(actor, serial, kind)
        if kind == "M":
            serial = c.next_serial()
            _, size, pad, be = parse_m(ev)
            data = message_of_size(serial, size, pad, be)
            if data is None:
                raise Broken("no message of %s bytes" % parts[1])
            self.skip_serial.setdefault(actor, set()).add(serial)
            try:
                c.send_raw(data)
            except (BrokenPipeError, ConnectionResetError):
                pass
            return self.collect(actor, None, kind)
        if kind == "T":
            want = int(parts[1])
            t_end = time.time() + 20
            while not any(m.mtype == ERROR and m.fields.get(F_REPLY_SERIAL) == want for m in c.inbox):
                if c.closed or time.time() > t_end:
                    raise Broken("no NoReply error for serial %d arrived" % want)
                c._pump(0.5)
            return self.collect(actor, None, kind)
        raise Broken("bad event " + ev)

    def close(self):
        for c in self.clients:
            if c is not None:
                c.close()
        return self.d.stop()


def _wait_reply_keep(conn, serial, timeout=10.0):
    """like RawConn.wait_reply but leaves the reply in the inbox (its position among the signals stays observable)"""
    t_end = time.time() + timeout
    while True:
        for m in conn.inbox:
            if m.fields.get(F_REPLY_SERIAL) == serial and m.mtype in (METHOD_RETURN, ERROR):
                return m
        if conn.closed or time.time() > t_end:
            return None
        conn._pump(max(0.0, min(0.5, t_end - time.time())))


def model_events(events):
    """the same history in the model driver's vocabulary (M<c>,<size> becomes M<c>,<first 16 bytes>)"""
    out = []
    for ev in events:
        if ev[0] == "M":
            c, size, pad, be = parse_m(ev)
            data = message_of_size(1, size, pad, be)
            out.append("M%d,%s" % (c, data[:16].hex()))
        else:
            out.append(ev)
    return out


def group(outs):
    """order-insensitive between connections, order-preserving per connection"""
    per = {}
    for o in outs:
        if ">" in o and o.split(">", 1)[0].isdigit():
            k, t = o.split(">", 1)
            per.setdefault(int(k), []).append(t)
        else:
            per.setdefault(-1, []).append(o)
    return ",".join("%s>%s" % (k, t) if k >= 0 else t for k in sorted(per) for t in per[k]) or "-"


def run_history(daemon_exe, limits, events, reply_timeout=None):
    """returns (list of per-event result strings, error text or None, daemon stderr or None)"""
    s = Session(daemon_exe, limits, reply_timeout)
    res, err = [], None
    try:
        for ev in events:
            res.append(group(s.event(ev)))
    except (Broken, IOError, OSError, ValueError, IndexError, KeyError, AttributeError, UnicodeError, struct.error) as e:
        err = "%s: %s" % (type(e).__name__, e)
    rc, stderr = s.close()
    bad = None
    if rc not in (0, -15) or "ERROR: AddressSanitizer" in stderr or "runtime error:" in stderr or "assertion failed" in stderr.lower():
        bad = "daemon exit status %s\n%s" % (rc, stderr[-3000:])
    return res, err, bad


def worker(job):
    return run_history(*job)


if __name__ == "__main__":
    # manual replay:  limits_run.py <daemon> <7 limits, comma separated> <reply_timeout|-> <event> ...
    exe, lim, rt = sys.argv[1], [int(x) for x in sys.argv[2].split(",")], sys.argv[3]
    r, e, b = run_history(exe, lim, sys.argv[4:], None if rt == "-" else int(rt))
    for ev, line in zip(sys.argv[4:], r):
        print(ev, "->", line)
    if e:
        print("ERROR", e)
    if b:
        print("DAEMON", b)
