"""Implementation side of the activation check (C19), bus part: replays a history of
events (the same text the extracted model reads, see ml/activation/driver.ml)
against the real dbus-daemon with raw-wire clients and real started processes
(harness/py/activation_stub.py) and returns one token per event.

Synchronisation is by observation only:
  * after every event each live connection does a GetId round trip (output to one
    connection is FIFO, so whatever the bus queued for it has been read);
  * a disconnect is awaited through NameOwnerChanged at an observer connection;
  * a started process is awaited through its registration on the control socket;
  * a process exit is awaited through the babysitter process turning into a zombie
    (it has then written its report to the bus), followed by two round trips;
  * a failure that nobody is left to be told about, and the activation timeouts,
    are awaited through the bus's own log lines on stderr.
The model's tokens for the same history are passed in as hints for *what to wait
for*; the verdict is the comparison made by the caller."""
import json, os, re, select, shutil, socket, sys, tempfile, time
sys.path.insert(0, os.path.dirname(os.path.abspath(__file__)))
import rawbus
from rawbus import Msg, METHOD_CALL, METHOD_RETURN, ERROR, SIGNAL, F_PATH, F_INTERFACE, F_MEMBER, F_ERROR_NAME, \
    F_REPLY_SERIAL, F_DESTINATION, F_SENDER

BUS = "org.freedesktop.DBus"
HIGH = 1000000
STUB = os.path.join(os.path.dirname(os.path.abspath(__file__)), "activation_stub.py")
PY = sys.executable
MEMBER = {0: "M", 1: "SendDenied", 2: "RecvDenied", 3: "ViaN9"}
TIMEOUT_MS = 1500

POLICY = """<policy context="default">
    <allow send_destination="*" eavesdrop="true"/>
    <allow eavesdrop="true"/>
    <allow own="*"/>
    <deny send_interface="t.I" send_member="SendDenied"/>
    <deny receive_interface="t.I" receive_member="RecvDenied"/>
    <deny send_destination="t.N9" send_interface="t.I" send_member="ViaN9"/>
  </policy>"""

ERR_SHORT = {"org.freedesktop.DBus.Error.ServiceUnknown": "ServiceUnknown", "org.freedesktop.DBus.Error.NameHasNoOwner": "NameHasNoOwner",
             "org.freedesktop.DBus.Error.AccessDenied": "AccessDenied", "org.freedesktop.DBus.Error.LimitsExceeded": "LimitsExceeded",
             "org.freedesktop.DBus.Error.InvalidArgs": "InvalidArgs", "org.freedesktop.DBus.Error.Spawn.ChildExited": "ChildExited",
             "org.freedesktop.DBus.Error.Spawn.ChildSignaled": "ChildSignaled", "org.freedesktop.DBus.Error.Spawn.ExecFailed": "ExecFailed",
             "org.freedesktop.DBus.Error.TimedOut": "TimedOut", "org.freedesktop.DBus.Error.NotSupported": "NotSupported"}


def bus_name(tok, off=1):
    """w<k> -> t.N<k>;  u<c> -> :1.<c+off> (the observer is :1.0)"""
    return "t.N%s" % tok[1:] if tok[0] == "w" else ":1.%d" % (int(tok[1:]) + off)


def exec_line(kind, xid, ctl, log):
    if kind == 1:
        return "%s %s %s %s x%d" % (PY, STUB, ctl, log, xid)
    if kind == 0:                                 # does not parse: unclosed quote
        return "%s %s %s %s \"x%d" % (PY, STUB, ctl, log, xid)
    return "/nonexistent/c19-x%d arg" % xid       # parses, cannot be executed


class Local:
    """a connection held by the harness itself"""

    def __init__(self, address, want_fds=False):
        self.c = rawbus.RawConn(address, want_fds=want_fds)
        self.c.serial = HIGH
        self.dead = False

    def hello(self):
        self.c.hello()
        return self.c.unique

    def send(self, m, fds=()):
        try:
            self.c.send_raw(m.encode(), fds)
        except OSError:
            pass

    def sync(self):
        r = self.c.barrier()
        msgs, self.c.inbox = self.c.inbox, []
        for m in msgs:
            for fd in getattr(m, "fds", []):
                try:
                    os.close(fd)
                except OSError:
                    pass
        return msgs, r is None

    def close(self):
        self.c.close()
        self.dead = True


class Stub:
    """a process started by the bus, driven over the control socket"""

    def __init__(self, sock):
        self.sock = sock
        self.rf = sock.makefile("r")
        self.info = json.loads(self.rf.readline())
        self.pid, self.sitter = self.info["pid"], self.info["ppid"]
        self.has_conn = False
        self.dead = False
        self.gone = False          # process no longer there
        self.reported = False      # ... and that has been put into a token (or was the harness's own doing)

    def cmd(self, obj, answer=True):
        try:
            self.sock.sendall((json.dumps(obj) + "\n").encode())
            if not answer:
                return None
            line = self.rf.readline()
        except OSError:
            line = ""
        if not line:
            self.gone = True
            return None
        return json.loads(line)

    def hello(self, want_fds=False):
        r = self.cmd({"op": "hello", "fds": bool(want_fds)})
        self.has_conn = True
        return r["unique"] if r else None

    def send(self, m, fds=()):
        self.cmd({"op": "send", "hex": m.encode().hex()})

    def sync(self):
        r = self.cmd({"op": "sync"})
        if r is None:
            return [], True
        return [rawbus.parse_message(bytes.fromhex(h))[0] for h in r["msgs"]], r["closed"]

    def close(self):
        self.cmd({"op": "close"})
        self.dead = True

    def eof(self, wait):
        """has the process gone away (control socket closed)?"""
        if self.gone:
            return True
        r, _, _ = select.select([self.sock], [], [], wait)
        if r:
            try:
                d = self.sock.recv(1, socket.MSG_PEEK)
            except OSError:
                d = b""
            if not d:
                self.gone = True
        return self.gone


def proc_state(pid):
    try:
        with open("/proc/%d/stat" % pid) as f:
            s = f.read()
        return s[s.rindex(")") + 2]
    except (OSError, ValueError):
        return None


class Run:
    def __init__(self, exe, maxp, services, timed):
        """services: [(name token, exec id, kind)]  kind 1 ok, 0 does not parse, 2 cannot be executed"""
        if not os.path.exists(exe):
            raise IOError("no daemon binary at %s (build in progress?)" % exe)
        self.tmp = tempfile.mkdtemp(prefix="verif_act_")
        self.d = None
        self.ctl = None
        try:
            self.setup(exe, maxp, services, timed)
        except Exception:
            if self.d is not None:
                self.d.stop()
            if self.ctl is not None:
                self.ctl.close()
            shutil.rmtree(self.tmp, ignore_errors=True)
            raise

    def setup(self, exe, maxp, services, timed):
        self.sd = os.path.join(self.tmp, "services")
        os.mkdir(self.sd)
        self.ctl_path = os.path.join(self.tmp, "ctl")
        self.log_path = os.path.join(self.tmp, "starts.log")
        open(self.log_path, "w").close()
        self.kind = {}
        self.write_services(services)
        self.ctl = socket.socket(socket.AF_UNIX, socket.SOCK_STREAM)
        self.ctl.bind(self.ctl_path)
        self.ctl.listen(16)
        maxp, maxrep = maxp if isinstance(maxp, (tuple, list)) else (maxp, 1000)
        limits = '<limit name="max_pending_service_starts">%d</limit><limit name="service_start_timeout">%d</limit>' \
                 '<limit name="max_replies_per_connection">%d</limit>' % (maxp, TIMEOUT_MS if timed else 600000, maxrep)
        self.devnull = os.open("/dev/null", os.O_RDONLY)
        self.d = rawbus.Daemon(exe, policy=POLICY, limits=limits, servicedirs="<servicedir>%s</servicedir>" % self.sd)
        self.obs = self.connect_raw()
        self.obs.serial = HIGH
        self.obs.hello()
        r = self.obs.call("AddMatch", "s", ("type='signal',sender='org.freedesktop.DBus',member='NameOwnerChanged'",))
        if r is None or r.mtype != METHOD_RETURN or self.obs.unique != ":1.0":
            raise IOError("observer setup failed: %r" % (r,))
        self.conns = []            # model connection number -> Local | Stub
        self.stubs = []            # sid -> Stub | None (process that cannot be executed)
        self.kinds = {}            # (conn, serial) -> 's' | 'd'
        self.nspawn_log = 0
        self.timed = timed
        self.notes = []

    def write_services(self, services):
        """make the service directory hold exactly these files; files are only ever added or removed (never rewritten in
        place: the bus compares modification times with a granularity of one second)"""
        want = {}
        self.kind = {}
        for n, x, kind in services:
            self.kind.setdefault(bus_name(n), kind)
            want["%s_x%d_k%d.service" % (n, x, kind)] = "[D-BUS Service]\nName=%s\nExec=%s\n" % (
                bus_name(n), exec_line(kind, x, self.ctl_path, self.log_path))
        for fn in os.listdir(self.sd):
            if fn not in want:
                os.unlink(os.path.join(self.sd, fn))
        for fn, text in want.items():
            dst = os.path.join(self.sd, fn)
            if not os.path.exists(dst):
                tmpf = os.path.join(self.tmp, "new.service")
                with open(tmpf, "w") as f:
                    f.write(text)
                os.rename(tmpf, dst)

    def connect_raw(self):
        t_end = time.time() + 10
        while True:
            try:
                return self.d.connect()
            except (ConnectionRefusedError, FileNotFoundError):
                if time.time() > t_end or not self.d.alive():
                    raise
                time.sleep(0.005)

    # ---- log of the bus
    def log_lines(self):
        self.d.errf.flush()
        try:
            return open(os.path.join(self.d.dir, "stderr"), errors="replace").read().split("\n")
        except OSError:
            return []

    def count_log(self, pat):
        return sum(1 for l in self.log_lines() if re.search(pat, l))

    def wait_log(self, pat, n, timeout):
        t_end = time.time() + timeout
        while self.count_log(pat) < n:
            if time.time() > t_end or not self.d.alive():
                return False
            time.sleep(0.01)
        return True

    def double_barrier(self):
        self.obs.barrier()
        self.obs.barrier()

    def wait_gone(self, unique, timeout=10.0):
        t_end = time.time() + timeout
        while True:
            for i, m in enumerate(self.obs.inbox):
                if m.mtype == SIGNAL and m.fields.get(F_MEMBER) == "NameOwnerChanged" and m.body[0] == unique and m.body[2] == "":
                    del self.obs.inbox[:i + 1]
                    return True
            if self.obs.closed or time.time() > t_end:
                return False
            self.obs._pump(0.5)

    # ---- started processes
    def accept_stub(self, timeout):
        r, _, _ = select.select([self.ctl], [], [], timeout)
        if not r:
            return None
        s, _ = self.ctl.accept()
        s.settimeout(20)
        return Stub(s)

    def new_spawns(self, expect):
        """tokens for processes the bus says it started since the last call; waits for the processes themselves"""
        toks = []
        lines = [l for l in self.log_lines() if "Activating service name='" in l]
        for l in lines[self.nspawn_log:]:
            name = re.search(r"Activating service name='([^']*)'", l).group(1)
            sid = len(self.stubs)
            tok = "w" + name[3:] if name.startswith("t.N") else "u%d" % (int(name[3:]) - 1)
            toks.append("sp.%d.%s" % (sid, tok))
            if self.kind.get(name) == 2:
                self.stubs.append(None)
            else:
                st = self.accept_stub(15.0)
                if st is None:
                    self.notes.append("process for %s never registered" % name)
                self.stubs.append(st)
        self.nspawn_log = len(lines)
        extra = self.accept_stub(0)
        if extra is not None:
            self.notes.append("a process registered that the bus did not log")
            toks.append("sp.unlogged")
        return toks

    # ---- one event
    def message(self, c, kind, serial, name, cl):
        if kind in "ABU":
            # class = policy class + 4 (carries a unix fd) + 8 (method call that expects a reply; otherwise NO_REPLY_EXPECTED)
            f = {F_PATH: "/t", F_INTERFACE: "t.I", F_MEMBER: MEMBER[cl & 3], F_DESTINATION: bus_name(name)}
            sig, body = ("uh", (serial, 0)) if cl & 4 else ("u", (serial,))
            if cl & 4:
                f[rawbus.F_UNIX_FDS] = 1
            if kind == "B":
                return Msg(SIGNAL, 0, serial, f, sig, body)
            return Msg(METHOD_CALL, (2 if kind == "U" else 0) | (0 if cl & 8 else 1), serial, f, sig, body)
        f = {F_PATH: "/org/freedesktop/DBus", F_INTERFACE: BUS, F_DESTINATION: BUS}
        if kind == "S":
            f[F_MEMBER] = "StartServiceByName"
            return Msg(METHOD_CALL, 0, serial, f, "su", (bus_name(name), 0))
        if kind == "R":
            f[F_MEMBER] = "RequestName"
            return Msg(METHOD_CALL, 0, serial, f, "su", ("t.N%s" % name, 4))
        f[F_MEMBER] = "ReleaseName"
        return Msg(METHOD_CALL, 0, serial, f, "s", ("t.N%s" % name,))

    def collect(self):
        """one round trip per live connection; tokens for what each has received"""
        toks = []
        for ci, cl in enumerate(self.conns):
            if cl is None or cl.dead or (isinstance(cl, Stub) and (cl.gone or not cl.has_conn)):
                continue
            msgs, closed = cl.sync()
            for m in msgs:
                t = self.classify(ci, m)
                if t:
                    toks.append(t)
            if closed and not (isinstance(cl, Stub) and cl.gone):
                self.notes.append("connection %d was closed by the bus" % ci)
                cl.dead = True
        return toks

    def classify(self, ci, m):
        if m is None:
            return "%d:unparsable" % ci
        rs = m.fields.get(F_REPLY_SERIAL)
        snd = m.fields.get(F_SENDER)
        if m.mtype == SIGNAL and snd == BUS:
            return None                                  # NameAcquired, NameLost
        if m.mtype == METHOD_RETURN and snd == BUS:
            if rs is not None and rs >= HIGH:
                return None                              # the harness's own round trips
            k = self.kinds.get((ci, rs), "?")
            return "%d:%s.%d.%s" % (ci, k, rs, m.body[0] if m.body else 0)
        if m.mtype == ERROR and snd == BUS:
            en = m.fields.get(F_ERROR_NAME, "")
            return "%d:e.%d.%s" % (ci, rs or 0, ERR_SHORT.get(en, en))
        if m.mtype in (METHOD_CALL, SIGNAL) and snd and snd.startswith(":1."):
            frm = int(snd[3:]) - 1
            return "%d:f.%d.%d" % (ci, frm, m.serial)
        return "%d:other.%d.%s" % (ci, m.mtype, m.fields.get(F_MEMBER))

    def step(self, tok, hint):
        p = tok.split(".")
        k = p[0]
        failed_two_steps_ago, self.failed_prev = self.failed_prev, self.count_log(r"Activated service '[^']*' failed")
        if k in ("C", "CF"):
            cl = Local(self.d.address, want_fds=(k == "CF"))
            u = cl.hello()
            if u != ":1.%d" % (len(self.conns) + 1):
                raise IOError("unexpected unique name %r" % u)
            self.conns.append(cl)
        elif k in ("K", "KF"):
            st = self.stubs[int(p[1])] if int(p[1]) < len(self.stubs) else None
            if st is None or st.gone or st.has_conn:
                raise IOError("ill-formed K event")
            u = st.hello(want_fds=(k == "KF"))
            if u != ":1.%d" % (len(self.conns) + 1):
                raise IOError("unexpected unique name %r" % u)
            self.conns.append(st)
        elif k in "ABUSRL":
            c, serial = int(p[1]), int(p[2])
            name = p[3]
            clno = int(p[4]) if k in "ABU" else 0
            if k == "S":
                self.kinds[(c, serial)] = "s"
            elif k in "RL":
                self.kinds[(c, serial)] = "d"
            self.conns[c].send(self.message(c, k, serial, name, clno), [self.devnull] if (k in "ABU" and clno & 4) else ())
        elif k == "Z":
            c, serial = int(p[1]), int(p[2])
            self.kinds[(c, serial)] = "d"
            f = {F_PATH: "/org/freedesktop/DBus", F_INTERFACE: BUS, F_DESTINATION: BUS, F_MEMBER: "ReloadConfig"}
            self.conns[c].send(Msg(METHOD_CALL, 0, serial, f, "", ()))
        elif k == "V":
            spec = tok[2:]
            svcs = [] if spec == "-" else [(a, int(b), {"1": 1, "0": 0, "2": 2}[c2]) for a, b, c2 in (t.split(":") for t in spec.split(","))]
            self.write_services(svcs)
            # the directory watch makes the bus reload by itself, at a moment nobody can observe; an explicit reload by the
            # observer, awaited, makes sure it has happened before the next event
            r = self.obs.call("ReloadConfig")
            if r is None or r.mtype != METHOD_RETURN:
                self.notes.append("observer's ReloadConfig failed: %r" % (r,))
            self.double_barrier()
        elif k == "D":
            c = int(p[1])
            cl = self.conns[c]
            if isinstance(cl, Stub) and cl.gone:
                pass                                     # its process was killed: the bus notices by itself
            else:
                cl.close()
            cl.dead = True
            if not self.wait_gone(":1.%d" % (c + 1)):
                self.notes.append("no NameOwnerChanged for the disconnect of %d" % c)
            self.double_barrier()
        elif k in "XG":
            st = self.stubs[int(p[1])] if int(p[1]) < len(self.stubs) else None
            if st is None or st.gone:
                raise IOError("ill-formed exit event")
            r = st.cmd({"op": "ppid"})
            watched = r is not None and r["ppid"] == st.sitter
            if k == "X":
                st.cmd({"op": "exit", "status": int(p[2])}, answer=False)
            else:
                st.cmd({"op": "signal", "sig": 9}, answer=False)
            st.eof(10.0)
            st.gone = True
            st.reported = True
            if watched:
                t_end = time.time() + 10
                while proc_state(st.sitter) not in (None, "Z") and time.time() < t_end:
                    time.sleep(0.002)
            self.double_barrier()
        elif k == "F":
            # the exec failure may have been logged while the previous step (the start) was still being observed
            if not self.wait_log(r"Activated service '[^']*' failed", failed_two_steps_ago + 1, 10.0):
                self.notes.append("no failure logged for a command that cannot be executed")
            self.double_barrier()
        elif k == "T":
            want = len([t for t in hint.split("+") if t.startswith("k.")])
            if want and not self.wait_log(r"Failed to activate service '[^']*': timed out", self.count_timeouts_before + want, TIMEOUT_MS / 1000.0 + 8.0):
                self.notes.append("activation timeout did not fire")
            self.double_barrier()
        else:
            raise IOError("unknown event " + tok)
        toks = self.collect()
        toks = self.new_spawns("sp." in hint) + toks
        if k == "T":
            for sid, st in enumerate(self.stubs):
                if st is not None and not st.reported and st.eof(0.5 if ("k.%d" % sid) in hint.split("+") else 0):
                    toks.append("k.%d" % sid)
                    st.reported = True
        self.count_timeouts_before = self.count_log(r"Failed to activate service '[^']*': timed out")
        return "+".join(toks) if toks else "-"

    failed_prev = 0
    count_timeouts_before = 0

    def finish(self):
        starts = [l for l in open(self.log_path).read().split("\n") if l.startswith("start ")]
        registered = len([s for s in self.stubs if s is not None])
        for st in self.stubs:
            if st is not None and not st.gone:
                try:
                    os.kill(st.pid, 9)
                except OSError:
                    pass
        for cl in self.conns:
            if isinstance(cl, Local) and not cl.dead:
                cl.close()
        self.obs.close()
        rc, err = self.d.stop()
        try:
            self.ctl.close()
        except OSError:
            pass
        shutil.rmtree(self.tmp, ignore_errors=True)
        return {"starts_logged": len(starts), "registered": registered, "rc": rc, "stderr": err, "notes": self.notes}


def run_history(exe, maxp, services, timed, events, hints):
    """returns (tokens or None, info).  tokens[i] is the implementation's token for events[i] ('!' events are skipped)."""
    t0 = time.time()
    r = Run(exe, maxp, services, timed)
    toks = []
    info = {}
    try:
        try:
            for ev, hint in zip(events, hints):
                if hint == "!":
                    toks.append("!")
                    continue
                t1 = time.time()
                toks.append(r.step(ev, hint))
                if timed and not ev.startswith("T") and time.time() - t1 > TIMEOUT_MS / 4000.0:
                    info["slow"] = True
        except IOError as e:
            info["aborted"] = str(e)
            toks = None
    finally:
        info.update(r.finish())
    info["wall"] = round(time.time() - t0, 2)
    return toks, info
