(* Model of the match-rule front end of bus/signals.c (dbus 1.13.18):

     find_key, find_value, tokenize_rule          -> find_key, find_value, tokenize
     _dbus_string_parse_uint (strtoul, base 0)    -> parse_uint
     bus_match_rule_parse_arg_match               -> parse_arg_match
     bus_match_rule_parse                         -> parse_tokens, parse_rule
     match_rule_equal                             -> rule_equal

   written after the C control flow.  The C code walks a pointer [p] over a
   NUL-terminated copy of the rule text; the model walks the remaining suffix
   of the byte list, where [] stands for the terminating NUL.  Every loop of
   the C tokenizer stops at NUL, so the walk can never leave the buffer: there
   is no Fault case in this file (the only out-of-bounds read of signals.c is in
   the matcher, see Matcher.v).  A byte 0 inside the text is treated as the C
   code treats it (it terminates scans but not the outer [pos < length] loop).
   Model only: no proofs here. *)
From DV Require Export Lib.Base Gen.Tables Gen.MatchTables Wire.Names.
Local Open Scope N_scope.

(* ---- literals ----------------------------------------------------------- *)
Definition S_type : bytes := [116;121;112;101].
Definition S_sender : bytes := [115;101;110;100;101;114].
Definition S_interface : bytes := [105;110;116;101;114;102;97;99;101].
Definition S_member : bytes := [109;101;109;98;101;114].
Definition S_path : bytes := [112;97;116;104].
Definition S_path_namespace : bytes := [112;97;116;104;95;110;97;109;101;115;112;97;99;101].
Definition S_destination : bytes := [100;101;115;116;105;110;97;116;105;111;110].
Definition S_eavesdrop : bytes := [101;97;118;101;115;100;114;111;112].
Definition S_arg : bytes := [97;114;103].
Definition S_arg0namespace : bytes := [97;114;103;48;110;97;109;101;115;112;97;99;101].
Definition S_true : bytes := [116;114;117;101].
Definition S_false : bytes := [102;97;108;115;101].
Definition S_method_call : bytes := [109;101;116;104;111;100;95;99;97;108;108].
Definition S_method_return : bytes := [109;101;116;104;111;100;95;114;101;116;117;114;110].
Definition S_signal : bytes := [115;105;103;110;97;108].
Definition S_error : bytes := [101;114;114;111;114].
Definition S_org_freedesktop_DBus : bytes := [111;114;103;46;102;114;101;101;100;101;115;107;116;111;112;46;68;66;117;115].

Definition EQUALS : N := 61.      (* '=' *)
Definition QUOTE : N := 39.       (* '\'' *)
Definition COMMA : N := 44.       (* ',' *)
Definition BACKSLASH : N := 92.   (* '\\' *)

Definition iswhite (c : N) : bool := tbl tbl_iswhite c.   (* ISWHITE, generated *)

(* ---- find_key ------------------------------------------------------------ *)
(* while ( *p && ISWHITE ( *p)) ++p; *)
Fixpoint skip_white (s : bytes) : bytes :=
  match s with
  | c :: r => if iswhite c then skip_white r else s
  | [] => []
  end.

(* while ( *p && *p != '=' && !ISWHITE ( *p)) ++p;   returns (key bytes, rest) *)
Fixpoint scan_key (s : bytes) : bytes * bytes :=
  match s with
  | c :: r =>
      if (c =? 0) || (c =? EQUALS) || iswhite c then ([], s)
      else let (k, rest) := scan_key r in (c :: k, rest)
  | [] => ([], [])
  end.

Inductive key_result :=
| KErr                          (* "key with no subsequent '='" *)
| KEmpty (rest : bytes)         (* key_start == key_end: *value_pos = p - s, key stays empty *)
| KOk (key rest : bytes).       (* rest begins just after the '=' *)

Definition find_key (s : bytes) : key_result :=
  let s1 := skip_white s in
  let (k, s2) := scan_key s1 in
  let s3 := skip_white s2 in
  match k with
  | [] => KEmpty s3
  | _ => match s3 with
         | c :: r => if c =? EQUALS then KOk k r else KErr
         | [] => KErr
         end
  end.

(* ---- find_value ------------------------------------------------------------ *)
Inductive qstate := QNone | QQuote | QBackslash.     (* quote_char = '\0' | '\'' | '\\' *)

Inductive value_result :=
| VErr                            (* "Unbalanced quotation marks" *)
| VOk (value rest : bytes).

(* [acc] is the value so far, reversed *)
Fixpoint find_value_loop (s : bytes) (q : qstate) (acc : bytes) : value_result :=
  let finish rest :=
      match q with
      | QBackslash => VOk (rev (BACKSLASH :: acc)) rest
      | QQuote => VErr
      | QNone => VOk (rev acc) rest
      end in
  match s with
  | [] => finish []
  | c :: r =>
      if c =? 0 then finish s
      else match q with
           | QNone =>
               if c =? QUOTE then find_value_loop r QQuote acc
               else if c =? COMMA then VOk (rev acc) r            (* ++p; goto done, with quote_char == 0 *)
               else if c =? BACKSLASH then find_value_loop r QBackslash acc
               else find_value_loop r QNone (c :: acc)
           | QBackslash =>
               if c =? QUOTE then find_value_loop r QNone (c :: acc)
               else find_value_loop r QNone (c :: BACKSLASH :: acc)
           | QQuote =>
               if c =? QUOTE then find_value_loop r QNone acc
               else find_value_loop r QQuote (c :: acc)
           end
  end.

Definition find_value (s : bytes) : value_result := find_value_loop s QNone [].

(* ---- tokenize_rule --------------------------------------------------------- *)
(* tokens[i] is (key, value) or stays NULL (None) when the key came back empty.
   [fuel] is MAX_RULE_TOKENS - i; the loop also stops when pos == length, i.e.
   when the remaining suffix is empty.  None = error return. *)
Definition token := (bytes * bytes)%type.

Fixpoint tokenize_loop (fuel : nat) (s : bytes) (acc : list (option token)) : option (list (option token)) :=
  match fuel with
  | O => Some (rev acc)
  | S f =>
      match s with
      | [] => Some (rev acc)
      | _ =>
          match find_key s with
          | KErr => None
          | KEmpty rest => tokenize_loop f rest (None :: acc)          (* goto next *)
          | KOk k rest =>
              match find_value rest with
              | VErr => None
              | VOk v rest' => tokenize_loop f rest' (Some (k, v) :: acc)
              end
          end
      end
  end.

Definition tokenize (s : bytes) : option (list (option token)) := tokenize_loop MAX_RULE_TOKENS s [].

(* the parse loop reads tokens "while (tokens[i].key != NULL)" *)
Fixpoint token_prefix (l : list (option token)) : list token :=
  match l with
  | Some t :: r => t :: token_prefix r
  | _ => []
  end.

(* ---- _dbus_string_parse_uint: strtoul (p, &end, 0) with errno check ---------- *)
Definition isspace_c (c : N) : bool := (c =? 32) || ((9 <=? c) && (c <=? 13)).

Fixpoint skip_space (s : bytes) (n : N) : bytes * N :=
  match s with
  | c :: r => if isspace_c c then skip_space r (n + 1) else (s, n)
  | [] => ([], n)
  end.

Definition digit_val (c : N) : option N :=
  if (48 <=? c) && (c <=? 57) then Some (c - 48)
  else if (97 <=? c) && (c <=? 122) then Some (c - 87)
  else if (65 <=? c) && (c <=? 90) then Some (c - 55)
  else None.

Definition ULONG_LIMIT : N := 18446744073709551616.   (* 2^64, unsigned long on the LP64 targets the checks run on *)

(* accumulate digits valid in [base]; returns (value, digits consumed, overflowed) *)
Fixpoint digits_loop (base : N) (s : bytes) (v : N) (n : N) (ovf : bool) : N * N * bool :=
  match s with
  | c :: r =>
      match digit_val c with
      | Some d => if d <? base
                  then let v' := v * base + d in
                       if ULONG_LIMIT <=? v' then digits_loop base r 0 (n + 1) true
                       else digits_loop base r v' (n + 1) ovf
                  else (v, n, ovf)
      | None => (v, n, ovf)
      end
  | [] => (v, n, ovf)
  end.

Definition is_x (c : N) : bool := (c =? 120) || (c =? 88).

(* returns Some (value, number of bytes consumed) or None (no conversion / ERANGE) *)
Definition parse_uint (s : bytes) : option (N * N) :=
  let (s1, nws) := skip_space s 0 in
  let '(neg, s2, nsign) :=
      match s1 with
      | 45 :: r => (true, r, 1)
      | 43 :: r => (false, r, 1)
      | _ => (false, s1, 0)
      end in
  let finish (res : N * N * bool) (prefix : N) :=
      let '(v, nd, ovf) := res in
      if ovf then None
      else Some (if neg then (if v =? 0 then 0 else ULONG_LIMIT - v) else v, nws + nsign + prefix + nd) in
  match s2 with
  | 48 :: x :: r =>
      if is_x x then
        let '(v, nd, ovf) := digits_loop 16 r 0 0 false in
        if nd =? 0 then Some (0, nws + nsign + 1)      (* "0x" without hex digits: the "0" alone is converted *)
        else finish (v, nd, ovf) 2
      else finish (digits_loop 8 s2 0 0 false) 0
  | 48 :: _ => finish (digits_loop 8 s2 0 0 false) 0
  | _ =>
      let '(v, nd, ovf) := digits_loop 10 s2 0 0 false in
      if nd =? 0 then None else finish (v, nd, ovf) 0
  end.

(* ---- the rule record ---------------------------------------------------------- *)
Inductive argkind := ArgString | ArgPath | ArgNamespace.   (* arg_lens[i] flag bits *)

Definition argkind_eqb (a b : argkind) : bool :=
  match a, b with
  | ArgString, ArgString | ArgPath, ArgPath | ArgNamespace, ArgNamespace => true
  | _, _ => false
  end.

Record rule := mkRule {
  r_owner : N;                               (* matches_go_to *)
  r_type : option N;                         (* BUS_MATCH_MESSAGE_TYPE + message_type *)
  r_iface : option bytes;
  r_member : option bytes;
  r_sender : option bytes;
  r_dest : option bytes;
  r_path : option (bool * bytes);            (* (is_namespace, path): BUS_MATCH_PATH / BUS_MATCH_PATH_NAMESPACE share ->path *)
  r_eaves : bool;                            (* BUS_MATCH_CLIENT_IS_EAVESDROPPING *)
  r_args : list (option (argkind * bytes))   (* args[0..args_len-1]; BUS_MATCH_ARGS <-> non-empty *)
}.

Definition empty_rule (owner : N) : rule := mkRule owner None None None None None None false [].

Definition isSome {A} (o : option A) : bool := match o with Some _ => true | None => false end.

(* rule->flags as the C bit mask *)
Definition rule_flags (r : rule) : N :=
  (if isSome (r_type r) then BUS_MATCH_MESSAGE_TYPE else 0) +
  (if isSome (r_iface r) then BUS_MATCH_INTERFACE else 0) +
  (if isSome (r_member r) then BUS_MATCH_MEMBER else 0) +
  (if isSome (r_sender r) then BUS_MATCH_SENDER else 0) +
  (if isSome (r_dest r) then BUS_MATCH_DESTINATION else 0) +
  (match r_path r with Some (false, _) => BUS_MATCH_PATH | Some (true, _) => BUS_MATCH_PATH_NAMESPACE | None => 0 end) +
  (match r_args r with [] => 0 | _ => BUS_MATCH_ARGS end) +
  (if r_eaves r then BUS_MATCH_CLIENT_IS_EAVESDROPPING else 0).

(* ---- bus_match_rule_parse_arg_match -------------------------------------------- *)
Fixpoint ends_with (s suffix : bytes) : bool :=
  if bytes_eqb s suffix then true
  else match s with
       | _ :: r => ends_with r suffix
       | [] => false
       end.

Fixpoint set_nth {A} (l : list (option A)) (n : nat) (x : A) : list (option A) :=
  match n, l with
  | O, [] => [Some x]
  | O, _ :: r => Some x :: r
  | S n', [] => None :: set_nth [] n' x
  | S n', y :: r => y :: set_nth r n' x
  end.

Definition arg_slot_taken (r : rule) (arg : N) : bool :=
  match nth_error (r_args r) (N.to_nat arg) with
  | Some (Some _) => true
  | _ => false
  end.

(* key starts with "arg" (checked by the caller).  None = MatchRuleInvalid. *)
Definition parse_arg_match (r : rule) (key value : bytes) : option rule :=
  let length := nlen key in
  if length <? 4 then None else
  match parse_uint (skipn 3 key) with
  | None => None
  | Some (arg, consumed) =>
      let end_ := 3 + consumed in
      let kind :=
          if end_ =? length then Some ArgString
          else if (end_ + 4 =? length) && ends_with key S_path then Some ArgPath
          else if bytes_eqb key S_arg0namespace then
                 (if validate_bus_namespace value then Some ArgNamespace else None)
          else None in
      match kind with
      | None => None
      | Some k =>
          if DBUS_MAXIMUM_MATCH_RULE_ARG_NUMBER <? arg then None
          else if arg_slot_taken r arg then None
          else Some (mkRule (r_owner r) (r_type r) (r_iface r) (r_member r) (r_sender r) (r_dest r) (r_path r) (r_eaves r)
                            (set_nth (r_args r) (N.to_nat arg) (k, value)))
      end
  end.

(* ---- bus_match_rule_parse: the per-token loop ------------------------------------- *)
Definition type_from_string (v : bytes) : option N :=
  if bytes_eqb v S_method_call then Some TYPE_OF_method_call
  else if bytes_eqb v S_method_return then Some TYPE_OF_method_return
  else if bytes_eqb v S_signal then Some TYPE_OF_signal
  else if bytes_eqb v S_error then Some TYPE_OF_error
  else None.

Definition parse_token (r : rule) (t : token) : option rule :=
  let (key, value) := t in
  if bytes_eqb key S_type then
    if isSome (r_type r) then None else
    match type_from_string value with
    | None => None
    | Some ty => Some (mkRule (r_owner r) (Some ty) (r_iface r) (r_member r) (r_sender r) (r_dest r) (r_path r) (r_eaves r) (r_args r))
    end
  else if bytes_eqb key S_sender then
    if isSome (r_sender r) then None
    else if negb (validate_bus_name value) then None
    else Some (mkRule (r_owner r) (r_type r) (r_iface r) (r_member r) (Some value) (r_dest r) (r_path r) (r_eaves r) (r_args r))
  else if bytes_eqb key S_interface then
    if isSome (r_iface r) then None
    else if negb (validate_interface value) then None
    else Some (mkRule (r_owner r) (r_type r) (Some value) (r_member r) (r_sender r) (r_dest r) (r_path r) (r_eaves r) (r_args r))
  else if bytes_eqb key S_member then
    if isSome (r_member r) then None
    else if negb (validate_member value) then None
    else Some (mkRule (r_owner r) (r_type r) (r_iface r) (Some value) (r_sender r) (r_dest r) (r_path r) (r_eaves r) (r_args r))
  else if bytes_eqb key S_path || bytes_eqb key S_path_namespace then
    if isSome (r_path r) then None
    else if negb (validate_path value) then None
    else Some (mkRule (r_owner r) (r_type r) (r_iface r) (r_member r) (r_sender r) (r_dest r)
                      (Some (bytes_eqb key S_path_namespace, value)) (r_eaves r) (r_args r))
  else if bytes_eqb key S_destination then
    if isSome (r_dest r) then None
    else if negb (validate_bus_name value) then None
    else Some (mkRule (r_owner r) (r_type r) (r_iface r) (r_member r) (r_sender r) (Some value) (r_path r) (r_eaves r) (r_args r))
  else if bytes_eqb key S_eavesdrop then
    if bytes_eqb value S_true then
      Some (mkRule (r_owner r) (r_type r) (r_iface r) (r_member r) (r_sender r) (r_dest r) (r_path r) true (r_args r))
    else if bytes_eqb value S_false then
      Some (mkRule (r_owner r) (r_type r) (r_iface r) (r_member r) (r_sender r) (r_dest r) (r_path r) false (r_args r))
    else None
  else if is_prefix S_arg key then parse_arg_match r key value
  else None.

Fixpoint parse_tokens (r : rule) (ts : list token) : option rule :=
  match ts with
  | [] => Some r
  | t :: rest => match parse_token r t with
                 | None => None
                 | Some r' => parse_tokens r' rest
                 end
  end.

Inductive parse_result :=
| PLimits                 (* DBUS_ERROR_LIMITS_EXCEEDED: text longer than DBUS_MAXIMUM_MATCH_RULE_LENGTH *)
| PInvalid                (* DBUS_ERROR_MATCH_RULE_INVALID *)
| POk (r : rule).

Definition parse_rule (owner : N) (text : bytes) : parse_result :=
  if DBUS_MAXIMUM_MATCH_RULE_LENGTH <? nlen text then PLimits else
  match tokenize text with
  | None => PInvalid
  | Some toks =>
      match parse_tokens (empty_rule owner) (token_prefix toks) with
      | None => PInvalid
      | Some r => POk r
      end
  end.

(* ---- match_rule_equal --------------------------------------------------------------- *)
Definition opt_bytes_eqb (a b : option bytes) : bool :=
  match a, b with
  | Some x, Some y => bytes_eqb x y
  | _, _ => true           (* only consulted when the flag is set on both sides *)
  end.

Definition opt_N_eqb (a b : option N) : bool :=
  match a, b with
  | Some x, Some y => x =? y
  | _, _ => true
  end.

(* the (a->flags & BUS_MATCH_PATH) && strcmp (a->path, b->path) clause and, since commit 5996fca, the same
   clause under BUS_MATCH_PATH_NAMESPACE; the flag words are already known to be equal, so both sides have
   the same kind *)
Definition path_clause (a b : option (bool * bytes)) : bool :=
  match a, b with
  | Some (_, x), Some (_, y) => bytes_eqb x y
  | _, _ => true
  end.

Definition arg_slot_eqb (x y : option (argkind * bytes)) : bool :=
  match x, y with
  | None, None => true
  | Some (k1, v1), Some (k2, v2) => argkind_eqb k1 k2 && bytes_eqb v1 v2   (* arg_lens equal (length + flag bits), memcmp *)
  | _, _ => false
  end.

Fixpoint args_eqb (a b : list (option (argkind * bytes))) : bool :=
  match a, b with
  | [], [] => true
  | x :: a', y :: b' => arg_slot_eqb x y && args_eqb a' b'
  | _, _ => false            (* args_len differs *)
  end.

Definition rule_equal (a b : rule) : bool :=
  (rule_flags a =? rule_flags b) &&
  (r_owner a =? r_owner b) &&
  opt_N_eqb (r_type a) (r_type b) &&
  opt_bytes_eqb (r_member a) (r_member b) &&
  path_clause (r_path a) (r_path b) &&
  opt_bytes_eqb (r_iface a) (r_iface b) &&
  opt_bytes_eqb (r_sender a) (r_sender b) &&
  opt_bytes_eqb (r_dest a) (r_dest b) &&
  args_eqb (r_args a) (r_args b).
