(* Model of the match-rule bookkeeping of the bus (dbus 1.13.18):

     bus_matchmaker_add_rule                        -> add_rule
     bus_matchmaker_remove_rule_by_value            -> remove_rule_by_value
     rule_list_remove_by_connection /
       bus_matchmaker_disconnected                  -> matchmaker_disconnected
     get_recipients_from_list /
       bus_matchmaker_get_recipients                -> recipients_from_list, get_recipients
     bus_driver_handle_add_match / _remove_match    -> handle_add_match, handle_remove_match
     bus_connection_disconnected (rule part)        -> handle_disconnect
     bus_dispatch (routing decision) +
       bus_dispatch_matches                         -> dispatch

   Abstraction (stated in notes/C07.md): BusMatchmaker keeps one list per
   (message type, interface) pool, each in insertion order; a rule lives in
   exactly one pool, chosen by its own type and interface.  The model keeps ONE
   insertion-ordered list and computes a pool as the sub-list of its members
   ([pool]), which preserves every order the C code can observe.  The
   per-connection counter n_match_rules is the number of rules owned in that list.
   The delivery stamp is the "seen" list threaded through recipients_from_list.
   Model only: no proofs here. *)
From DV Require Export Match.Matcher.
Local Open Scope N_scope.

Definition mm := list rule.        (* the matchmaker: all rules, oldest first *)

Definition opt_N_same (a b : option N) : bool :=
  match a, b with
  | None, None => true
  | Some x, Some y => x =? y
  | _, _ => false
  end.

Definition opt_bytes_same (a b : option bytes) : bool :=
  match a, b with
  | None, None => true
  | Some x, Some y => bytes_eqb x y
  | _, _ => false
  end.

(* bus_matchmaker_get_rules (matchmaker, message_type, interface, FALSE): message_type 0 = rules without a type *)
Definition in_pool (t : option N) (i : option bytes) (r : rule) : bool :=
  opt_N_same (r_type r) t && opt_bytes_same (r_iface r) i.

Definition pool (m : mm) (t : option N) (i : option bytes) : list rule := filter (in_pool t i) m.

Definition n_match_rules (m : mm) (c : conn) : N := nlen (filter (fun r => r_owner r =? c) m).

(* ---- add ------------------------------------------------------------------------------ *)
Definition add_rule (m : mm) (r : rule) : mm := m ++ [r].      (* _dbus_list_append on the pool *)

(* ---- remove by value ---------------------------------------------------------------------- *)
(* walk the value's pool from the newest link to the oldest, remove the first equal rule.
   [l] is scanned from its END; written over the reversed list. *)
Fixpoint remove_first_equal (rev_l : list rule) (value : rule) : option (list rule) :=
  match rev_l with
  | [] => None
  | r :: rest =>
      if in_pool (r_type value) (r_iface value) r && rule_equal r value then Some rest
      else match remove_first_equal rest value with
           | None => None
           | Some rest' => Some (r :: rest')
           end
  end.

Definition remove_rule_by_value (m : mm) (value : rule) : option mm :=
  match remove_first_equal (rev m) value with
  | None => None                       (* MatchRuleNotFound *)
  | Some l => Some (rev l)
  end.

(* ---- disconnect ------------------------------------------------------------------------------ *)
Definition starts_with_colon (s : bytes) : bool := match s with c :: _ => c =? COLON_C | [] => false end.

(* the condition under which rule_list_remove_by_connection drops a rule *)
Definition dropped_on_disconnect (c : conn) (name : bytes) (r : rule) : bool :=
  if r_owner r =? c then true
  else if (match r_sender r with Some s => starts_with_colon s | None => false end) ||
          (match r_dest r with Some d => starts_with_colon d | None => false end)
       then (match r_sender r with Some s => bytes_eqb s name | None => false end) ||
            (match r_dest r with Some d => bytes_eqb d name | None => false end)
       else false.

Definition matchmaker_disconnected (m : mm) (c : conn) (name : bytes) : mm :=
  filter (fun r => negb (dropped_on_disconnect c name r)) m.

(* bus_connection_disconnected: "if (d->n_match_rules > 0) bus_matchmaker_disconnected (...)" *)
Definition handle_disconnect (m : mm) (c : conn) (name : bytes) : mm :=
  if 0 <? n_match_rules m c then matchmaker_disconnected m c name else m.

(* ---- recipients ---------------------------------------------------------------------------------- *)
(* returns (recipients appended so far, seen set) or None on Fault *)
Fixpoint recipients_from_list (ns : names) (rules : list rule) (sender addressed : option conn) (m : msg)
         (seen : list conn) (acc : list conn) : option (list conn * list conn) :=
  match rules with
  | [] => Some (acc, seen)
  | r :: rest =>
      match rule_matches ns r sender addressed m true with
      | None => None
      | Some false => recipients_from_list ns rest sender addressed m seen acc
      | Some true =>
          if existsb (N.eqb (r_owner r)) seen                       (* bus_connection_mark_stamp == FALSE *)
          then recipients_from_list ns rest sender addressed m seen acc
          else recipients_from_list ns rest sender addressed m (r_owner r :: seen) (acc ++ [r_owner r])
      end
  end.

Definition valid_type (t : N) : bool := (DBUS_MESSAGE_TYPE_INVALID <? t) && (t <? DBUS_NUM_MESSAGE_TYPES).

Definition get_recipients (ns : names) (mk : mm) (sender addressed : option conn) (m : msg) : option (list conn) :=
  let seen0 := match addressed with Some a => [a] | None => [] end in
  let neither := pool mk None None in
  let just_iface := match m_iface m with Some i => pool mk None (Some i) | None => [] end in
  let just_type := if valid_type (m_type m) then pool mk (Some (m_type m)) None else [] in
  let both := if valid_type (m_type m) then match m_iface m with Some i => pool mk (Some (m_type m)) (Some i) | None => [] end else [] in
  match recipients_from_list ns neither sender addressed m seen0 [] with
  | None => None
  | Some (a1, s1) =>
      match recipients_from_list ns just_iface sender addressed m s1 a1 with
      | None => None
      | Some (a2, s2) =>
          match recipients_from_list ns just_type sender addressed m s2 a2 with
          | None => None
          | Some (a3, s3) =>
              match recipients_from_list ns both sender addressed m s3 a3 with
              | None => None
              | Some (a4, _) => Some a4
              end
          end
      end
  end.

(* ---- the driver methods --------------------------------------------------------------------------- *)
Inductive reply :=
| RepOk                   (* method return *)
| RepLimits               (* org.freedesktop.DBus.Error.LimitsExceeded *)
| RepInvalid              (* ...MatchRuleInvalid *)
| RepDenied               (* ...AccessDenied (eavesdrop='true' from an unprivileged caller) *)
| RepNotFound             (* ...MatchRuleNotFound, the only reply *)
| RepOkThenNotFound.      (* a method return AND then MatchRuleNotFound for the same call: what RemoveMatch sent
                             before the F9 fix; kept as an observable so that the theorem excluding it says something *)

(* [limit] = max_match_rules_per_connection; [privileged] = bus_driver_check_caller_is_privileged *)
Definition handle_add_match (limit : N) (privileged : bool) (m : mm) (c : conn) (text : bytes) : mm * reply :=
  if limit <=? n_match_rules m c then (m, RepLimits) else
  match parse_rule c text with
  | PLimits => (m, RepLimits)
  | PInvalid => (m, RepInvalid)
  | POk r =>
      if r_eaves r && negb privileged then (m, RepDenied)
      else (add_rule m r, RepOk)
  end.

Definition handle_remove_match (m : mm) (c : conn) (text : bytes) : mm * reply :=
  match parse_rule c text with
  | PLimits => (m, RepLimits)
  | PInvalid => (m, RepInvalid)
  | POk r =>
      (* bus_matchmaker_has_rule_by_value first: MatchRuleNotFound before anything is queued; then the ack,
         then the removal (which finds the rule the lookup found) *)
      match remove_rule_by_value m r with
      | None => (m, RepNotFound)
      | Some m' => (m', RepOk)
      end
  end.

(* ---- bus_dispatch for a message from an active connection [c] ---------------------------------------- *)
(* who gets a copy: None = the daemon faulted.  A message without destination that is not a signal is
   left to the daemon's own connection (never matched); a message to an unknown name is answered with
   an error and not matched; a message to the driver is matched with no addressed connection once the
   driver method has succeeded (see after_driver_call). *)
Inductive routing :=
| RNotDispatched                       (* no destination, not a signal *)
| RNoOwner                             (* destination has no owner: error reply, nobody gets a copy *)
| RToDriver                            (* destination org.freedesktop.DBus: see the handle_* functions *)
| RRejected                            (* unknown message type: bus_context_check_security_policy refuses it
                                          ("Message bus will not accept messages of unknown type"), nobody gets a copy *)
| RRefusedFds                          (* the message carries unix fds and the ADDRESSED recipient cannot receive them:
                                          NotSupported error, bus_dispatch_matches returns before matching anyone *)
| RDelivered (rcpts : list conn).      (* addressed recipient first (if any), then the match recipients *)

(* dbus_message_contains_unix_fds (message) && !dbus_connection_can_send_type (connection, DBUS_TYPE_UNIX_FD):
   [caps] = the connections that negotiated fd passing, [nfds] = the UNIX_FDS count of the message *)
Definition fd_ok (caps : list conn) (nfds : N) (c : conn) : bool := (nfds =? 0) || existsb (N.eqb c) caps.

(* the recipient loop of bus_dispatch_matches with send_one_message: a recipient that cannot take the fds
   is skipped ("return TRUE; don't send it but don't return an error either") and the loop goes on with the
   next one; only out-of-memory (not modelled) stops it *)
Fixpoint fan_out (caps : list conn) (nfds : N) (rcpts : list conn) : list conn :=
  match rcpts with
  | [] => []
  | d :: rest => if fd_ok caps nfds d then d :: fan_out caps nfds rest else fan_out caps nfds rest
  end.

(* [rcp] = bus_matchmaker_get_recipients of whatever matchmaker representation is used (the flat list of this
   file, or the indexed pools of Match/Index.v) *)
Definition dispatch_with (rcp : option conn -> option conn -> msg -> option (list conn))
           (ns : names) (caps : list conn) (c : conn) (m : msg) (nfds : N) : option routing :=
  match m_dest m with
  | None =>
      if m_type m =? DBUS_MESSAGE_TYPE_SIGNAL then
        match rcp (Some c) None m with
        | None => None
        | Some l => Some (RDelivered (fan_out caps nfds l))
        end
      else Some RNotDispatched
  | Some d =>
      if bytes_eqb d S_org_freedesktop_DBus then Some RToDriver else
      match owner_of ns d with
      | None => Some RNoOwner
      | Some a =>
          if negb (valid_type (m_type m)) then Some RRejected else
          if negb (fd_ok caps nfds a) then Some RRefusedFds else
          match rcp (Some c) (Some a) m with
          | None => None
          | Some l => Some (RDelivered (a :: fan_out caps nfds l))
          end
      end
  end.

Definition dispatch (ns : names) (mk : mm) (caps : list conn) (c : conn) (m : msg) (nfds : N) : option routing :=
  dispatch_with (get_recipients ns mk) ns caps c m nfds.

(* ---- the small world the end-to-end correspondence drives ------------------------------------------- *)
Definition S_driver_path : bytes := [47;111;114;103;47;102;114;101;101;100;101;115;107;116;111;112;47;68;66;117;115].
Definition S_NameOwnerChanged : bytes := [78;97;109;101;79;119;110;101;114;67;104;97;110;103;101;100].
Definition S_AddMatch : bytes := [65;100;100;77;97;116;99;104].
Definition S_RemoveMatch : bytes := [82;101;109;111;118;101;77;97;116;99;104].
Definition S_RequestName : bytes := [82;101;113;117;101;115;116;78;97;109;101].
Definition S_Hello : bytes := [72;101;108;108;111].
Definition S_ReleaseName : bytes := [82;101;108;101;97;115;101;78;97;109;101].

(* a signal emitted by the driver itself: sender NULL, no addressed recipient *)
Definition name_owner_changed (name old new : bytes) : msg :=
  mkMsg DBUS_MESSAGE_TYPE_SIGNAL (Some S_driver_path) (Some S_org_freedesktop_DBus) (Some S_NameOwnerChanged) None
        [AStr name; AStr old; AStr new].

(* a method call to the driver as the test client sends it *)
Definition driver_call (member : bytes) (args : list marg) : msg :=
  mkMsg DBUS_MESSAGE_TYPE_METHOD_CALL (Some S_driver_path) (Some S_org_freedesktop_DBus) (Some member) (Some S_org_freedesktop_DBus) args.

Definition unique_of (ns : names) (c : conn) : bytes :=
  match find (fun p => (snd p =? c) && starts_with_colon (fst p)) ns with
  | Some (n, _) => n
  | None => []
  end.

Inductive event :=
| EvHello (c : conn) (unique : bytes) (fdcap : bool)
| EvOwn (c : conn) (name : bytes)              (* RequestName, flags 0: primary owner, or queued behind the current one *)
| EvRelease (c : conn) (name : bytes)          (* ReleaseName *)
| EvAdd (c : conn) (text : bytes)
| EvRemove (c : conn) (text : bytes)
| EvSend (c : conn) (m : msg) (nfds : N)
| EvDisconnect (c : conn).

Inductive output :=
| OSignal (rcpts : list conn)                           (* recipients of the NameOwnerChanged broadcast *)
| OOwn (code : N) (rcpts : list conn)                   (* RequestName / ReleaseName reply code + NameOwnerChanged recipients *)
| OReply (r : reply)
| ORouting (r : routing)
| OSignals (l : list (bytes * list conn)).              (* disconnect: one broadcast per name whose primary owner left *)

(* ---- name table bookkeeping (bus/services.c, only as far as match rules see it) ---------------------------
   [names] lists (name, connection) in the order of acquisition: the first entry of a name is its primary
   owner (owner_of), later entries are the queue.  These functions only say how the table changes and which
   NameOwnerChanged signal the driver broadcasts; who receives it is the matchmaker's business. *)
Definition has_entry (ns : names) (name : bytes) (c : conn) : bool :=
  existsb (fun p => bytes_eqb (fst p) name && (snd p =? c)) ns.

(* RequestName with flags 0: reply code (1 primary owner, 2 in queue, 4 already owner), new table, broadcast *)
Definition own_plan (ns : names) (c : conn) (name : bytes) : N * names * option msg :=
  match owner_of ns name with
  | None => (1, ns ++ [(name, c)], Some (name_owner_changed name [] (unique_of ns c)))
  | Some o => if o =? c then (4, ns, None)
              else if has_entry ns name c then (2, ns, None)
              else (2, ns ++ [(name, c)], None)
  end.

(* one (name, connection) entry goes away (ReleaseName, or the connection left): if it was the primary owner the
   next in the queue takes over and the change is broadcast *)
Definition release_one (ns : names) (c : conn) (unique : bytes) (n : bytes) : names * option msg :=
  let ns' := filter (fun p => negb (bytes_eqb (fst p) n && (snd p =? c))) ns in
  (ns', match owner_of ns n with
        | Some o => if o =? c
                    then Some (name_owner_changed n unique (match owner_of ns' n with Some o' => unique_of ns' o' | None => [] end))
                    else None
        | None => None
        end).

(* ReleaseName reply code: 1 released, 2 non-existent, 3 not owner *)
Definition release_code (ns : names) (c : conn) (name : bytes) : N :=
  if has_entry ns name c then 1 else match owner_of ns name with None => 2 | Some _ => 3 end.

(* names given up by a disconnect, in the order bus_connection_disconnected walks services_owned *)
Definition released_names (ns : names) (c : conn) : list bytes :=
  let mine := map fst (filter (fun p => snd p =? c) ns) in
  let wk := filter (fun n => negb (starts_with_colon n)) mine in
  let un := filter starts_with_colon mine in
  rev wk ++ un.

(* ---- the world, generic in the representation of the matchmaker ------------------------------------------- *)
Section World.
  Variable M : Type.
  (* bus_matchmaker_get_recipients, AddMatch, RemoveMatch, the rule part of bus_connection_disconnected *)
  Variable rcp : names -> M -> option conn -> option conn -> msg -> option (list conn).
  Variable add_match : N -> bool -> M -> conn -> bytes -> M * reply.
  Variable remove_match : M -> conn -> bytes -> M * reply.
  Variable disconnect : M -> conn -> bytes -> M.

  Record gworld := mkWorld { w_mm : M; w_names : names; w_caps : list conn (* negotiated NEGOTIATE_UNIX_FD *) }.

  (* a signal emitted by the driver itself: sender NULL, no addressed recipient *)
  Definition driver_broadcast_with (ns : names) (mk : M) (m : msg) : option (list conn) := rcp ns mk None None m.

  (* bus_dispatch: after bus_driver_handle_message succeeded the call itself is matched (eavesdroppers) *)
  Definition after_driver_call_with (ns : names) (mk : M) (c : conn) (m : msg) : option (list conn) := rcp ns mk (Some c) None m.

  Fixpoint release_all_with (ns : names) (mk : M) (c : conn) (unique : bytes) (l : list bytes) (acc : list (bytes * list conn))
    : option (names * list (bytes * list conn)) :=
    match l with
    | [] => Some (ns, rev acc)
    | n :: rest =>
        match release_one ns c unique n with
        | (ns', None) => release_all_with ns' mk c unique rest acc
        | (ns', Some sig) =>
            match driver_broadcast_with ns' mk sig with
            | None => None
            | Some rc => release_all_with ns' mk c unique rest ((n, rc) :: acc)
            end
        end
    end.

  (* None = the daemon performed an out-of-bounds read (Fault) while handling the event *)
  Definition step_with (limit : N) (w : gworld) (e : event) : option (gworld * output) :=
    match e with
    | EvHello c unique fdcap =>
        let ns := w_names w ++ [(unique, c)] in
        let caps := if fdcap then c :: w_caps w else w_caps w in
        match driver_broadcast_with ns (w_mm w) (name_owner_changed unique [] unique) with
        | None => None
        | Some rc =>
            match after_driver_call_with ns (w_mm w) c (driver_call S_Hello []) with
            | None => None
            | Some _ => Some (mkWorld (w_mm w) ns caps, OSignal rc)
            end
        end
    | EvOwn c name =>
        let '(code, ns, sig) := own_plan (w_names w) c name in
        match (match sig with Some s => driver_broadcast_with ns (w_mm w) s | None => Some [] end) with
        | None => None
        | Some rc =>
            match after_driver_call_with ns (w_mm w) c (driver_call S_RequestName [AStr name; AOther]) with
            | None => None
            | Some _ => Some (mkWorld (w_mm w) ns (w_caps w), OOwn code rc)
            end
        end
    | EvRelease c name =>
        let code := release_code (w_names w) c name in
        let (ns, sig) := release_one (w_names w) c (unique_of (w_names w) c) name in
        match (match sig with Some s => driver_broadcast_with ns (w_mm w) s | None => Some [] end) with
        | None => None
        | Some rc =>
            match after_driver_call_with ns (w_mm w) c (driver_call S_ReleaseName [AStr name]) with
            | None => None
            | Some _ => Some (mkWorld (w_mm w) ns (w_caps w), OOwn code rc)
            end
        end
    | EvAdd c text =>
        let (mk', rep) := add_match limit true (w_mm w) c text in
        match rep with
        | RepOk =>
            match after_driver_call_with (w_names w) mk' c (driver_call S_AddMatch [AStr text]) with
            | None => None
            | Some _ => Some (mkWorld mk' (w_names w) (w_caps w), OReply rep)
            end
        | _ => Some (mkWorld mk' (w_names w) (w_caps w), OReply rep)
        end
    | EvRemove c text =>
        let (mk', rep) := remove_match (w_mm w) c text in
        match rep with
        | RepOk =>
            match after_driver_call_with (w_names w) mk' c (driver_call S_RemoveMatch [AStr text]) with
            | None => None
            | Some _ => Some (mkWorld mk' (w_names w) (w_caps w), OReply rep)
            end
        | _ => Some (mkWorld mk' (w_names w) (w_caps w), OReply rep)
        end
    | EvSend c m nfds =>
        match dispatch_with (rcp (w_names w) (w_mm w)) (w_names w) (w_caps w) c m nfds with
        | None => None
        | Some r => Some (w, ORouting r)
        end
    | EvDisconnect c =>
        let unique := unique_of (w_names w) c in
        let mk' := disconnect (w_mm w) c unique in
        match release_all_with (w_names w) mk' c unique (released_names (w_names w) c) [] with
        | None => None
        | Some (ns', l) => Some (mkWorld mk' ns' (w_caps w), OSignals l)
        end
    end.
End World.

Arguments mkWorld {M}.
Arguments w_mm {M}.
Arguments w_names {M}.
Arguments w_caps {M}.

(* the flat instance *)
Definition world := gworld mm.
Definition driver_broadcast := driver_broadcast_with mm get_recipients.
Definition after_driver_call := after_driver_call_with mm get_recipients.
Definition step : N -> world -> event -> option (world * output) :=
  step_with mm get_recipients handle_add_match handle_remove_match handle_disconnect.
