(* Model of the matcher of bus/signals.c (dbus 1.13.18):

     match_rule_matches          -> rule_matches
     connection_is_primary_owner -> is_primary_owner (over an abstract name table)
     str_has_prefix              -> is_prefix (Lib.Base)

   Memory reads that the C code performs with a computed index are made through
   [read_heap] / [read_body], which return None outside the object; None is
   propagated as a Fault of the whole evaluation ([option bool], None = Fault).
   Model only: no proofs here. *)
From DV Require Export Match.Rule.
From Coq Require Import ZArith.
Local Open Scope N_scope.

(* ---- messages as the matcher sees them ------------------------------------------ *)
Inductive marg :=
| AStr (s : bytes)        (* DBUS_TYPE_STRING *)
| APath (s : bytes)       (* DBUS_TYPE_OBJECT_PATH *)
| AOther.                 (* any other first-level type *)

Record msg := mkMsg {
  m_type : N;
  m_path : option bytes;
  m_iface : option bytes;
  m_member : option bytes;
  m_dest : option bytes;
  m_args : list marg
}.

(* who sends / who is addressed: None = the bus driver (or nobody, for addressed) *)
Definition conn := N.
Definition names := list (bytes * conn).      (* name -> primary owner; unique names included *)

Fixpoint owner_of (ns : names) (name : bytes) : option conn :=
  match ns with
  | [] => None
  | (n, c) :: rest => if bytes_eqb n name then Some c else owner_of rest name
  end.

(* connection_is_primary_owner (connection, service_name) *)
Definition is_primary_owner (ns : names) (c : conn) (name : bytes) : bool :=
  match owner_of ns name with
  | Some o => o =? c
  | None => false
  end.

(* ---- explicit memory reads --------------------------------------------------------- *)
(* a malloc'ed NUL-terminated copy of [s] (rule->args[i]): indices 0..len are inside the block *)
Definition read_heap (s : bytes) (i : Z) : option N :=
  if (i <? 0)%Z then None
  else match nth_error s (Z.to_nat i) with
       | Some c => Some c
       | None => if (i =? Z.of_nat (length s))%Z then Some 0 else None
       end.

(* a string / object-path argument inside the message body: the bytes are followed by a NUL.  (Before
   commit c577f29 the matcher could read index -1, the last byte of the length word; it no longer does,
   so index -1 is outside like any other negative index.) *)
Definition read_body (s : bytes) (i : Z) : option N := read_heap s i.

Definition SLASH_C : N := 47.
Definition DOT_C : N := 46.
Definition COLON_C : N := 58.

Definition zlen (s : bytes) : Z := Z.of_nat (length s).

(* ---- one argument ------------------------------------------------------------------- *)
(* the body of "if (expected_arg != NULL)" ; None = Fault *)
Definition arg_matches (kind : argkind) (expected : bytes) (actual : option marg) : option bool :=
  let body (a : bytes) : option bool :=
      let elen := zlen expected in
      let alen := zlen a in
      match kind with
      | ArgPath =>
          (* if (actual_length < expected_length &&
                 (actual_length == 0 || actual_arg[actual_length - 1] != '/')) return FALSE; *)
          match (if (alen <? elen)%Z
                 then (if (alen =? 0)%Z then Some true
                       else match read_body a (alen - 1) with
                            | None => None
                            | Some c => Some (negb (c =? SLASH_C))
                            end)
                 else Some false) with
          | None => None
          | Some true => Some false
          | Some false =>
              (* if (expected_length < actual_length &&
                     (expected_length == 0 || expected_arg[expected_length - 1] != '/')) return FALSE; *)
              match (if (elen <? alen)%Z
                     then (if (elen =? 0)%Z then Some true
                           else match read_heap expected (elen - 1) with
                                | None => None
                                | Some c => Some (negb (c =? SLASH_C))
                                end)
                     else Some false) with
              | None => None
              | Some true => Some false
              | Some false =>
                  (* memcmp (actual_arg, expected_arg, MIN (actual_length, expected_length)) *)
                  let n := Z.to_nat (Z.min alen elen) in
                  Some (bytes_eqb (firstn n a) (firstn n expected))
              end
          end
      | ArgNamespace =>
          if (alen <? elen)%Z then Some false
          else if negb (bytes_eqb (firstn (length expected) a) expected) then Some false
          else if (elen <? alen)%Z then
                 match read_body a elen with
                 | None => None
                 | Some c => Some (c =? DOT_C)
                 end
          else Some true
      | ArgString => Some (bytes_eqb expected a)
      end in
  match actual with
  | Some (AStr a) => body a
  | Some (APath a) => match kind with ArgPath => body a | _ => Some false end
  | Some AOther => Some false
  | None => Some false            (* DBUS_TYPE_INVALID: past the last argument *)
  end.

(* the while (i < rule->args_len) loop; the iterator advances unless it is already at the end *)
Fixpoint args_match (expected : list (option (argkind * bytes))) (actual : list marg) : option bool :=
  match expected with
  | [] => Some true
  | e :: erest =>
      let cur := match actual with a :: _ => Some a | [] => None end in
      let arest := match actual with _ :: r => r | [] => [] end in
      match e with
      | None => args_match erest arest
      | Some (k, v) =>
          match arg_matches k v cur with
          | None => None
          | Some false => Some false
          | Some true => args_match erest arest
          end
      end
  end.

(* ---- match_rule_matches --------------------------------------------------------------- *)
(* [skip_ti] = already_matched contains BUS_MATCH_MESSAGE_TYPE | BUS_MATCH_INTERFACE (callers pass
   either that or 0).  sender / addressed: None = NULL. *)
Definition rule_matches (ns : names) (r : rule) (sender addressed : option conn) (m : msg) (skip_ti : bool) : option bool :=
  let wants_to_eavesdrop := r_eaves r in
  if negb skip_ti && match r_type r with Some t => negb (t =? m_type m) | None => false end then Some false
  else if negb skip_ti && match r_iface r with
                          | Some i => match m_iface m with Some mi => negb (bytes_eqb mi i) | None => true end
                          | None => false end then Some false
  else if match r_member r with
          | Some x => match m_member m with Some mx => negb (bytes_eqb mx x) | None => true end
          | None => false end then Some false
  else if match r_sender r with
          | Some s => match sender with
                      | None => negb (bytes_eqb s S_org_freedesktop_DBus)
                      | Some c => negb (is_primary_owner ns c s)
                      end
          | None => false end then Some false
  else if match r_dest r with
          | Some d =>
              match m_dest m with
              | None => true
              | Some md =>
                  if negb wants_to_eavesdrop then true
                  else match addressed with
                       | None => negb (bytes_eqb d md)
                       | Some c => negb (is_primary_owner ns c d)
                       end
              end
          | None => negb wants_to_eavesdrop && isSome (m_dest m)
          end then Some false
  else if match r_path r with
          | Some (false, p) => match m_path m with Some mp => negb (bytes_eqb mp p) | None => true end
          | Some (true, p) =>
              match m_path m with
              | None => true
              | Some mp =>
                  if negb (is_prefix p mp) then true
                  else (* len > 1 && path[len] != '\0' && path[len] != '/' ; path[len] is inside the
                          NUL-terminated path because p is a prefix of it *)
                    (1 <? nlen p) && match skipn (length p) mp with
                                     | [] => false
                                     | c :: _ => negb (c =? SLASH_C)
                                     end
              end
          | None => false end then Some false
  else args_match (r_args r) (m_args m).
