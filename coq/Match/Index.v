(* Model of the INDEXED representation of the matchmaker in bus/signals.c (dbus 1.13.18):

     struct RulePool / struct BusMatchmaker (rules_by_type[], rules_by_iface, rules_without_iface)
                                                     -> rule_pool, imm
     bus_matchmaker_new                              -> imm_new
     bus_matchmaker_get_rules (create = FALSE)       -> iget           (None = NULL)
     bus_matchmaker_get_rules (create = TRUE) + _dbus_list_append
                                                     -> iadd
     bus_matchmaker_gc_rules                         -> the [] case of pool_set
     bus_matchmaker_remove_rule_by_value             -> iremove
     rule_list_remove_by_connection / bus_matchmaker_disconnected (incl. _dbus_hash_iter_remove_entry)
                                                     -> pool_disconnected, idisconnected
     bus_matchmaker_get_recipients                   -> iget_recipients
     bus_driver_handle_add_match / _remove_match, bus_connection_disconnected on this representation
                                                     -> ihandle_add_match, ihandle_remove_match, ihandle_disconnect
   and the world of Match/Bus.v instantiated with it (istep).

   A hash table keyed by interface is an association list with the operations lookup / replace / insert /
   remove (hash order is not observable: entries are only ever looked up by key or visited one by one).
   rules_by_type[] is a list of DBUS_NUM_MESSAGE_TYPES pools; an index outside it (an assertion failure
   in C) yields None / leaves the structure unchanged, and never happens for rules the parser produced.
   n_match_rules is still the number of rules owned (icount).  Model only: no proofs here. *)
From DV Require Export Match.Bus.
Local Open Scope N_scope.

Record rule_pool := mkPool {
  p_by_iface : list (bytes * list rule);       (* rules_by_iface: interface -> list, oldest first *)
  p_without : list rule                        (* rules_without_iface *)
}.

Definition imm := list rule_pool.              (* rules_by_type[0 .. DBUS_NUM_MESSAGE_TYPES-1]; 0 = no type *)

Definition imm_new : imm := repeat (mkPool [] []) (N.to_nat DBUS_NUM_MESSAGE_TYPES).

(* rule->message_type *)
Definition type_index (t : option N) : N := match t with Some x => x | None => DBUS_MESSAGE_TYPE_INVALID end.

(* ---- the string-keyed hash table ------------------------------------------------------------------------ *)
Fixpoint hash_lookup (h : list (bytes * list rule)) (k : bytes) : option (list rule) :=
  match h with
  | [] => None
  | (k', l) :: rest => if bytes_eqb k' k then Some l else hash_lookup rest k
  end.

Fixpoint hash_replace (h : list (bytes * list rule)) (k : bytes) (l : list rule) : list (bytes * list rule) :=
  match h with
  | [] => []
  | (k', l') :: rest => if bytes_eqb k' k then (k', l) :: rest else (k', l') :: hash_replace rest k l
  end.

Definition hash_remove (h : list (bytes * list rule)) (k : bytes) : list (bytes * list rule) :=
  filter (fun e => negb (bytes_eqb (fst e) k)) h.

(* ---- bus_matchmaker_get_rules ------------------------------------------------------------------------------ *)
Definition iget (m : imm) (t : N) (i : option bytes) : option (list rule) :=
  match nth_error m (N.to_nat t) with
  | None => None
  | Some p => match i with
              | None => Some (p_without p)
              | Some k => hash_lookup (p_by_iface p) k
              end
  end.

(* put a list back under its key.  Under an interface key: a new entry is inserted if there was none
   (create = TRUE), and an entry whose list became empty is removed (bus_matchmaker_gc_rules /
   _dbus_hash_iter_remove_entry) *)
Definition pool_set (p : rule_pool) (i : option bytes) (l : list rule) : rule_pool :=
  match i with
  | None => mkPool (p_by_iface p) l
  | Some k =>
      mkPool (match l with
              | [] => hash_remove (p_by_iface p) k
              | _ => match hash_lookup (p_by_iface p) k with
                     | Some _ => hash_replace (p_by_iface p) k l
                     | None => p_by_iface p ++ [(k, l)]
                     end
              end) (p_without p)
  end.

Fixpoint update_nth {A} (l : list A) (n : nat) (x : A) : list A :=
  match l, n with
  | [], _ => []
  | _ :: r, O => x :: r
  | y :: r, S n' => y :: update_nth r n' x
  end.

Definition iset (m : imm) (t : N) (i : option bytes) (l : list rule) : imm :=
  match nth_error m (N.to_nat t) with
  | None => m
  | Some p => update_nth m (N.to_nat t) (pool_set p i l)
  end.

Definition or_nil (o : option (list rule)) : list rule := match o with Some l => l | None => [] end.

(* ---- bus_matchmaker_add_rule -------------------------------------------------------------------------------- *)
Definition iadd (m : imm) (r : rule) : imm :=
  iset m (type_index (r_type r)) (r_iface r) (or_nil (iget m (type_index (r_type r)) (r_iface r)) ++ [r]).

(* ---- bus_matchmaker_remove_rule_by_value ---------------------------------------------------------------------- *)
(* walk the list from its newest link; [rev_l] is the list reversed *)
Fixpoint remove_newest_equal (rev_l : list rule) (v : rule) : option (list rule) :=
  match rev_l with
  | [] => None
  | r :: rest =>
      if rule_equal r v then Some rest
      else match remove_newest_equal rest v with
           | None => None
           | Some rest' => Some (r :: rest')
           end
  end.

Definition iremove (m : imm) (v : rule) : option imm :=
  match iget m (type_index (r_type v)) (r_iface v) with
  | None => None                                       (* rules == NULL: MatchRuleNotFound *)
  | Some l =>
      match remove_newest_equal (rev l) v with
      | None => None
      | Some l' => Some (iset m (type_index (r_type v)) (r_iface v) (rev l'))
      end
  end.

(* ---- bus_matchmaker_disconnected -------------------------------------------------------------------------------- *)
Definition keep_on_disconnect (c : conn) (name : bytes) (r : rule) : bool := negb (dropped_on_disconnect c name r).

Definition pool_disconnected (c : conn) (name : bytes) (p : rule_pool) : rule_pool :=
  mkPool (filter (fun e => match snd e with [] => false | _ => true end)
                 (map (fun e => (fst e, filter (keep_on_disconnect c name) (snd e))) (p_by_iface p)))
         (filter (keep_on_disconnect c name) (p_without p)).

Definition idisconnected (m : imm) (c : conn) (name : bytes) : imm := map (pool_disconnected c name) m.

(* every rule stored, pool by pool *)
Definition pool_rules (p : rule_pool) : list rule := p_without p ++ flat_map snd (p_by_iface p).
Definition all_rules (m : imm) : list rule := flat_map pool_rules m.

Definition icount (m : imm) (c : conn) : N := nlen (filter (fun r => r_owner r =? c) (all_rules m)).

Definition ihandle_disconnect (m : imm) (c : conn) (name : bytes) : imm :=
  if 0 <? icount m c then idisconnected m c name else m.

(* ---- bus_matchmaker_get_recipients -------------------------------------------------------------------------------- *)
Definition iget_recipients (ns : names) (mk : imm) (sender addressed : option conn) (m : msg) : option (list conn) :=
  let seen0 := match addressed with Some a => [a] | None => [] end in
  let neither := or_nil (iget mk DBUS_MESSAGE_TYPE_INVALID None) in
  let just_iface := match m_iface m with Some i => or_nil (iget mk DBUS_MESSAGE_TYPE_INVALID (Some i)) | None => [] end in
  let just_type := if valid_type (m_type m) then or_nil (iget mk (m_type m) None) else [] in
  let both := if valid_type (m_type m) then match m_iface m with Some i => or_nil (iget mk (m_type m) (Some i)) | None => [] end else [] in
  match recipients_from_list ns neither sender addressed m seen0 [] with
  | None => None
  | Some (a1, s1) =>
      match recipients_from_list ns just_iface sender addressed m s1 a1 with
      | None => None
      | Some (a2, s2) =>
          match recipients_from_list ns just_type sender addressed m s2 a2 with
          | None => None
          | Some (a3, s3) =>
              match recipients_from_list ns both sender addressed m s3 a3 with
              | None => None
              | Some (a4, _) => Some a4
              end
          end
      end
  end.

(* ---- the driver methods on this representation --------------------------------------------------------------------- *)
Definition ihandle_add_match (limit : N) (privileged : bool) (m : imm) (c : conn) (text : bytes) : imm * reply :=
  if limit <=? icount m c then (m, RepLimits) else
  match parse_rule c text with
  | PLimits => (m, RepLimits)
  | PInvalid => (m, RepInvalid)
  | POk r =>
      if r_eaves r && negb privileged then (m, RepDenied)
      else (iadd m r, RepOk)
  end.

Definition ihandle_remove_match (m : imm) (c : conn) (text : bytes) : imm * reply :=
  match parse_rule c text with
  | PLimits => (m, RepLimits)
  | PInvalid => (m, RepInvalid)
  | POk r =>
      match iremove m r with
      | None => (m, RepNotFound)
      | Some m' => (m', RepOk)
      end
  end.

Definition iworld := gworld imm.
Definition iworld_new : iworld := mkWorld imm_new [] [].
Definition istep : N -> iworld -> event -> option (iworld * output) :=
  step_with imm iget_recipients ihandle_add_match ihandle_remove_match ihandle_disconnect.
