(* Receiving without barriers (package `fds`, property C15): the socket as a queue of skbs and reads that
   happen whenever the main loop gets to them.  Fds.step processes every write completely before the next
   one; here the sender may be any number of writes ahead of the receiver, so one read can span the end of
   one message and the beginning of the next -- the situation _dbus_message_loader_get_buffer's slow path
   exists for.

     kernel (unix_stream_read_generic)   ktake: a read of at most k bytes takes bytes from the queue in order, detaches
                                         the descriptors of the first skb it touches that has any, and ends with that skb;
                                         a partly consumed skb stays in the queue without descriptors
     do_reading, one pass                aread: get_buffer, the read, recv_fds (control buffer / plain read), feed_parts

   One skb is one sendmsg of the peer: a piece of ONE message (libdbus and the bus never put two messages
   into one sendmsg) and the descriptors sent with it.  No proofs in this file. *)
From DV Require Import Lib.Base Gen.Tables Fds.Fds.
Local Open Scope N_scope.

Definition skb := (part * list fd)%type.

Definition trunc_part (p : part) (k : N) : part := match p with PHead d _ => PHead d k | PCont _ => PCont k end.

Fixpoint ktake (k : N) (q : list skb) : list skb * list skb :=
  match q with
  | [] => ([], [])
  | (p, F) :: r =>
      if k =? 0 then ([], q)
      else
        let n := psize p in
        if n <=? k then
          match F with
          | [] => let '(t, r') := ktake (k - n) r in ((p, []) :: t, r')
          | _ :: _ => ([(p, F)], r)                              (* descriptors detached: the read ends here *)
          end
        else ([(trunc_part p k, F)], (PCont (n - k), []) :: r)    (* what is left of the skb has no descriptors any more *)
  end.

Inductive ares :=
| AEagain                                                        (* nothing in the socket *)
| ARead (c : conn) (loaded : list (wmsg * list fd)) (led : ledger) (q : list skb) (st : status)
| ATrunc (c : conn) (led : ledger) (q : list skb).               (* MSG_CTRUNC: do_io_error *)

(* one pass of do_reading's loop on connection c with socket queue q *)
Definition aread (cf : cfg) (now : N) (c : conn) (q : list skb) (led : ledger) : ares :=
  let '(max_to_read, may) := get_buffer c in
  let k := N.min max_to_read (read_cap cf) in
  let '(taken, q') := ktake k q in
  match taken with
  | [] => AEagain
  | _ :: _ =>
      let '(c1, led1, trunc) := recv_fds cf now c may (concat (map snd taken)) led in
      if trunc then ATrunc c1 led1 q'
      else let '(c2, ld, s) := feed_parts c1 (map fst taken) in ARead c2 ld led1 q' s
  end.

(* the descriptors each message was sent with: (message, descriptors of the skb holding its first byte) *)
Fixpoint heads (q : list skb) : list (wmsg * list fd) :=
  match q with
  | [] => []
  | (PHead d _, F) :: r => (d, F) :: heads r
  | (PCont _, _) :: r => heads r
  end.

(* the message in progress in the loader, with the descriptors waiting for it *)
Definition inprog (c : conn) : list (wmsg * list fd) :=
  match c_cur c with Some (d, _) => [(d, c_pend c)] | None => [] end.

(* a schedule: the peer sends, the receiver reads *)
Inductive aev := AESend (s : skb) | AERead.

Record astate := mkAS {
  as_conn : conn;
  as_q : list skb;
  as_led : ledger;
  as_loaded : list (wmsg * list fd);     (* every message queued so far, in order, with its descriptors *)
  as_sent : list (wmsg * list fd);       (* ghost: heads of everything the peer has sent *)
  as_bad : bool }.                       (* the stream went bad or descriptors were lost *)

Definition astep (cf : cfg) (now : N) (a : astate) (e : aev) : astate :=
  match e with
  | AESend s => mkAS (as_conn a) (as_q a ++ [s]) (as_led a) (as_loaded a) (as_sent a ++ heads [s]) (as_bad a)
  | AERead =>
      match aread cf now (as_conn a) (as_q a) (as_led a) with
      | AEagain => a
      | ARead c ld led q st =>
          mkAS c q led (as_loaded a ++ ld) (as_sent a)
               (as_bad a || match st with SOk => false | _ => true end || negb (nlen (g_kdrop led) =? nlen (g_kdrop (as_led a))))
      | ATrunc c led q => mkAS c q led (as_loaded a) (as_sent a) true
      end
  end.

Fixpoint arun (cf : cfg) (now : N) (a : astate) (evs : list aev) : astate :=
  match evs with [] => a | e :: r => arun cf now (astep cf now a e) r end.

Definition ainit (neg : bool) : astate := mkAS (mkConn 0 neg false None [] None [] []) [] led0 [] [] false.
