(* Library-side descriptor ownership (package `fds`, property C15): the part of dbus/dbus-message.c
   through which an application puts descriptors into a message and takes them out again.

     dbus_message_iter_append_basic (DBUS_TYPE_UNIX_FD)   expand_fd_array, _dbus_dup of the caller's descriptor,
                                                          write the index, n_unix_fds += 1; close the dup if writing fails
     dbus_message_copy                                    _dbus_dup of every descriptor in order; `failed_copy`
                                                          closes the ones already duplicated
     dbus_message_iter_get_basic (UNIX_FD)                _dbus_dup of unix_fds[idx], -1 when idx is out of range
     _dbus_message_iter_get_args_valist                   one _dbus_dup per UNIX_FD argument; on any later failure the
                                                          second pass over the arguments closes what was handed out
     dbus_message_ref / dbus_message_unref                dbus_message_cache_or_finalize -> close_unix_fds
   The kernel side is a descriptor table: numbers map to open files; dup makes a fresh number for the
   same open file (which number the kernel picks is never compared).  The caller's descriptor stays
   the caller's: the library only ever closes what it duplicated itself.

   Ghost fields record every successful dup, every close by the library and every dup handed to the
   application.  No proofs in this file. *)
From DV Require Import Lib.Base.
Local Open Scope N_scope.

Notation fdn := N (only parsing).      (* descriptor number *)
Notation file := N (only parsing).     (* identity of an open file description *)

Record lmsg := mkLM {
  lm_h : N;                (* handle *)
  lm_refs : N;             (* refcount, >= 1 *)
  lm_fds : list fdn;       (* unix_fds[0 .. n_unix_fds) *)
  lm_src : list file }.    (* ghost: the open files the descriptors were duplicated from, in order *)

Record lstate := mkLS {
  ls_open : list (fdn * file);   (* the process's descriptor table *)
  ls_next : fdn;                 (* next fresh number *)
  ls_msgs : list lmsg;
  ls_app : list fdn;             (* descriptors the application owns (opened itself or was handed) *)
  ls_dups : list fdn;            (* ghost: every successful _dbus_dup by the library *)
  ls_closed : list fdn;          (* ghost: every close by the library *)
  ls_given : list fdn;           (* ghost: dups handed to the application *)
  ls_fault : bool }.

Definition linit : lstate := mkLS [] 0 [] [] [] [] [] false.

Inductive lev :=
| LOpen (fl : file)                                                   (* application: open() *)
| LNew (h : N)                                                        (* dbus_message_new_*: refcount 1, no descriptors *)
| LAppend (h : N) (f : fdn) (dup_ok write_ok : bool)                  (* dbus_message_iter_append_basic (UNIX_FD, &f) *)
| LCopy (h h' : N) (fail_at : option nat)                             (* dbus_message_copy; the fail_at-th dup fails *)
| LGet (h : N) (idx : N) (dup_ok : bool)                              (* dbus_message_iter_get_basic on an 'h' holding idx *)
| LGetArgs (h : N) (want : nat) (fail_at : option nat) (mismatch : bool)   (* dbus_message_get_args: want UNIX_FD arguments,
                                                                              then (mismatch) one of the wrong type *)
| LRef (h : N)
| LUnref (h : N)
| LAppClose (f : fdn).                                                (* application: close() of one of its own *)

Inductive lres :=
| RNone
| RBool (b : bool)
| RFd (f : option fdn)            (* None = -1 *)
| RFds (l : option (list fdn)).   (* get_args: the descriptors handed out, None = FALSE with error set *)

(* ---------------------------------------------------------------- kernel *)
Fixpoint file_of (t : list (fdn * file)) (f : fdn) : option file :=
  match t with
  | [] => None
  | (g, fl) :: r => if g =? f then Some fl else file_of r f
  end.

Fixpoint k_remove (t : list (fdn * file)) (f : fdn) : list (fdn * file) :=
  match t with
  | [] => []
  | (g, fl) :: r => if g =? f then r else (g, fl) :: k_remove r f
  end.

Fixpoint del1 (l : list fdn) (f : fdn) : list fdn :=
  match l with
  | [] => []
  | g :: r => if g =? f then r else g :: del1 r f
  end.

Definition mem (f : fdn) (l : list fdn) : bool := existsb (N.eqb f) l.

(* _dbus_dup by the library: a fresh number for the same open file; EBADF when f is not open, EMFILE when ok = false *)
Definition lib_dup (st : lstate) (f : fdn) (ok : bool) : lstate * option fdn :=
  match file_of (ls_open st) f with
  | Some fl =>
      if ok then
        (mkLS (ls_open st ++ [(ls_next st, fl)]) (ls_next st + 1) (ls_msgs st) (ls_app st)
              (ls_dups st ++ [ls_next st]) (ls_closed st) (ls_given st) (ls_fault st), Some (ls_next st))
      else (st, None)
  | None => (st, None)
  end.

(* _dbus_close / close_unix_fds by the library *)
Definition lib_close (st : lstate) (f : fdn) : lstate :=
  mkLS (k_remove (ls_open st) f) (ls_next st) (ls_msgs st) (ls_app st) (ls_dups st) (ls_closed st ++ [f]) (ls_given st) (ls_fault st).

Fixpoint lib_close_all (st : lstate) (l : list fdn) : lstate :=
  match l with [] => st | f :: r => lib_close_all (lib_close st f) r end.

(* dup the descriptors of l in order; the k-th dup (counted from `pos`) fails when fail_at = Some k.
   Result: state, the dups made, and whether all succeeded *)
Fixpoint dup_list (st : lstate) (l : list fdn) (pos : nat) (fail_at : option nat) : lstate * list fdn * bool :=
  match l with
  | [] => (st, [], true)
  | f :: r =>
      let ok := match fail_at with Some k => negb (Nat.eqb k pos) | None => true end in
      match lib_dup st f ok with
      | (st1, Some g) => let '(st2, made, all) := dup_list st1 r (S pos) fail_at in (st2, g :: made, all)
      | (st1, None) => (st1, [], false)
      end
  end.

(* ---------------------------------------------------------------- messages *)
Fixpoint find_msg (ms : list lmsg) (h : N) : option lmsg :=
  match ms with [] => None | m :: r => if lm_h m =? h then Some m else find_msg r h end.
Fixpoint upd_msg (ms : list lmsg) (m' : lmsg) : list lmsg :=
  match ms with [] => [] | m :: r => if lm_h m =? lm_h m' then m' :: r else m :: upd_msg r m' end.
Fixpoint del_msg (ms : list lmsg) (h : N) : list lmsg :=
  match ms with [] => [] | m :: r => if lm_h m =? h then r else m :: del_msg r h end.

Definition set_msgs (st : lstate) (ms : list lmsg) : lstate :=
  mkLS (ls_open st) (ls_next st) ms (ls_app st) (ls_dups st) (ls_closed st) (ls_given st) (ls_fault st).
Definition give (st : lstate) (l : list fdn) : lstate :=
  mkLS (ls_open st) (ls_next st) (ls_msgs st) (ls_app st ++ l) (ls_dups st) (ls_closed st) (ls_given st ++ l) (ls_fault st).
Definition lfault (st : lstate) : lstate :=
  mkLS (ls_open st) (ls_next st) (ls_msgs st) (ls_app st) (ls_dups st) (ls_closed st) (ls_given st) true.

Definition lstep (st : lstate) (e : lev) : lstate * lres :=
  match e with
  | LOpen fl =>
      (mkLS (ls_open st ++ [(ls_next st, fl)]) (ls_next st + 1) (ls_msgs st) (ls_app st ++ [ls_next st])
            (ls_dups st) (ls_closed st) (ls_given st) (ls_fault st), RFd (Some (ls_next st)))
  | LNew h =>
      match find_msg (ls_msgs st) h with
      | Some _ => (lfault st, RNone)
      | None => (set_msgs st (ls_msgs st ++ [mkLM h 1 [] []]), RNone)
      end
  | LAppend h f dup_ok write_ok =>
      match find_msg (ls_msgs st) h with
      | None => (lfault st, RNone)
      | Some m =>
          match lib_dup st f dup_ok with                               (* the new slot := _dbus_dup of the caller's descriptor *)
          | (st1, None) => (st1, RBool false)
          | (st1, Some g) =>
              if write_ok then                                         (* index written, n_unix_fds += 1 *)
                let fl := match file_of (ls_open st) f with Some x => x | None => 0 end in
                (set_msgs st1 (upd_msg (ls_msgs st1) (mkLM h (lm_refs m) (lm_fds m ++ [g]) (lm_src m ++ [fl]))), RBool true)
              else (lib_close st1 g, RBool false)                      (* _dbus_close of the new slot *)
          end
      end
  | LCopy h h' fail_at =>
      match find_msg (ls_msgs st) h, find_msg (ls_msgs st) h' with
      | Some m, None =>
          match dup_list st (lm_fds m) 0 fail_at with
          | (st1, made, true) => (set_msgs st1 (ls_msgs st1 ++ [mkLM h' 1 made (lm_src m)]), RBool true)
          | (st1, made, false) => (lib_close_all st1 made, RBool false)    (* failed_copy: close_unix_fds (retval) *)
          end
      | _, _ => (lfault st, RNone)
      end
  | LGet h idx dup_ok =>
      match find_msg (ls_msgs st) h with
      | None => (lfault st, RNone)
      | Some m =>
          match nth_error (lm_fds m) (N.to_nat idx) with
          | None => (st, RFd None)                                     (* idx >= n_unix_fds: -1 *)
          | Some f =>
              match lib_dup st f dup_ok with
              | (st1, Some g) => (give st1 [g], RFd (Some g))
              | (st1, None) => (st1, RFd None)
              end
          end
      end
  | LGetArgs h want fail_at mismatch =>
      match find_msg (ls_msgs st) h with
      | None => (lfault st, RNone)
      | Some m =>
          (* the i-th UNIX_FD argument holds index i *)
          let asked := firstn want (lm_fds m) in
          match dup_list st asked 0 fail_at with
          | (st1, made, all) =>
              if all && Nat.leb want (length (lm_fds m)) && negb mismatch then (give st1 made, RFds (Some made))
              else (lib_close_all st1 made, RFds None)                 (* the second pass closes what was handed out *)
          end
      end
  | LRef h =>
      match find_msg (ls_msgs st) h with
      | None => (lfault st, RNone)
      | Some m => (set_msgs st (upd_msg (ls_msgs st) (mkLM h (lm_refs m + 1) (lm_fds m) (lm_src m))), RNone)
      end
  | LUnref h =>
      match find_msg (ls_msgs st) h with
      | None => (lfault st, RNone)
      | Some m =>
          if lm_refs m <=? 1 then                                      (* last reference: dbus_message_cache_or_finalize *)
            (lib_close_all (set_msgs st (del_msg (ls_msgs st) h)) (lm_fds m), RNone)
          else (set_msgs st (upd_msg (ls_msgs st) (mkLM h (lm_refs m - 1) (lm_fds m) (lm_src m))), RNone)
      end
  | LAppClose f =>
      if mem f (ls_app st) then
        (mkLS (k_remove (ls_open st) f) (ls_next st) (ls_msgs st) (del1 (ls_app st) f) (ls_dups st) (ls_closed st)
              (ls_given st) (ls_fault st), RNone)
      else (lfault st, RNone)
  end.

Fixpoint lrun (st : lstate) (evs : list lev) : lstate :=
  match evs with [] => st | e :: r => lrun (fst (lstep st e)) r end.

Definition lib_held (st : lstate) : list fdn := concat (map lm_fds (ls_msgs st)).
Definition open_fds (st : lstate) : list fdn := map fst (ls_open st).
Definition files_of (st : lstate) (l : list fdn) : list (option file) := map (file_of (ls_open st)) l.
