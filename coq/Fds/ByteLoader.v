(* The receiving side at the byte level (package `fds`, property C15): the message loader of the wire
   package (coq/Wire/Message.v: have_message, header_load, validate_body, load_message, queue_messages,
   max_to_read -- the real validators on the real bytes) with the descriptor ARRAY carried along, and the
   socket transport's read loop around it.

     _dbus_message_loader_queue_messages + load_message   bqueue: the same case split as Wire.queue_messages; when a
       (memdup of the first n_unix_fds entries, memmove      message is complete it is given the first m_nfds entries of the
        of the rest)                                         pool, the rest moves down
     _dbus_message_loader_return_unix_fds                  bfeed: the descriptors of this read are appended to the pool
     _dbus_message_loader_get_buffer                       Wire.max_to_read on the underlying loader
     do_reading / _dbus_read_socket_with_unix_fds          bread: limit, cap, room = max_message_unix_fds - pool,
                                                           truncation, read() without control buffer
   A [bl] whose pool length is the wire loader's l_fds ("coherent") behaves, identities erased, exactly like
   the wire loader (Proofs/FdsByte.v), so everything proved about that one (C01, C11) holds here.
   No proofs in this file. *)
From DV Require Import Lib.Base Gen.Tables Wire.Message.
Local Open Scope N_scope.

Record bl := mkBL {
  b_l : loader;               (* bytes, corruption, queued messages, count of pending descriptors *)
  b_pool : list N;            (* loader->unix_fds[0 .. n_unix_fds) *)
  b_att : list (list N) }.    (* the descriptors of every queued message, aligned with l_msgs *)

Definition bl_new (maxsize : N) : bl := mkBL (mkLoader [] false V_VALID [] 0 maxsize) [] [].

Fixpoint bqueue (fuel : nat) (b : bl) : bl :=
  match fuel with
  | O => b
  | S f =>
      let l := b_l b in
      if l_corrupted l then b
      else if nlen (l_buf l) <? DBUS_MINIMUM_HEADER_SIZE then b
      else
        match have_message (l_max l) (l_buf l) with
        | HaveInvalid r => mkBL (mkLoader (l_buf l) true r (l_msgs l) (l_fds l) (l_max l)) (b_pool b) (b_att b)
        | HaveOk le fl hl bdl false => b
        | HaveOk le fl hl bdl true =>
            match load_message le fl hl bdl (nlen (b_pool b)) (l_buf l) with
            | inr r => mkBL (mkLoader (l_buf l) true r (l_msgs l) (l_fds l) (l_max l)) (b_pool b) (b_att b)
            | inl m =>
                let n := N.to_nat (m_nfds m) in
                bqueue f (mkBL (mkLoader (skipn (N.to_nat (hl + bdl)) (l_buf l)) false V_VALID
                                         (l_msgs l ++ [m]) (l_fds l - m_nfds m) (l_max l))
                               (skipn n (b_pool b)) (b_att b ++ [firstn n (b_pool b)]))
            end
        end
  end.

Definition bfeed (b : bl) (chunk : bytes) (F : list N) : bl :=
  let l := b_l b in
  let l1 := mkLoader (l_buf l ++ chunk) (l_corrupted l) (l_reason l) (l_msgs l) (l_fds l + nlen F) (l_max l) in
  bqueue (S (length (l_buf l1))) (mkBL l1 (b_pool b ++ F) (b_att b)).

(* ---------------------------------------------------------------- the transport around it *)
Record btr := mkBT {
  t_b : bl;
  t_recv : list N;       (* ghost: installed by recvmsg *)
  t_closed : list N;     (* ghost: closed on MSG_CTRUNC *)
  t_kdrop : list N }.    (* ghost: never in the process *)

Inductive bstat := BEagain | BIoError | BCorrupt | BFault.

(* do_reading for the bytes of one write *)
Fixpoint bread (fuel : nat) (maxfds cap : N) (neg : bool) (t : btr) (chunk : bytes) (F : list N) : btr * bstat :=
  match fuel with
  | O => (t, BFault)
  | S fuel' =>
      match chunk with
      | [] => (t, BEagain)
      | _ :: _ =>
          match max_to_read (b_l (t_b t)) with
          | None => (t, BFault)
          | Some (mx, may) =>
              let k := N.to_nat (N.min (N.min mx cap) (nlen chunk)) in
              match k with
              | O => (t, BFault)
              | S _ =>
                  let pool := b_pool (t_b t) in
                  let room := maxfds - nlen pool in
                  match F with
                  | [] =>
                      let b' := bfeed (t_b t) (firstn k chunk) [] in
                      let t' := mkBT b' (t_recv t) (t_closed t) (t_kdrop t) in
                      if l_corrupted (b_l b') then (t', BCorrupt) else bread fuel' maxfds cap neg t' (skipn k chunk) []
                  | _ :: _ =>
                      if neg && may then
                        if nlen F <=? room then
                          let b' := bfeed (t_b t) (firstn k chunk) F in
                          let t' := mkBT b' (t_recv t ++ F) (t_closed t) (t_kdrop t) in
                          if l_corrupted (b_l b') then (t', BCorrupt) else bread fuel' maxfds cap neg t' (skipn k chunk) []
                        else
                          let got := firstn (N.to_nat room) F in
                          (mkBT (t_b t) (t_recv t ++ got) (t_closed t ++ got) (t_kdrop t ++ skipn (N.to_nat room) F), BIoError)
                      else
                        let b' := bfeed (t_b t) (firstn k chunk) [] in
                        let t' := mkBT b' (t_recv t) (t_closed t) (t_kdrop t ++ F) in
                        if l_corrupted (b_l b') then (t', BCorrupt) else bread fuel' maxfds cap neg t' (skipn k chunk) []
                  end
              end
          end
      end
  end.

Definition bread_write (maxfds cap : N) (neg : bool) (t : btr) (chunk : bytes) (F : list N) : btr * bstat :=
  bread (S (length chunk)) maxfds cap neg t chunk F.

(* a sequence of writes, each followed by the reads that drain it; the transport stops at the first failure *)
Fixpoint brun (maxfds cap : N) (neg : bool) (t : btr) (ws : list (bytes * list N)) : btr :=
  match ws with
  | [] => t
  | (chunk, F) :: r =>
      match bread_write maxfds cap neg t chunk F with
      | (t', BEagain) => brun maxfds cap neg t' r
      | (t', _) => t'
      end
  end.

Definition bt_new (maxsize : N) : btr := mkBT (bl_new maxsize) [] [] [].
