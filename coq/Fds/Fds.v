(* File-descriptor accounting model (package `fds`, property C15).

   Executable model of the path a passed descriptor takes through the library
   and the message bus, written after the C control flow:

     dbus/dbus-transport-socket.c  do_reading (the non-encoded branch: get_buffer,
                                   get_unix_fds, read with or without ancillary
                                   data, return_unix_fds, queue messages, again)
     dbus/dbus-sysdeps-unix.c      _dbus_read_socket_with_unix_fds (control buffer
                                   of exactly `room` descriptors; MSG_CTRUNC:
                                   close what was installed, fail with ENOSPC)
     dbus/dbus-message.c           _dbus_message_loader_get_buffer (slow path while
                                   descriptors are pending), _get_unix_fds /
                                   _return_unix_fds, _dbus_message_loader_queue_messages,
                                   load_message (move the announced count, reject
                                   when fewer arrived), _dbus_message_loader_unref and
                                   dbus_message_cache_or_finalize (close_unix_fds)
     dbus/dbus-transport.c         _dbus_transport_queue_messages (disconnect when the
                                   loader is corrupted, after queueing what was loaded)
     bus/connection.c              check_pending_fds_cb, pending_unix_fds_timeout_cb,
                                   bus_connection_disconnected
     bus/dispatch.c                bus_dispatch (driver / named destination / no
                                   destination; error reply at `out:`),
                                   bus_dispatch_matches, send_one_message
     bus/bus.c                     bus_context_check_security_policy (verdict only)

   No proofs in this file.  A descriptor is an opaque identity ([fd]); bytes are
   counted, not represented: what the validators decide about a message is part of
   its descriptor ([wmsg]) because C01/C16 are about those decisions.  The kernel
   side of SCM_RIGHTS on a stream socket is modelled by three facts: ancillary
   data is handed over by the first read that touches the write it was sent with;
   a read without a control buffer discards it; a control buffer that is too
   small receives the descriptors that fit and the rest is discarded (MSG_CTRUNC).

   Every close() and every recvmsg() that installs descriptors is recorded in a
   ledger (ghost state, never read by the model's decisions). *)
From DV Require Import Lib.Base Gen.Tables.
Local Open Scope N_scope.

(* ---------------------------------------------------------------- data *)
Definition fd := N.

Inductive dest :=
| DDriver                 (* org.freedesktop.DBus *)
| DConn (c : N)           (* unique name of connection c *)
| DMissing                (* a name nobody owns *)
| DBroadcast.             (* signal without destination, matched by the listeners' rule *)

(* one message as the sender marshals it *)
Record wmsg := mkW {
  w_len : N;            (* header_len + body_len announced by the fixed header *)
  w_fixed_ok : bool;    (* the first 16 bytes pass _dbus_header_have_message_untrusted (byte order, length limits) *)
  w_valid : bool;       (* _dbus_header_load and _dbus_validate_body_with_reason accept the complete message *)
  w_nfds : N;           (* UNIX_FDS header field, 0 when absent *)
  w_dest : dest;
  w_denied : bool;      (* matches a <deny send_interface=.../> rule of the test policy *)
  w_token : N }.        (* stands for serial / member / body *)

(* what one write() puts on the stream: pieces that never cross a message boundary *)
Inductive part :=
| PHead (d : wmsg) (n : N)     (* the first n bytes of a new message d *)
| PCont (n : N).               (* the next n bytes of the message in progress *)

Definition psize (p : part) : N := match p with PHead _ n => n | PCont n => n end.

Record cfg := mkCfg {
  max_fds : N;                 (* limits.max_message_unix_fds -> loader->max_message_unix_fds *)
  fd_timeout : N;              (* limits.pending_fd_timeout, ms *)
  pol_min_fds : option N;      (* <deny send_type=... min_fds="k"/>: messages with at least k descriptors are denied *)
  read_cap : N }.              (* socket_transport->max_bytes_read_per_iteration *)

Record conn := mkConn {
  c_id : N;
  c_neg : bool;                          (* DBUS_TRANSPORT_CAN_SEND_UNIX_FD: auth->unix_fd_negotiated *)
  c_listen : bool;                       (* has added the match rule for the test broadcast *)
  c_cur : option (wmsg * N);             (* loader->data: the message in progress and the bytes of it present *)
  c_pend : list fd;                      (* loader->unix_fds[0 .. n_unix_fds) *)
  c_since : option N;                    (* pending_unix_fds_timeout enabled: time of its last restart *)
  (* ghost *)
  c_acc : list fd;                       (* every descriptor _dbus_message_loader_return_unix_fds took in, in order *)
  c_loaded : list (wmsg * list fd) }.    (* every message load_message completed, with the descriptors it was given *)

Inductive why :=
| WDelivered             (* message finalised after it was written to at least one recipient *)
| WUndeliverable         (* message finalised after an error reply / no recipient *)
| WDriver                (* message to the bus driver finalised *)
| WTruncated             (* closed by _dbus_read_socket_with_unix_fds on MSG_CTRUNC *)
| WConnClosed (c : N).   (* loader of connection c finalised *)

Record ledger := mkLed {
  g_recv : list (N * fd);                         (* (connection, descriptor) installed by recvmsg *)
  g_closed : list (fd * why);                     (* every close() *)
  g_kdrop : list fd;                              (* discarded by the kernel, never in the process *)
  g_deliv : list (N * (N * (wmsg * list fd))) }.  (* (recipient, (sender, (message, descriptors))) written to a recipient *)

Record state := mkState {
  st_conns : list conn;       (* connections the bus has, in order of arrival *)
  st_dead : list conn;        (* ghost: final record of every connection that is gone *)
  st_next : N;
  st_now : N;                 (* monotonic clock, ms *)
  st_led : ledger;
  st_fault : bool }.          (* an ill-formed event or exhausted fuel was seen *)

Definition led0 : ledger := mkLed [] [] [] [].
Definition init : state := mkState [] [] 0 0 led0 false.

Inductive err := ENotSupported | EAccessDenied | ENoDest.
Inductive omsg :=
| OMsg (from : N) (token : N) (fds : list fd)   (* forwarded message *)
| OErr (e : err) (token : N)                    (* error reply from the bus *)
| ODrv (token : N).                             (* reply from the bus driver *)
Definition out := list (N * omsg).

Inductive event :=
| EConnect (neg listen : bool)                       (* authenticate (with or without NEGOTIATE_UNIX_FD), Hello, optionally AddMatch *)
| EWrite (c : N) (ps : list part) (fds : list fd)    (* one sendmsg: the bytes of ps, fds as SCM_RIGHTS *)
| EDisconnect (c : N)                                (* c closes its socket *)
| ETick (d : N).                                     (* d ms pass with the bus idle *)

(* ---------------------------------------------------------------- ledger *)
Definition led_recv (l : ledger) (c : N) (F : list fd) : ledger :=
  mkLed (g_recv l ++ map (fun f => (c, f)) F) (g_closed l) (g_kdrop l) (g_deliv l).
Definition led_close (l : ledger) (F : list fd) (w : why) : ledger :=
  mkLed (g_recv l) (g_closed l ++ map (fun f => (f, w)) F) (g_kdrop l) (g_deliv l).
Definition led_kdrop (l : ledger) (F : list fd) : ledger :=
  mkLed (g_recv l) (g_closed l) (g_kdrop l ++ F) (g_deliv l).
Definition led_deliv (l : ledger) (r s : N) (d : wmsg) (F : list fd) : ledger :=
  mkLed (g_recv l) (g_closed l) (g_kdrop l) (g_deliv l ++ [(r, (s, (d, F)))]).

(* ---------------------------------------------------------------- connections *)
Fixpoint find_conn (cs : list conn) (c : N) : option conn :=
  match cs with
  | [] => None
  | x :: r => if c_id x =? c then Some x else find_conn r c
  end.
Fixpoint upd_conn (cs : list conn) (c' : conn) : list conn :=
  match cs with
  | [] => []
  | x :: r => if c_id x =? c_id c' then c' :: r else x :: upd_conn r c'
  end.
Fixpoint del_conn (cs : list conn) (c : N) : list conn :=
  match cs with
  | [] => []
  | x :: r => if c_id x =? c then r else x :: del_conn r c
  end.

Definition set_loader (c : conn) (cur : option (wmsg * N)) (pend : list fd) (since : option N) : conn :=
  mkConn (c_id c) (c_neg c) (c_listen c) cur pend since (c_acc c) (c_loaded c).

(* ---------------------------------------------------------------- loader *)
(* _dbus_message_loader_get_buffer: (max_to_read, may_read_fds) *)
Definition get_buffer (c : conn) : N * bool :=
  match c_pend c with
  | [] => (DBUS_MAXIMUM_MESSAGE_LENGTH, true)                 (* fast path: not holding descriptors *)
  | _ :: _ =>
      match c_cur c with
      | None => (DBUS_MAXIMUM_MESSAGE_LENGTH, true)           (* remain = 0 *)
      | Some (d, h) =>
          if h <? DBUS_MINIMUM_HEADER_SIZE then (DBUS_MINIMUM_HEADER_SIZE - h, false)
          else if negb (w_fixed_ok d) then (DBUS_MAXIMUM_MESSAGE_LENGTH, true)
          else if h <? w_len d then (w_len d - h, false)
          else (DBUS_MAXIMUM_MESSAGE_LENGTH, true)            (* whole messages are skipped *)
      end
  end.

(* _dbus_message_loader_get_unix_fds: *max_n_fds *)
Definition room (cf : cfg) (c : conn) : N := max_fds cf - nlen (c_pend c).

Inductive feed_res :=
| FMore (c : conn)                              (* not a whole message yet *)
| FLoaded (c : conn) (d : wmsg) (F : list fd)   (* load_message succeeded *)
| FCorrupt (c : conn)                           (* loader->corrupted *)
| FFault.                                       (* ill-formed part *)

(* _dbus_message_loader_queue_messages on a buffer holding the first h bytes of d,
   with load_message inlined *)
Definition parse (c : conn) (d : wmsg) (h : N) : feed_res :=
  if h <? DBUS_MINIMUM_HEADER_SIZE then FMore (set_loader c (Some (d, h)) (c_pend c) (c_since c))
  else if negb (w_fixed_ok d) then FCorrupt (set_loader c (Some (d, h)) (c_pend c) (c_since c))
  else if h <? w_len d then FMore (set_loader c (Some (d, h)) (c_pend c) (c_since c))
  else if negb (w_valid d) then FCorrupt (set_loader c (Some (d, h)) (c_pend c) (c_since c))
  else if nlen (c_pend c) <? w_nfds d then FCorrupt (set_loader c (Some (d, h)) (c_pend c) (c_since c))   (* DBUS_INVALID_MISSING_UNIX_FDS *)
  else
    let n := N.to_nat (w_nfds d) in
    let F := firstn n (c_pend c) in
    let rest := skipn n (c_pend c) in
    (* unix_fds_change -> check_pending_fds_cb, only when n_unix_fds > 0 *)
    let since := if 0 <? w_nfds d then (match rest with [] => None | _ => c_since c end) else c_since c in
    FLoaded (mkConn (c_id c) (c_neg c) (c_listen c) None rest since (c_acc c) (c_loaded c ++ [(d, F)])) d F.

Definition feed (c : conn) (p : part) : feed_res :=
  match p, c_cur c with
  | PHead d n, None => if (n =? 0) || (w_len d <? n) then FFault else parse c d n
  | PCont n, Some (d, h) => if (n =? 0) || (w_len d <? h + n) then FFault else parse c d (h + n)
  | _, _ => FFault
  end.

Inductive status := SOk | SCorrupt | SFault.

(* the bytes of one read, part by part; parsing stops at the first corruption *)
Fixpoint feed_parts (c : conn) (ps : list part) : conn * list (wmsg * list fd) * status :=
  match ps with
  | [] => (c, [], SOk)
  | p :: r =>
      match feed c p with
      | FMore c' => feed_parts c' r
      | FLoaded c' d F => let '(c2, ld, s) := feed_parts c' r in (c2, (d, F) :: ld, s)
      | FCorrupt c' => (c', [], SCorrupt)
      | FFault => (c, [], SFault)
      end
  end.

(* the first k bytes of the socket buffer *)
Fixpoint take_bytes (k : N) (sock : list part) : list part * list part :=
  match sock with
  | [] => ([], [])
  | p :: r =>
      let n := psize p in
      if n <=? k then let '(t, r') := take_bytes (k - n) r in (p :: t, r')
      else if k =? 0 then ([], sock)
      else ([match p with PHead d _ => PHead d k | PCont _ => PCont k end], PCont (n - k) :: r)
  end.

(* ---------------------------------------------------------------- do_reading *)
Inductive rstat :=
| REagain                      (* socket drained *)
| RMore (rest : list part)     (* more than max_bytes_read_per_iteration read: back to the main loop, socket still readable *)
| RIoError         (* recvmsg failed (ENOSPC after MSG_CTRUNC): do_io_error *)
| RCorrupt         (* loader corrupted: _dbus_transport_disconnect *)
| RFault
| ROutOfFuel.

(* the timer side of _dbus_message_loader_return_unix_fds (n_fds > 0) *)
Definition arm (now : N) (c : conn) : option N :=
  match c_pend c with [] => Some now | _ => c_since c end.

(* one recvmsg/read and what the kernel does with the ancillary data of the write being read.
   Result: connection, ledger, truncated? *)
Definition recv_fds (cf : cfg) (now : N) (c : conn) (may : bool) (sfds : list fd) (led : ledger) : conn * ledger * bool :=
  match sfds with
  | [] => (c, led, false)
  | _ :: _ =>
      if c_neg c && may then
        if nlen sfds <=? room cf c then
          (mkConn (c_id c) (c_neg c) (c_listen c) (c_cur c) (c_pend c ++ sfds) (arm now c) (c_acc c ++ sfds) (c_loaded c),
           led_recv led (c_id c) sfds, false)
        else
          let got := firstn (N.to_nat (room cf c)) sfds in
          (c, led_kdrop (led_close (led_recv led (c_id c) got) got WTruncated) (skipn (N.to_nat (room cf c)) sfds), true)
      else (c, led_kdrop led sfds, false)     (* read() without control buffer *)
  end.

Definition bytes_of (ps : list part) : N := fold_right (fun p a => psize p + a) 0 ps.
Definition fuel_for (ps : list part) : nat := S (N.to_nat (bytes_of ps) + length ps).

(* one call of do_reading: reads until the socket is drained, the stream goes bad, or more than
   read_cap bytes have been read in this call (`total`) *)
Fixpoint do_reading (fuel : nat) (cf : cfg) (now : N) (c : conn) (sock : list part) (sfds : list fd) (led : ledger)
                    (acc : list (wmsg * list fd)) (total : N) : conn * list (wmsg * list fd) * ledger * rstat :=
  match fuel with
  | O => (c, acc, led, ROutOfFuel)
  | S fuel' =>
      if read_cap cf <? total then (c, acc, led, RMore sock)
      else
      let '(max_to_read, may) := get_buffer c in
      let k := N.min max_to_read (read_cap cf) in
      let '(taken, rest) := take_bytes k sock in
      match taken with
      | [] => (c, acc, led, REagain)
      | _ :: _ =>
          let '(c1, led1, trunc) := recv_fds cf now c may sfds led in
          if trunc then (c1, acc, led1, RIoError)
          else
            match feed_parts c1 taken with
            | (c2, ld, SOk) => do_reading fuel' cf now c2 rest [] led1 (acc ++ ld) (total + bytes_of taken)
            | (c2, ld, SCorrupt) => (c2, acc ++ ld, led1, RCorrupt)
            | (c2, ld, SFault) => (c2, acc ++ ld, led1, RFault)
            end
      end
  end.

(* ---------------------------------------------------------------- dispatch *)
Definition has_fds (F : list fd) : bool := match F with [] => false | _ => true end.   (* dbus_message_contains_unix_fds *)

Definition policy_denies (cf : cfg) (d : wmsg) (F : list fd) : bool :=
  w_denied d || match pol_min_fds cf with Some k => k <=? nlen F | None => false end.

(* bus_transaction_send: "silently ignore disconnected connections".  The only connection that can be
   disconnected while messages are dispatched is the sender itself: _dbus_transport_queue_messages and
   do_io_error disconnect the transport at once, the messages loaded before are dispatched afterwards. *)
Definition reachable (s : N) (gone : bool) (r : N) : bool := negb (gone && (r =? s)).

(* send_one_message for a match-rule recipient: refused silently *)
Definition wants (cf : cfg) (s : N) (gone : bool) (d : wmsg) (F : list fd) (x : conn) : bool :=
  c_listen x && negb (policy_denies cf d F) && (negb (has_fds F) || c_neg x) && reachable s gone (c_id x).

Definition deliver_all (led : ledger) (rc : list conn) (s : N) (d : wmsg) (F : list fd) : ledger :=
  fold_left (fun l x => led_deliv l (c_id x) s d F) rc led.

Definition reply (s : N) (gone : bool) (o : omsg) : out := if gone then [] else [(s, o)].

(* bus_dispatch for one message from s, then dbus_message_unref -> close_unix_fds.
   gone: the sender's transport is already disconnected *)
Definition dispatch (cf : cfg) (cs : list conn) (s : N) (gone : bool) (d : wmsg) (F : list fd) (led : ledger) : out * ledger :=
  let tok := w_token d in
  match w_dest d with
  | DDriver => (reply s gone (ODrv tok), led_close led F WDriver)
  | DMissing => (reply s gone (OErr ENoDest tok), led_close led F WUndeliverable)
  | DConn r =>
      match find_conn cs r with
      | None => (reply s gone (OErr ENoDest tok), led_close led F WUndeliverable)
      | Some rc =>
          (* the capability test comes before the security policy (bus_dispatch_matches) *)
          if has_fds F && negb (c_neg rc) then (reply s gone (OErr ENotSupported tok), led_close led F WUndeliverable)
          else if policy_denies cf d F then (reply s gone (OErr EAccessDenied tok), led_close led F WUndeliverable)
          else if reachable s gone r then ([(r, OMsg s tok F)], led_close (led_deliv led r s d F) F WDelivered)
          else ([], led_close led F WUndeliverable)
      end
  | DBroadcast =>
      let rc := filter (wants cf s gone d F) cs in
      (map (fun x => (c_id x, OMsg s tok F)) rc,
       led_close (deliver_all led rc s d F) F (match rc with [] => WUndeliverable | _ => WDelivered end))
  end.

Fixpoint dispatch_all (cf : cfg) (cs : list conn) (s : N) (gone : bool) (q : list (wmsg * list fd)) (led : ledger) : out * ledger :=
  match q with
  | [] => ([], led)
  | (d, F) :: q' =>
      let '(o1, led1) := dispatch cf cs s gone d F led in
      let '(o2, led2) := dispatch_all cf cs s gone q' led1 in
      (o1 ++ o2, led2)
  end.

(* the main loop: do_reading, then dispatch of everything that was loaded (the sender's transport
   is already disconnected if the stream went bad), again while the socket stays readable *)
Definition sender_gone (rs : rstat) : bool := match rs with RIoError | RCorrupt => true | _ => false end.

Fixpoint pump (fuel : nat) (cf : cfg) (now : N) (cs : list conn) (c : conn) (sock : list part) (sfds : list fd)
              (led : ledger) (o : out) : conn * ledger * out * rstat :=
  match fuel with
  | O => (c, led, o, ROutOfFuel)
  | S fuel' =>
      let '(c1, q, led1, rs) := do_reading fuel cf now c sock sfds led [] 0 in     (* the same fuel: enough, see Proofs/FdsFuel.v *)
      let '(o1, led2) := dispatch_all cf cs (c_id c) (sender_gone rs) q led1 in
      match rs with
      | RMore rest => pump fuel' cf now cs c1 rest [] led2 (o ++ o1)
      | _ => (c1, led2, o ++ o1, rs)
      end
  end.

(* ---------------------------------------------------------------- connection teardown *)
(* bus_connection_disconnected ... _dbus_message_loader_unref: close what is still pending *)
Definition drop_conn (st : state) (c : conn) : state :=
  mkState (del_conn (st_conns st) (c_id c)) (st_dead st ++ [c]) (st_next st) (st_now st)
          (led_close (st_led st) (c_pend c) (WConnClosed (c_id c))) (st_fault st).

Definition expired (cf : cfg) (now : N) (c : conn) : bool :=
  match c_since c with Some t => t + fd_timeout cf <=? now | None => false end.

(* pending_unix_fds_timeout_cb -> dbus_connection_close for every connection whose timer has run out *)
Definition close_conns (led : ledger) (xs : list conn) : ledger :=
  fold_left (fun l x => led_close l (c_pend x) (WConnClosed (c_id x))) xs led.

(* ---------------------------------------------------------------- step *)
Definition set_fault (st : state) : state :=
  mkState (st_conns st) (st_dead st) (st_next st) (st_now st) (st_led st) true.

Definition step (cf : cfg) (st : state) (e : event) : state * out :=
  match e with
  | EConnect neg listen =>
      (mkState (st_conns st ++ [mkConn (st_next st) neg listen None [] None [] []]) (st_dead st) (st_next st + 1) (st_now st)
               (st_led st) (st_fault st), [])
  | EWrite c ps fds =>
      match find_conn (st_conns st) c with
      | None => (set_fault st, [])
      | Some x =>
          let '(x', led2, o, rs) := pump (fuel_for ps) cf (st_now st) (st_conns st) x ps fds (st_led st) [] in
          let st1 := mkState (upd_conn (st_conns st) x') (st_dead st) (st_next st) (st_now st) led2 (st_fault st) in
          match rs with
          | REagain => (st1, o)
          | RIoError | RCorrupt => (drop_conn st1 x', o)
          | RFault | ROutOfFuel | RMore _ => (set_fault st1, o)
          end
      end
  | EDisconnect c =>
      match find_conn (st_conns st) c with
      | None => (set_fault st, [])
      | Some x => (drop_conn st x, [])
      end
  | ETick d =>
      let now' := st_now st + d in
      let ex := filter (expired cf now') (st_conns st) in
      let keep := filter (fun x => negb (expired cf now' x)) (st_conns st) in
      (mkState keep (st_dead st ++ ex) (st_next st) now' (close_conns (st_led st) ex) (st_fault st), [])
  end.

Fixpoint run (cf : cfg) (st : state) (evs : list event) : state :=
  match evs with
  | [] => st
  | e :: r => run cf (fst (step cf st e)) r
  end.

(* ---------------------------------------------------------------- observation helpers (driver, theorems) *)
Definition held (st : state) : list fd := concat (map c_pend (st_conns st)).
Definition received (st : state) : list fd := map snd (g_recv (st_led st)).
Definition closed (st : state) : list fd := map fst (g_closed (st_led st)).
Definition is_delivered (w : why) : bool := match w with WDelivered => true | _ => false end.
Definition closed_delivered (st : state) : list fd := map fst (filter (fun x => is_delivered (snd x)) (g_closed (st_led st))).
Definition closed_dropped (st : state) : list fd := map fst (filter (fun x => negb (is_delivered (snd x))) (g_closed (st_led st))).
Definition live_ids (st : state) : list N := map c_id (st_conns st).

(* generator sanity: the event makes sense in this state *)
Fixpoint wf_parts (cur : option (wmsg * N)) (ps : list part) : bool :=
  match ps with
  | [] => true
  | PHead d n :: r =>
      match cur with
      | None => (0 <? n) && (n <=? w_len d) && (DBUS_MINIMUM_HEADER_SIZE <=? w_len d)
                && wf_parts (if n <? w_len d then Some (d, n) else None) r
      | Some _ => false
      end
  | PCont n :: r =>
      match cur with
      | Some (d, h) => (0 <? n) && (h + n <=? w_len d) && wf_parts (if h + n <? w_len d then Some (d, h + n) else None) r
      | None => false
      end
  end.
Definition wf_event (st : state) (e : event) : bool :=
  match e with
  | EWrite c ps fds =>
      match find_conn (st_conns st) c with
      | Some x => wf_parts (c_cur x) ps && (match fds, ps with _ :: _, [] => false | _, _ => true end)
      | None => false
      end
  | EDisconnect c => match find_conn (st_conns st) c with Some _ => true | None => false end
  | _ => true
  end.
