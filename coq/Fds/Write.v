(* Transport write step (package `fds`, property C15): do_writing of
   dbus/dbus-transport-socket.c for ONE message of the outgoing queue, non-encoded branch.

   The socket accepts the message in pieces: caps lists, for every attempt of the main loop, how
   many bytes the kernel takes this time (0 = EAGAIN: sendmsg fails, nothing is transmitted, not
   even ancillary data).  The C code keeps socket_transport->message_bytes_written and picks one of
   three calls:
     message_bytes_written <= 0 && DBUS_TRANSPORT_CAN_SEND_UNIX_FD   _dbus_write_socket_with_unix_fds_two
                                                                     (header, body, ALL descriptors)
     message_bytes_written < header_len                              _dbus_write_socket_two (rest of header, body)
     otherwise                                                       _dbus_write_socket (rest of body)
   and when message_bytes_written reaches header_len + body_len the message is done
   (_dbus_connection_message_sent_unlocked, message_bytes_written := 0).

   The result is the list of successful sendmsg/write calls: which call, how many bytes, which
   descriptors travelled as SCM_RIGHTS.  What the peer's recvmsg calls collect for this message is
   the concatenation of the descriptor lists ([wire_fds]).  No proofs in this file. *)
From DV Require Import Lib.Base.
Local Open Scope N_scope.

Inductive wcall := WFdsTwo | WTwo | WBody.

Record wrote := mkWrote { wr_call : wcall; wr_bytes : N; wr_fds : list N }.

Fixpoint do_writing (can_fd : bool) (hlen blen : N) (F : list N) (written : N) (caps : list N) : list wrote * N :=
  match caps with
  | [] => ([], written)
  | cap :: r =>
      let total := hlen + blen in
      if total <=? written then ([], written)                       (* message sent; the queue moves on *)
      else
        let n := N.min cap (total - written) in
        if n =? 0 then do_writing can_fd hlen blen F written r      (* EAGAIN *)
        else
          let '(call, att) :=
            if (written <=? 0) && can_fd then (WFdsTwo, F)          (* "Send the fds along with the first byte of the message" *)
            else if written <? hlen then (WTwo, [])
            else (WBody, []) in
          let '(calls, w) := do_writing can_fd hlen blen F (written + n) r in
          (mkWrote call n att :: calls, w)
  end.

(* everything the peer finds in the ancillary data of the reads that cover this message *)
Definition wire_fds (calls : list wrote) : list N := concat (map wr_fds calls).
Definition wire_bytes (calls : list wrote) : N := fold_right (fun c a => wr_bytes c + a) 0 calls.
