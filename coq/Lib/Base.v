(* Base definitions shared by every model: bytes are [N], byte strings are
   [list N].  Nothing in the models assumes a byte is < 256; where it matters
   (wire encodings) the statement carries the bound explicitly. *)
From Coq Require Export List NArith Bool Lia.
Export ListNotations.
Local Open Scope N_scope.

Definition bytes := list N.

Definition nlen {A} (l : list A) : N := N.of_nat (length l).

(* table lookup used by generated character-class tables *)
Definition tbl (t : list bool) (c : N) : bool := nth (N.to_nat c) t false.

Fixpoint bytes_eqb (a b : bytes) : bool :=
  match a, b with
  | [], [] => true
  | x :: a', y :: b' => (x =? y) && bytes_eqb a' b'
  | _, _ => false
  end.

Lemma bytes_eqb_eq a b : bytes_eqb a b = true <-> a = b.
Proof.
  revert b; induction a as [|x a IH]; intros [|y b]; simpl; try (split; congruence).
  rewrite andb_true_iff, N.eqb_eq, IH. split; [intros [-> ->]; reflexivity | intros H; inversion H; auto].
Qed.

Lemma bytes_eqb_refl a : bytes_eqb a a = true.
Proof. apply bytes_eqb_eq; reflexivity. Qed.

Fixpoint is_prefix (p s : bytes) : bool :=
  match p, s with
  | [], _ => true
  | x :: p', y :: s' => (x =? y) && is_prefix p' s'
  | _ :: _, [] => false
  end.

(* the list 0,1,...,n-1 as N, for finite sweeps *)
Definition nseq (n : nat) : list N := map N.of_nat (seq 0 n).

Lemma nseq_in n c : (c < N.of_nat n) -> In c (nseq n).
Proof.
  intros H. unfold nseq. apply in_map_iff. exists (N.to_nat c). split; [lia|].
  apply in_seq. lia.
Qed.

(* lift a 256-way sweep to all of N when both sides are false above 255 *)
Lemma sweep256 (f g : N -> bool) :
  forallb (fun c => Bool.eqb (f c) (g c)) (nseq 256) = true ->
  (forall c, 256 <= c -> f c = g c) ->
  forall c, f c = g c.
Proof.
  intros Hs Hbig c. destruct (N.lt_ge_cases c 256) as [Hlt|Hge]; [|auto].
  rewrite forallb_forall in Hs. specialize (Hs c (nseq_in 256 c Hlt)).
  apply Bool.eqb_prop in Hs. exact Hs.
Qed.

Lemma tbl_big t c : N.of_nat (length t) <= c -> tbl t c = false.
Proof. intros H. unfold tbl. apply nth_overflow. lia. Qed.
