(* C07: tokenize_rule / find_key / find_value against the reader of the
   specification (Spec.MatchSpec.srun): an exact description of what the C
   tokenizer computes, from which the partial agreement and the refutation of
   full agreement (findings F5, C07-N2) follow. *)
From DV Require Import Lib.Base Match.Rule Spec.MatchSpec.
From Coq Require Import ZifyBool ZifyN ZifyNat.
Local Open Scope N_scope.

Definition no_nul (s : bytes) : Prop := Forall (fun c => c <> 0) s.

Lemma no_nul_cons c s : no_nul (c :: s) -> c <> 0 /\ no_nul s.
Proof. intros H. inversion H; auto. Qed.

(* ties to the generated tables and limits: these break (and the check then looks for the input) when the
   C macro / constants change *)
Lemma iswhite_blank : forall c, iswhite c = blank c.
Proof.
  apply sweep256.
  - vm_compute. reflexivity.
  - intros c Hc. unfold iswhite, blank. rewrite tbl_big by (vm_compute length; lia).
    symmetry. repeat (apply orb_false_iff; split); apply N.eqb_neq; lia.
Qed.
Lemma max_arg_eq : DBUS_MAXIMUM_MATCH_RULE_ARG_NUMBER = SPEC_MAX_ARG. Proof. reflexivity. Qed.
Lemma max_len_eq : DBUS_MAXIMUM_MATCH_RULE_LENGTH = SPEC_MAX_RULE_LENGTH. Proof. reflexivity. Qed.

Lemma blank_not_eq c : blank c = true -> (c =? 61) = false.
Proof.
  intros H. destruct (c =? 61) eqn:E; [|reflexivity]. apply N.eqb_eq in E. subst. discriminate.
Qed.

(* ---- find_key ---------------------------------------------------------------------------- *)
Definition keychar (c : N) : bool := negb (blank c) && negb (c =? 61).

Lemma scan_key_split : forall s k rest,
  no_nul s -> scan_key s = (k, rest) ->
  s = k ++ rest /\ forallb keychar k = true /\ no_nul rest /\
  match rest with [] => True | c :: _ => keychar c = false end.
Proof.
  induction s as [|c s IH]; intros k rest Hn H; simpl in H.
  - inversion H; subst. simpl. repeat split; auto.
  - apply no_nul_cons in Hn. destruct Hn as [Hc Hn].
    assert (E0 : (c =? 0) = false) by (apply N.eqb_neq; assumption). rewrite E0 in H. cbn [orb] in H.
    unfold EQUALS in H.
    destruct ((c =? 61) || iswhite c) eqn:Ee.
    + inversion H; subst. simpl. repeat split; auto.
      * constructor; assumption.
      * unfold keychar. rewrite <- iswhite_blank. destruct (c =? 61), (iswhite c); try discriminate; reflexivity.
    + destruct (scan_key s) as [k' rest'] eqn:Es. inversion H; subst k rest.
      destruct (IH k' rest' Hn eq_refl) as [E1 [E2 [E3 E4]]].
      split; [simpl; congruence|]. split; [|auto].
      simpl. rewrite E2. unfold keychar. rewrite <- iswhite_blank.
      apply orb_false_iff in Ee. destruct Ee as [-> ->]. reflexivity.
Qed.

(* the specification reader walks over a key the same way *)
Lemma srun_key : forall k kacc rest, forallb keychar k = true ->
  srun (SKey kacc) (k ++ rest) = srun (SKey (rev k ++ kacc)) rest.
Proof.
  induction k as [|c k IH]; intros kacc rest H; simpl in *; [reflexivity|].
  apply andb_true_iff in H. destruct H as [Hc Hk]. unfold keychar in Hc. apply andb_true_iff in Hc. destruct Hc as [Hb He].
  apply negb_true_iff in Hb, He. rewrite Hb, He. rewrite IH by assumption. now rewrite <- app_assoc.
Qed.

Lemma skip_white_split : forall s, exists w, s = w ++ skip_white s /\ forallb blank w = true /\
  match skip_white s with [] => True | c :: _ => blank c = false end.
Proof.
  induction s as [|c s [w [E [Hw Hh]]]]; simpl.
  - exists []. auto.
  - destruct (iswhite c) eqn:Ec.
    + exists (c :: w). simpl. rewrite <- iswhite_blank, Ec, Hw. split; [congruence|auto].
    + exists []. simpl. rewrite <- iswhite_blank. auto.
Qed.

Lemma no_nul_app a b : no_nul (a ++ b) -> no_nul b.
Proof. intros H. apply Forall_app in H. tauto. Qed.

Lemma srun_blank_start : forall w rest, forallb blank w = true -> srun SItemStart (w ++ rest) = srun SItemStart rest.
Proof.
  induction w as [|c w IH]; intros rest H; simpl in *; [reflexivity|].
  apply andb_true_iff in H. destruct H as [Hc Hw]. rewrite Hc. auto.
Qed.

Lemma srun_blank_afterkey : forall w k rest, forallb blank w = true -> srun (SAfterKey k) (w ++ rest) = srun (SAfterKey k) rest.
Proof.
  induction w as [|c w IH]; intros k rest H; simpl in *; [reflexivity|].
  apply andb_true_iff in H. destruct H as [Hc Hw]. rewrite Hc. auto.
Qed.

(* from SKey, blanks lead to SAfterKey; both treat the next non-blank character alike *)
Lemma srun_key_then_blank k w rest : forallb blank w = true ->
  match rest with [] => True | c :: _ => blank c = false end ->
  srun (SKey k) (w ++ rest) =
  match rest with
  | [] => ([], SNoEquals)
  | c :: r => if c =? 61 then srun (SVal k [] false) r
              else match w with [] => srun (SKey (c :: k)) r | _ => ([], SNoEquals) end
  end.
Proof.
  intros Hw Hr. destruct w as [|b w].
  - simpl. destruct rest as [|c r]; [reflexivity|]. simpl. rewrite Hr. destruct (c =? 61); reflexivity.
  - simpl in Hw. apply andb_true_iff in Hw. destruct Hw as [Hb Hw]. simpl. rewrite Hb.
    rewrite srun_blank_afterkey by assumption.
    destruct rest as [|c r]; [reflexivity|]. simpl. rewrite Hr. destruct (c =? 61); reflexivity.
Qed.

(* the same walks for the class predicate bs_sensitive (no SValBs state is met before the value) *)
Lemma bs_key : forall k kacc rest, forallb keychar k = true ->
  bs_sensitive (SKey kacc) (k ++ rest) = bs_sensitive (SKey (rev k ++ kacc)) rest.
Proof.
  induction k as [|c k IH]; intros kacc rest H; simpl in *; [reflexivity|].
  apply andb_true_iff in H. destruct H as [Hc Hk]. unfold keychar in Hc. apply andb_true_iff in Hc. destruct Hc as [Hb He].
  apply negb_true_iff in Hb, He. rewrite Hb, He. rewrite IH by assumption. now rewrite <- app_assoc.
Qed.

Lemma bs_blank_start : forall w rest, forallb blank w = true -> bs_sensitive SItemStart (w ++ rest) = bs_sensitive SItemStart rest.
Proof.
  induction w as [|c w IH]; intros rest H; simpl in *; [reflexivity|].
  apply andb_true_iff in H. destruct H as [Hc Hw]. rewrite Hc. auto.
Qed.

Lemma bs_blank_afterkey : forall w k rest, forallb blank w = true -> bs_sensitive (SAfterKey k) (w ++ rest) = bs_sensitive (SAfterKey k) rest.
Proof.
  induction w as [|c w IH]; intros k rest H; simpl in *; [reflexivity|].
  apply andb_true_iff in H. destruct H as [Hc Hw]. rewrite Hc. auto.
Qed.

Lemma bs_key_then_blank k w c r : forallb blank w = true -> (c =? 61) = true ->
  bs_sensitive (SKey k) (w ++ c :: r) = bs_sensitive (SVal k [] false) r.
Proof.
  intros Hw Hc. assert (Hb : blank c = false).
  { destruct (blank c) eqn:E; [|reflexivity]. apply blank_not_eq in E. congruence. }
  destruct w as [|b w].
  - simpl. now rewrite Hb, Hc.
  - simpl in Hw. apply andb_true_iff in Hw. destruct Hw as [Hbb Hw]. simpl. rewrite Hbb.
    rewrite bs_blank_afterkey by assumption. simpl. now rewrite Hb, Hc.
Qed.

(* find_key against the reader, for a text without NUL *)
Lemma find_key_spec s : no_nul s ->
  match find_key s with
  | KErr => srun SItemStart s = ([], SNoEquals)
  | KEmpty rest => (rest = [] /\ srun SItemStart s = ([], SEndOk)) \/
                   (exists r, rest = 61 :: r /\ srun SItemStart s = ([], SEmptyKey))
  | KOk k rest => k <> [] /\ no_nul rest /\ srun SItemStart s = srun (SVal (rev k) [] false) rest /\
                  bs_sensitive SItemStart s = bs_sensitive (SVal (rev k) [] false) rest
  end.
Proof.
  intros Hn. unfold find_key.
  destruct (skip_white_split s) as [w1 [E1 [Hw1 Hh1]]].
  set (s1 := skip_white s) in *.
  assert (Hn1 : no_nul s1) by (rewrite E1 in Hn; eapply no_nul_app; eauto).
  destruct (scan_key s1) as [k s2] eqn:Es.
  destruct (scan_key_split s1 k s2 Hn1 Es) as [E2 [Hk [Hn2 Hh2]]].
  destruct (skip_white_split s2) as [w2 [E3 [Hw2 Hh3]]].
  set (s3 := skip_white s2) in *.
  assert (Hn3 : no_nul s3) by (rewrite E3 in Hn2; eapply no_nul_app; eauto).
  rewrite E1, srun_blank_start, bs_blank_start by assumption.
  destruct k as [|k0 k'].
  - (* empty key: s1 = s2 begins with a non-key character that is not blank, i.e. '=' , or is empty *)
    simpl in E2. subst s2.
    assert (w2 = [] /\ s3 = s1) as [-> Es3].
    { destruct s1 as [|c r]; simpl in *.
      - unfold s3. simpl. destruct w2; [auto|]. simpl in E3. discriminate.
      - unfold s3. simpl. rewrite iswhite_blank, Hh1. destruct w2 as [|b w2]; [auto|].
        simpl in E3. unfold s3 in E3. simpl in E3. rewrite iswhite_blank, Hh1 in E3. inversion E3. subst b.
        simpl in Hw2. rewrite Hh1 in Hw2. discriminate. }
    rewrite Es3. destruct s1 as [|c r].
    + left. auto.
    + right. unfold keychar in Hh2. rewrite Hh1 in Hh2. cbn [negb andb] in Hh2. apply negb_false_iff in Hh2. apply N.eqb_eq in Hh2. subst c.
      exists r. split; [reflexivity|]. simpl. reflexivity.
  - (* non-empty key *)
    set (k := k0 :: k') in *.
    rewrite E2. 
    assert (Hstart : srun SItemStart (k ++ s2) = srun (SKey (rev k)) s2).
    { unfold k. simpl in Hk. apply andb_true_iff in Hk. destruct Hk as [Hk0 Hk'].
      simpl. unfold keychar in Hk0. apply andb_true_iff in Hk0. destruct Hk0 as [Hb He]. apply negb_true_iff in Hb, He.
      rewrite Hb, He. rewrite srun_key by assumption. reflexivity. }
    assert (Hstartb : bs_sensitive SItemStart (k ++ s2) = bs_sensitive (SKey (rev k)) s2).
    { unfold k. simpl in Hk. apply andb_true_iff in Hk. destruct Hk as [Hk0 Hk'].
      simpl. unfold keychar in Hk0. apply andb_true_iff in Hk0. destruct Hk0 as [Hb He]. apply negb_true_iff in Hb, He.
      rewrite Hb, He. rewrite bs_key by assumption. reflexivity. }
    rewrite Hstart, Hstartb, E3. rewrite srun_key_then_blank by assumption.
    destruct s3 as [|c r] eqn:Es3.
    + reflexivity.
    + destruct (c =? EQUALS) eqn:Ec; unfold EQUALS in Ec; rewrite Ec.
      * split; [discriminate|]. split; [apply no_nul_cons in Hn3; tauto|]. split; [reflexivity|].
        apply bs_key_then_blank; assumption.
      * (* a non-blank, non-'=' character right after the key is impossible unless blanks intervened *)
        destruct w2 as [|b w2]; [|reflexivity].
        exfalso. simpl in E3. rewrite E3 in Hh2. unfold keychar in Hh2. rewrite Hh3, Ec in Hh2. discriminate.
Qed.

(* ---- find_value ---------------------------------------------------------------------------- *)
Definition vstate (k : bytes) (q : qstate) (acc : bytes) : sstate :=
  match q with
  | QNone => SVal k acc false
  | QQuote => SVal k acc true
  | QBackslash => SValBs k acc
  end.

Lemma find_value_loop_spec : forall s q acc k,
  no_nul s -> bs_sensitive (vstate k q acc) s = false ->
  match find_value_loop s q acc with
  | VErr => srun (vstate k q acc) s = ([], SUnbalanced)
  | VOk v rest => no_nul rest /\ bs_sensitive SItemStart rest = false /\
                  srun (vstate k q acc) s = (let (ts, e) := srun SItemStart rest in ((rev k, v) :: ts, e))
  end.
Proof.
  induction s as [|c r IH]; intros q acc k Hn Hbs.
  - destruct q; simpl; repeat split; auto; constructor.
  - apply no_nul_cons in Hn. destruct Hn as [Hc Hn].
    assert (E0 : (c =? 0) = false) by (apply N.eqb_neq; assumption).
    cbn [find_value_loop]. rewrite E0.
    destruct q; cbn [vstate] in *.
    + (* outside quotes *)
      cbn [bs_sensitive sstep] in Hbs. cbn [orb] in Hbs. cbn [srun sstep]. unfold sval_unquoted in *. unfold QUOTE, COMMA, BACKSLASH.
      destruct (c =? 39) eqn:E1.
      * specialize (IH QQuote acc k Hn Hbs). exact IH.
      * destruct (c =? 44) eqn:E2.
        -- split; [assumption|]. split; [exact Hbs|]. reflexivity.
        -- destruct (c =? 92) eqn:E3.
           ++ specialize (IH QBackslash acc k Hn Hbs). exact IH.
           ++ specialize (IH QNone (c :: acc) k Hn Hbs). exact IH.
    + (* inside quotes *)
      cbn [bs_sensitive sstep] in Hbs. cbn [orb] in Hbs. cbn [srun sstep]. unfold QUOTE.
      destruct (c =? 39) eqn:E1.
      * specialize (IH QNone acc k Hn Hbs). exact IH.
      * specialize (IH QQuote (c :: acc) k Hn Hbs). exact IH.
    + (* just after an unquoted backslash *)
      cbn [bs_sensitive sstep] in Hbs. apply orb_false_iff in Hbs. destruct Hbs as [Hcls Hbs].
      apply orb_false_iff in Hcls. destruct Hcls as [E2 E3].
      cbn [srun sstep]. unfold QUOTE, BACKSLASH.
      destruct (c =? 39) eqn:E1.
      * specialize (IH QNone (c :: acc) k Hn). apply N.eqb_eq in E1. subst c. apply IH. exact Hbs.
      * unfold sval_unquoted in *. rewrite E1, E2, E3 in *.
        specialize (IH QNone (c :: 92 :: acc) k Hn Hbs). exact IH.
Qed.

Lemma find_value_spec s k :
  no_nul s -> bs_sensitive (SVal k [] false) s = false ->
  match find_value s with
  | VErr => srun (SVal k [] false) s = ([], SUnbalanced)
  | VOk v rest => no_nul rest /\ bs_sensitive SItemStart rest = false /\
                  srun (SVal k [] false) s = (let (ts, e) := srun SItemStart rest in ((rev k, v) :: ts, e))
  end.
Proof. intros Hn Hb. exact (find_value_loop_spec s QNone [] k Hn Hb). Qed.

(* ---- tokenize_rule --------------------------------------------------------------------------- *)
(* What the C tokenizer hands to the parse loop, in terms of the specification reader's output
   (ts = the items read before the end or the first error, e = how the reading ended):
   - once [fuel] (MAX_RULE_TOKENS) items are complete the rest of the text is ignored;
   - an item that begins with '=' ends the reading as if the text ended there. *)
Definition as_implemented (fuel : nat) (sp : list token * sending) : option (list token) :=
  let (ts, e) := sp in
  if Nat.leb fuel (length ts) then Some (firstn fuel ts)
  else match e with SEndOk | SEmptyKey => Some ts | _ => None end.

Lemma token_prefix_some l rest : token_prefix (map Some l ++ rest) = l ++ token_prefix rest.
Proof. induction l as [|t l IH]; simpl; [reflexivity|]. now rewrite IH. Qed.

Lemma token_prefix_nones n : token_prefix (repeat None n) = [].
Proof. destruct n; reflexivity. Qed.

Lemma find_key_eq r : find_key (61 :: r) = KEmpty (61 :: r).
Proof. reflexivity. Qed.

Lemma spin : forall f r acc, tokenize_loop f (61 :: r) acc = Some (rev acc ++ repeat None f).
Proof.
  induction f as [|f IH]; intros r acc.
  - simpl. now rewrite app_nil_r.
  - cbn [tokenize_loop]. rewrite find_key_eq. rewrite IH. simpl. now rewrite <- app_assoc.
Qed.

Lemma tokenize_loop_spec : forall fuel s tacc,
  no_nul s -> bs_sensitive SItemStart s = false ->
  option_map token_prefix (tokenize_loop fuel s (map Some tacc)) =
  option_map (app (rev tacc)) (as_implemented fuel (srun SItemStart s)).
Proof.
  induction fuel as [|f IH]; intros s tacc Hn Hb.
  - simpl. destruct (srun SItemStart s) as [ts e]. simpl.
    rewrite <- map_rev. rewrite <- (app_nil_r (map Some (rev tacc))), token_prefix_some. simpl. reflexivity.
  - destruct s as [|c0 s0].
    + simpl. rewrite <- map_rev. rewrite <- (app_nil_r (map Some (rev tacc))), token_prefix_some. simpl. reflexivity.
    + set (s := c0 :: s0) in *.
      assert (Hloop : tokenize_loop (S f) s (map Some tacc) =
                      match find_key s with
                      | KErr => None
                      | KEmpty rest => tokenize_loop f rest (None :: map Some tacc)
                      | KOk k rest => match find_value rest with
                                      | VErr => None
                                      | VOk v rest' => tokenize_loop f rest' (Some (k, v) :: map Some tacc)
                                      end
                      end) by reflexivity.
      rewrite Hloop; clear Hloop.
      pose proof (find_key_spec s Hn) as Hk.
      destruct (find_key s) as [|rest|k rest].
      * rewrite Hk. reflexivity.
      * destruct Hk as [[-> Hk]|[r [-> Hk]]]; rewrite Hk.
        -- assert (tokenize_loop f [] (None :: map Some tacc) = Some (rev (None :: map Some tacc))) as -> by (destruct f; reflexivity).
           simpl. rewrite <- map_rev, token_prefix_some. simpl. reflexivity.
        -- rewrite spin. simpl. rewrite <- map_rev, <- app_assoc, token_prefix_some. simpl. reflexivity.
      * destruct Hk as [Hne [Hnr [Hk Hbk]]]. rewrite Hk. rewrite Hbk in Hb.
        pose proof (find_value_spec rest (rev k) Hnr Hb) as Hv.
        destruct (find_value rest) as [|v rest'].
        -- rewrite Hv. reflexivity.
        -- destruct Hv as [Hn' [Hb' Hv]]. rewrite Hv. rewrite rev_involutive.
           change (Some (k, v) :: map Some tacc) with (map Some ((k, v) :: tacc)).
           etransitivity; [exact (IH rest' ((k, v) :: tacc) Hn' Hb')|].
           destruct (srun SItemStart rest') as [ts e]. unfold as_implemented.
           change (Nat.leb (S f) (length ((k, v) :: ts))) with (Nat.leb f (length ts)).
           destruct (Nat.leb f (length ts)); simpl.
           ++ now rewrite <- app_assoc.
           ++ destruct e; simpl; try reflexivity; now rewrite <- app_assoc.
Qed.

(* The exact characterisation. *)
Theorem tokenize_exact s :
  no_nul s -> bs_sensitive SItemStart s = false ->
  option_map token_prefix (tokenize s) = as_implemented MAX_RULE_TOKENS (spec_tokens s).
Proof.
  intros Hn Hb. unfold tokenize, spec_tokens.
  etransitivity; [exact (tokenize_loop_spec MAX_RULE_TOKENS s [] Hn Hb)|].
  destruct (as_implemented MAX_RULE_TOKENS (srun SItemStart s)); reflexivity.
Qed.

(* Agreement with the specification outside the two F5 classes. *)
Theorem tokenize_agrees s ts e :
  no_nul s -> bs_sensitive SItemStart s = false ->
  spec_tokens s = (ts, e) -> e <> SEmptyKey -> (length ts < MAX_RULE_TOKENS)%nat ->
  option_map token_prefix (tokenize s) = match e with SEndOk => Some ts | _ => None end.
Proof.
  intros Hn Hb Hs He Hl. rewrite (tokenize_exact s Hn Hb), Hs. unfold as_implemented.
  destruct (Nat.leb MAX_RULE_TOKENS (length ts)) eqn:E; [apply PeanoNat.Nat.leb_le in E; lia|].
  destruct e; try reflexivity. congruence.
Qed.
